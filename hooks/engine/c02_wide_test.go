//go:build verif

package engine

// C02, second ("wide") stage: the same property and the same technique as c02_test.go (bounded exhaustive
// enumeration of histories on a real shard, last-write-wins reference compared after every step), over a universe
// that is large enough to cross the size thresholds of the write -> flush -> compaction/merge -> read paths of the
// TSSTORE engine (notes/C02.md has the survey): range batches of 6..48 rows over 3 series and 32 timestamps with
// 8-row segments, under an enumerated set of knob settings (segments per chunk, output file size, chunk metas per
// meta-index item, streaming/non-streaming compaction, out-of-order files per merge, rows per returned record).

import (
	"context"
	"fmt"
	"math"
	"os"
	"path/filepath"
	"regexp"
	"runtime"
	"runtime/debug"
	"sort"
	"strings"
	"sync"
	"syscall"
	"testing"
	"time"

	"github.com/openGemini/openGemini/engine/comm"
	"github.com/openGemini/openGemini/engine/immutable"
	"github.com/openGemini/openGemini/lib/config"
	"github.com/openGemini/openGemini/lib/fileops"
	"github.com/openGemini/openGemini/lib/logger"
	"github.com/openGemini/openGemini/lib/record"
	"github.com/openGemini/openGemini/lib/statisticsPusher/statistics"
	"github.com/openGemini/openGemini/lib/tracing"
	"github.com/openGemini/openGemini/lib/util"
	"github.com/openGemini/openGemini/lib/util/lifted/influx/influxql"
	"github.com/openGemini/openGemini/lib/util/lifted/influx/query"
	"github.com/openGemini/openGemini/lib/util/lifted/vm/protoparser/influx"
	kit "github.com/openGemini/openGemini/lib/verifkit"
	"go.uber.org/zap"
	"go.uber.org/zap/zapcore"
)

// ---- universe W ------------------------------------------------------------------------------

const c02wMst = "m"
const c02wNT = 32 // timestamps t1..t32, 1 s apart

var c02wHosts = []string{"a", "b", "c"}

// every written value names the write (1-based position in the history), the series, the timestamp and, for a key
// written twice by one batch, which of the two occurrences it is
func c02wCode(id, host, t, dup int) int { return id*100000 + host*10000 + dup*1000 + t }

func c02wPoint(id, host, t, dup int, fields string) vPoint {
	code := c02wCode(id, host, t, dup)
	v := map[string]vVal{}
	for _, f := range fields {
		switch f {
		case 'f':
			v["f"] = vVal{Typ: influx.Field_Type_Float, F: float64(code) + 0.5}
		case 'i':
			v["i"] = vVal{Typ: influx.Field_Type_Int, I: int64(code)}
		case 's':
			v["s"] = vVal{Typ: influx.Field_Type_String, S: fmt.Sprintf("w%d", code)}
		}
	}
	return vPoint{vKey{c02wMst, c02wHosts[host], vT(t)}, v}
}

func c02wRange(id, host, from, to int, fields string) []vPoint {
	var pts []vPoint
	for t := from; t <= to; t++ {
		pts = append(pts, c02wPoint(id, host, t, 0, fields))
	}
	return pts
}

// c02wNullPattern: which fields the r-th row (1-based) of a "nulls" batch carries; every row carries at least one
func c02wNullPattern(r int) string {
	s := ""
	if r%3 != 0 {
		s += "f"
	}
	if r%4 != 1 {
		s += "i"
	}
	if r%2 == 0 || r%3 == 0 {
		s += "s"
	}
	return s
}

// Write menu of the wide stage (simplest first). Rows per segment = 8, so: Ra = 2 segments, Rc = 3 segments
// (more than a segment limit of 2: the chunk is split over two files), Re = 3 series x exactly 2 full segments.
var c02wWriteMenu = []struct {
	Name string
	Doc  string
	Gen  func(id int) []vPoint
}{
	{"Ra", "a t1..t12 {f,i,s}", func(id int) []vPoint { return c02wRange(id, 0, 1, 12, "fis") }},
	{"Rb", "a t9..t20 {f,s} (overlaps Ra on t9..t12, partial fields)", func(id int) []vPoint { return c02wRange(id, 0, 9, 20, "fs") }},
	{"Rc", "a t1..t24 {i}", func(id int) []vPoint { return c02wRange(id, 0, 1, 24, "i") }},
	{"Rd", "a t1..t6 {f,i} (late block once later data is flushed)", func(id int) []vPoint { return c02wRange(id, 0, 1, 6, "fi") }},
	{"Re", "a,b,c t1..t16, fields with a null pattern", func(id int) []vPoint {
		var pts []vPoint
		for h := 0; h < 3; h++ {
			for t := 1; t <= 16; t++ {
				pts = append(pts, c02wPoint(id, h, t, 0, c02wNullPattern(t+h)))
			}
		}
		return pts
	}},
	{"Rf", "b every 3rd timestamp t3..t30 {s}", func(id int) []vPoint {
		var pts []vPoint
		for t := 3; t <= 30; t += 3 {
			pts = append(pts, c02wPoint(id, 1, t, 0, "s"))
		}
		return pts
	}},
	{"Rg", "a t20..t1 in descending order {f,i}, t7 twice", func(id int) []vPoint {
		var pts []vPoint
		for t := 20; t >= 1; t-- {
			pts = append(pts, c02wPoint(id, 0, t, 0, "fi"))
			if t == 7 {
				pts = append(pts, c02wPoint(id, 0, t, 1, "fi"))
			}
		}
		return pts
	}},
	{"Rh", "b,c t13..t28 {f,i} (overlaps the tail of Re)", func(id int) []vPoint {
		return append(c02wRange(id, 1, 13, 28, "fi"), c02wRange(id, 2, 13, 28, "fi")...)
	}},
	{"Ri", "c t32..t1 shuffled (stride 13) {i,s} with a null pattern, 32 rows", func(id int) []vPoint {
		var pts []vPoint
		for k := 0; k < 32; k++ {
			t := (k*13)%32 + 1
			f := "is"
			if t%5 == 0 {
				f = "i"
			} else if t%7 == 0 {
				f = "s"
			}
			pts = append(pts, c02wPoint(id, 2, t, 0, f))
		}
		return pts
	}},
}

func c02wWriteIndex(name string) int {
	for i := range c02wWriteMenu {
		if c02wWriteMenu[i].Name == name {
			return i
		}
	}
	return -1
}

// reorganisations: F flush; LC level compaction (every level of the rule once, group size 2); FC full compaction;
// MO out-of-order merge into the ordered files (forced: no wait for 4 files / 5 minutes); MS merge of the
// out-of-order files among themselves (the "full" plan of the merge scheduler); RO clean close + reopen
var c02wReorgOps = []string{"F", "LC", "FC", "MO", "MS", "RO"}

// ---- knobs -----------------------------------------------------------------------------------

// c02wKnobs is one enumerated configuration. Zero values are the product defaults.
type c02wKnobs struct {
	SegLimit  int   `json:"seg_limit,omitempty"`  // segments per chunk (immutable.SetMaxSegmentLimit4TsStore); default 65535
	FileSize  int64 `json:"file_size,omitempty"`  // output file size limit in bytes (Config.fileSizeLimit); default 8 GiB
	MetaCount int   `json:"meta_count,omitempty"` // chunk metas per meta-index item (Config.maxChunkMetaItemCount); default 512
	Stream    int   `json:"stream,omitempty"`     // [data.compact] compaction-method: 0 auto (non-streaming for small chunks), 1 streaming
	OOOFiles  int   `json:"ooo_files,omitempty"`  // [data.merge] max-unordered-file-number; default 64
	SelfLevel int   `json:"self_level,omitempty"` // 1: [data.merge] stream-merge-mode-level = 0 (MS runs in streaming mode); default 2 (record mode)
	MetaZip   int   `json:"meta_zip,omitempty"`   // chunk-meta compress mode (immutable.SetChunkMetaCompressMode); default 0 none
}

func (k c02wKnobs) String() string {
	var p []string
	if k.SegLimit > 0 {
		p = append(p, fmt.Sprintf("seglimit=%d", k.SegLimit))
	}
	if k.FileSize > 0 {
		p = append(p, fmt.Sprintf("filesize=%d", k.FileSize))
	}
	if k.MetaCount > 0 {
		p = append(p, fmt.Sprintf("metacount=%d", k.MetaCount))
	}
	if k.Stream > 0 {
		p = append(p, "streaming")
	}
	if k.OOOFiles > 0 {
		p = append(p, fmt.Sprintf("ooofiles=%d", k.OOOFiles))
	}
	if k.SelfLevel > 0 {
		p = append(p, "selfmerge=stream")
	}
	if k.MetaZip > 0 {
		p = append(p, fmt.Sprintf("metazip=%d", k.MetaZip))
	}
	if len(p) == 0 {
		return "defaults"
	}
	return strings.Join(p, ",")
}

var c02wDefaultMerge = config.GetStoreConfig().Merge

func (k c02wKnobs) apply() {
	for i := range immutable.LeveLMinGroupFiles {
		immutable.LeveLMinGroupFiles[i] = 2
	}
	immutable.SetMaxRowsPerSegment4TsStore(8) // smallest legal value (multiples of 8)
	if k.SegLimit > 0 {
		immutable.SetMaxSegmentLimit4TsStore(k.SegLimit)
	} else {
		immutable.SetMaxSegmentLimit4TsStore(math.MaxUint16)
	}
	immutable.VerifC02SetFileSizeLimit(k.FileSize)
	immutable.VerifC02SetChunkMetaItemCount(k.MetaCount)
	immutable.SetMergeFlag4TsStore(int32(k.Stream))
	immutable.SetChunkMetaCompressMode(k.MetaZip)
	// the store configuration of a test process is the zero value; the product's default recovers a panic inside a
	// compaction (it is logged, the compaction is abandoned) instead of ending the process
	config.GetStoreConfig().Compact.CompactRecovery = true
	m := &config.GetStoreConfig().Merge
	*m = c02wDefaultMerge
	if k.OOOFiles > 0 {
		m.MaxUnorderedFileNumber = k.OOOFiles
	}
	if k.SelfLevel > 0 {
		m.StreamMergeModeLevel = 0
	}
}

// ---- error observation -----------------------------------------------------------------------

// Reorganisations run on the engine's own goroutines; their failures (returned errors, recovered panics) are
// only logged and counted by the engine. The wide stage taps the log (error level) and the two error counters.
type c02wLogTap struct {
	mu    sync.Mutex
	lines []string
}

func (t *c02wLogTap) Write(p []byte) (int, error) {
	t.mu.Lock()
	if len(t.lines) < 64 {
		s := string(p)
		if len(s) > 1500 {
			s = s[:1500]
		}
		t.lines = append(t.lines, strings.TrimSpace(s))
	}
	t.mu.Unlock()
	return len(p), nil
}
func (t *c02wLogTap) Sync() error { return nil }
func (t *c02wLogTap) take() []string {
	t.mu.Lock()
	l := t.lines
	t.lines = nil
	t.mu.Unlock()
	return l
}

var c02wTap *c02wLogTap

func c02wInstallTap() {
	if c02wTap != nil {
		return
	}
	c02wTap = &c02wLogTap{}
	enc := zapcore.NewConsoleEncoder(zapcore.EncoderConfig{MessageKey: "msg", LevelKey: "lvl", EncodeLevel: zapcore.LowercaseLevelEncoder})
	core := zapcore.NewCore(enc, c02wTap, zapcore.ErrorLevel)
	lg := logger.GetLogger().WithOptions(zap.WrapCore(func(c zapcore.Core) zapcore.Core { return zapcore.NewTee(c, core) }))
	logger.SetLogger(lg)
	immutable.Init() // re-binds the package logger of engine/immutable
	// the product default ([data.compact] compact-recovery = true): a panic inside a compaction / merge is recovered
	// and logged instead of ending the process; the engine tests' option struct has it off for merges
	DefaultEngineOption.CompactRecovery = true
}

func c02wErrCounters() (compact, merge int64) {
	for _, o := range statistics.NewCompactStatistics().CollectOps() {
		if v, ok := o.Values["Errors"].(int64); ok {
			compact += v
		}
	}
	for _, o := range statistics.NewMergeStatistics().CollectOps() {
		if v, ok := o.Values["Errors"].(int64); ok {
			merge += v
		}
	}
	return
}

// ---- ops -------------------------------------------------------------------------------------

func c02wApply(v *vShard, m vModel, op string, id int) error {
	if wi := c02wWriteIndex(op); wi >= 0 {
		pts := c02wWriteMenu[wi].Gen(id)
		if err := v.Write(pts); err != nil {
			return err
		}
		m.ApplyBatch(pts)
		return nil
	}
	switch op {
	case "F":
		v.Flush()
	case "LC":
		return v.LevelCompact()
	case "FC":
		return v.FullCompact()
	case "MO":
		return v.MergeOOO(false)
	case "MS":
		err := v.sh.immTables.MergeOutOfOrder(v.sh.GetID(), true, false)
		v.tables().Wait()
		return err
	case "RO":
		return v.Reopen()
	default:
		return fmt.Errorf("unknown op %q", op)
	}
	return nil
}

// ---- layout ----------------------------------------------------------------------------------

type c02wLayout struct {
	Names    string // file names (ordered | out of order) + mem flag: identity of the layout for no-op detection
	Shape    string // per file: level/merge/extent class and the segment count of every chunk, per meta-index item
	NOrder   int
	NUnorder int
	Mem      bool
	Bounds   []int64 // first and last time of every segment of every file (sorted, distinct)
	MaxSegs  int
	Items    int // max meta-index items in one file
	// largest number of segments one series has in the ordered files together (a streaming compaction of these files
	// writes that series as a chunk split over several files when the number exceeds the segments-per-chunk limit)
	SeriesSegs int
	PreAgg     []string // development aid (VERIF_C02_PREAGG=1): columns whose value count in the chunk meta differs from the segments
}

var c02wCheckPreAgg = kit.Getenv("VERIF_C02_PREAGG", "") != ""

// c02wPreAgg compares, for one chunk, the number of values every column's pre-aggregation reports with the number of
// non-null values its segments hold (belongs to C09's property; used here only to validate a proposed repair).
func c02wPreAgg(f immutable.TSSPFile, cm *immutable.ChunkMeta) []string {
	var out []string
	ctx := immutable.NewReadContext(true)
	defer ctx.Release()
	cols := cm.GetColMeta()
	var schema record.Schemas
	for i := range cols {
		schema = append(schema, record.Field{Name: cols[i].Name(), Type: int(cols[i].Type())})
	}
	actual := make([]int64, len(cols))
	for sgi := 0; sgi < cm.SegmentCount(); sgi++ {
		dst := record.NewRecordBuilder(schema)
		rec, err := f.ReadAt(cm, sgi, dst, ctx, fileops.IO_PRIORITY_LOW_READ)
		if err != nil || rec == nil {
			return []string{fmt.Sprintf("read segment %d: %v", sgi, err)}
		}
		for ci := range rec.ColVals {
			actual[ci] += int64(rec.ColVals[ci].Len - rec.ColVals[ci].NilCount)
		}
	}
	for i := range cols {
		n, err := cols[i].RowCount(&schema[i], ctx)
		if err != nil {
			out = append(out, fmt.Sprintf("%s: %v", cols[i].Name(), err))
		} else if n != actual[i] {
			out = append(out, fmt.Sprintf("sid %d column %s: pre-aggregated count %d, segments hold %d values", cm.GetSid(), cols[i].Name(), n, actual[i]))
		}
	}
	return out
}

func (v *vShard) c02wLayout() (c02wLayout, error) {
	var l c02wLayout
	order, unorder, _ := v.sh.immTables.GetBothFilesRef(c02wMst, false, util.TimeRange{Min: math.MinInt64, Max: math.MaxInt64}, nil)
	defer immutable.UnrefFiles(order...)
	defer immutable.UnrefFiles(unorder...)
	l.NOrder, l.NUnorder = len(order), len(unorder)
	var names, shape strings.Builder
	bset := map[int64]bool{}
	perSeries := map[uint64]int{}
	one := func(f immutable.TSSPFile, ooo bool) error {
		fn := f.FileName()
		names.WriteString(fn.String() + " ")
		lv, _ := f.LevelAndSequence()
		fmt.Fprintf(&shape, "L%dm%de%d", lv, f.FileNameMerge(), f.FileNameExtend())
		if ooo {
			shape.WriteString("u")
		}
		n := int(f.MetaIndexItemNum())
		if n > l.Items {
			l.Items = n
		}
		for i := 0; i < n; i++ {
			mi, err := f.MetaIndexAt(i)
			if err != nil {
				return err
			}
			cms, err := f.ReadChunkMetaData(i, mi, nil, fileops.IO_PRIORITY_LOW_READ)
			if err != nil {
				return err
			}
			shape.WriteString("[")
			for j := range cms {
				sc := cms[j].SegmentCount()
				if sc > l.MaxSegs {
					l.MaxSegs = sc
				}
				fmt.Fprintf(&shape, "%d ", sc)
				if !ooo {
					perSeries[cms[j].GetSid()] += sc
					if perSeries[cms[j].GetSid()] > l.SeriesSegs {
						l.SeriesSegs = perSeries[cms[j].GetSid()]
					}
				}
				if c02wCheckPreAgg {
					l.PreAgg = append(l.PreAgg, c02wPreAgg(f, &cms[j])...)
				}
				for s := 0; s < sc; s++ {
					r := cms[j].GetTimeRangeBy(s)
					bset[r[0]], bset[r[1]] = true, true
				}
			}
			shape.WriteString("]")
		}
		shape.WriteString(" ")
		return nil
	}
	for _, f := range order {
		if err := one(f, false); err != nil {
			return l, err
		}
	}
	names.WriteString("| ")
	shape.WriteString("| ")
	for _, f := range unorder {
		if err := one(f, true); err != nil {
			return l, err
		}
	}
	if v.sh.activeTbl != nil && v.sh.activeTbl.GetMemSize() > 0 {
		l.Mem = true
		names.WriteString("mem")
		shape.WriteString("mem")
	}
	l.Names, l.Shape = names.String(), shape.String()
	for b := range bset {
		l.Bounds = append(l.Bounds, b)
	}
	sort.Slice(l.Bounds, func(i, j int) bool { return l.Bounds[i] < l.Bounds[j] })
	return l, nil
}

// ---- reads -----------------------------------------------------------------------------------

type c02wQuery struct {
	vQuery
	Chunk int // rows per record returned by the merge cursors (query option chunk size; HTTP inner_chunk_size)
}

func (q c02wQuery) String() string { return fmt.Sprintf("%v chunk=%d", q.vQuery, q.Chunk) }

func c02wHostOfTag(tag []byte) string {
	s := string(tag)
	for _, h := range c02wHosts {
		if strings.Contains(s, "host\x00"+h+"\x00") || strings.HasSuffix(s, "host\x00"+h) || strings.Contains(s, "host="+h) {
			return h
		}
	}
	return "?" + fmt.Sprintf("%q", s)
}

// c02wDump: vShard.Dump with the chunk size as a parameter and three hosts (same cursor path, same iteration).
func (v *vShard) c02wDump(q c02wQuery, st *c02wReadStat) (map[vKey]map[string]vVal, []string, error) {
	var opt query.ProcessorOptions
	opt.Name = q.Mst
	opt.Dimensions = []string{"host"}
	opt.Ascending = q.Ascending
	opt.FieldAux = q.Fields
	opt.MaxParallel = 1
	opt.ChunkSize = q.Chunk
	opt.StartTime = q.Start
	opt.EndTime = q.End
	schema := genQuerySchema(q.Fields, &opt)
	_, span := tracing.NewTrace("root")
	ctx := tracing.NewContextWithSpan(context.Background(), span)
	info, err := v.sh.CreateCursor(ctx, schema)
	if err != nil {
		return nil, nil, err
	}
	out := map[vKey]map[string]vVal{}
	if info == nil {
		return out, nil, nil
	}
	defer info.Unref()
	var shapeErrs []string
	for _, cur := range info.GetCursors() {
		errs, err := c02wDrain(cur, q, out, st)
		shapeErrs = append(shapeErrs, errs...)
		_ = cur.Close()
		if err != nil {
			return nil, nil, err
		}
	}
	return out, shapeErrs, nil
}

func c02wDrain(cur comm.KeyCursor, q c02wQuery, out map[vKey]map[string]vVal, st *c02wReadStat) ([]string, error) {
	var shapeErrs []string
	last := map[string]int64{}
	hasLast := map[string]bool{}
	if gc, ok := cur.(*groupCursor); ok {
		gc.preAgg = true
		SetNextMethod(cur)
	}
	for {
		rec, info, err := cur.Next()
		if err != nil {
			return shapeErrs, err
		}
		if rec == nil {
			return shapeErrs, nil
		}
		host := "?"
		if info != nil {
			host = c02wHostOfTag(info.GetSeriesKey())
		}
		times := rec.Times()
		st.records++
		if rec.RowNums() > st.maxRows {
			st.maxRows = rec.RowNums()
		}
		for row := 0; row < rec.RowNums(); row++ {
			k := vKey{q.Mst, host, times[row]}
			vals := map[string]vVal{}
			for ci := 0; ci < len(rec.Schema)-1; ci++ {
				col := rec.Column(ci)
				if col.IsNil(row) {
					continue
				}
				name := rec.Schema[ci].Name
				switch rec.Schema[ci].Type {
				case influx.Field_Type_Float:
					f, _ := col.FloatValue(row)
					vals[name] = vVal{Typ: influx.Field_Type_Float, F: f}
				case influx.Field_Type_Int:
					n, _ := col.IntegerValue(row)
					vals[name] = vVal{Typ: influx.Field_Type_Int, I: n}
				case influx.Field_Type_String:
					s, _ := col.StringValueSafe(row)
					vals[name] = vVal{Typ: influx.Field_Type_String, S: s}
				}
			}
			if times[row] < q.Start || times[row] > q.End {
				shapeErrs = append(shapeErrs, fmt.Sprintf("row %v outside the queried range", k))
			}
			if hasLast[host] {
				switch {
				case last[host] == times[row]:
					shapeErrs = append(shapeErrs, fmt.Sprintf("duplicate timestamp for %v", k))
				case q.Ascending && times[row] < last[host], !q.Ascending && times[row] > last[host]:
					shapeErrs = append(shapeErrs, fmt.Sprintf("rows of host=%s not sorted by time at %v", host, k))
				}
			}
			last[host], hasLast[host] = times[row], true
			if len(vals) == 0 {
				continue // a row whose selected fields are all null is not a query result row
			}
			if old, dup := out[k]; dup {
				shapeErrs = append(shapeErrs, fmt.Sprintf("key %v returned twice (%v and %v)", k, old, vals))
			}
			out[k] = vals
		}
	}
}

type c02wReadStat struct {
	records int
	maxRows int
}

// c02wQueries: the read shapes compared at a step. Time ranges are derived from the actual layout: for every first /
// last timestamp b of every segment of every file (and of the whole content) the range starts b-1s, b, b+1s (to
// +inf) and the range ends b-1s, b, b+1s (from -inf), plus, for neighbouring boundaries, [b_i, b_j] and the strictly
// inner [b_i+1s, b_j-1s]. Field subsets: all 7 non-empty subsets on the unbounded range (asc and desc, both record
// sizes); on every other range the full field set and one proper subset (rotating through the 6 proper subsets),
// asc and desc, the record size alternating between 1000 and 5 rows.
func c02wQueries(l c02wLayout, m vModel) []c02wQuery {
	const sec = int64(1e9)
	var subsets [][]influxql.VarRef
	for mask := 1; mask < 1<<len(vFields); mask++ {
		var s []influxql.VarRef
		for i := range vFields {
			if mask&(1<<i) != 0 {
				s = append(s, vFields[i])
			}
		}
		subsets = append(subsets, s)
	}
	all := subsets[len(subsets)-1]
	proper := subsets[:len(subsets)-1]
	var qs []c02wQuery
	for _, s := range subsets {
		for _, asc := range []bool{true, false} {
			for _, ch := range []int{1000, 5} {
				qs = append(qs, c02wQuery{vQuery{Mst: c02wMst, Fields: s, Ascending: asc, Start: influxql.MinTime, End: influxql.MaxTime}, ch})
			}
		}
	}
	bset := map[int64]bool{}
	for _, b := range l.Bounds {
		bset[b] = true
	}
	first := true
	var lo, hi int64
	for k := range m {
		if first || k.T < lo {
			lo = k.T
		}
		if first || k.T > hi {
			hi = k.T
		}
		first = false
	}
	if !first {
		bset[lo], bset[hi] = true, true
	}
	var bs []int64
	for b := range bset {
		bs = append(bs, b)
	}
	sort.Slice(bs, func(i, j int) bool { return bs[i] < bs[j] })
	type rng struct{ s, e int64 }
	seen := map[rng]bool{}
	var rs []rng
	add := func(s, e int64) {
		r := rng{s, e}
		if s > e || seen[r] {
			return
		}
		seen[r] = true
		rs = append(rs, r)
	}
	for _, b := range bs {
		for _, d := range []int64{-sec, 0, sec} {
			add(b+d, influxql.MaxTime)
			add(influxql.MinTime, b+d)
		}
	}
	for i := 0; i+1 < len(bs); i++ {
		add(bs[i], bs[i+1])
		add(bs[i]+sec, bs[i+1]-sec)
	}
	for i, r := range rs {
		for oi, asc := range []bool{true, false} {
			ch := 1000
			if (i+oi)%2 == 1 {
				ch = 5
			}
			qs = append(qs, c02wQuery{vQuery{Mst: c02wMst, Fields: all, Ascending: asc, Start: r.s, End: r.e}, ch})
			qs = append(qs, c02wQuery{vQuery{Mst: c02wMst, Fields: proper[(i+oi)%len(proper)], Ascending: asc, Start: r.s, End: r.e}, 1005 - ch})
		}
	}
	return qs
}

// ---- one history -----------------------------------------------------------------------------

type c02wCase struct {
	Wide   bool      `json:"wide"`
	Volume string    `json:"volume,omitempty"` // one of c02wVolumeCases instead of knobs + letters
	Knobs  c02wKnobs `json:"knobs"`
	Ops    []string  `json:"ops"`
}

func (c c02wCase) key(n int) string {
	return "wide[" + c.Knobs.String() + "] " + strings.Join(c.Ops[:n], " ")
}

type c02wViolation struct {
	kind, key, detail string
	replay            c02wCase
}

type c02wEnd struct {
	vio    *c02wViolation
	noop   bool
	lay    c02wLayout
	lastOp string
	writes int
	digest string
}

// A letter of a history is a write batch ("Ra"), a write batch followed by a flush ("Ra!": one letter, two steps on
// the shard, so that layouts with several files are reached by short histories) or a reorganisation.
func c02wIsWrite(letter string) bool { return c02wWriteIndex(strings.TrimSuffix(letter, "!")) >= 0 }

var c02wDirSeq int

// c02wWalFiles lists the WAL files of the shard. The WAL creates a file at the first write after a switch and a flush
// removes every file it switched away from, so while the memtable is empty no WAL file exists.
func c02wWalFiles(dir string) []string {
	var out []string
	_ = filepath.Walk(filepath.Join(dir, "wal"), func(p string, info os.FileInfo, err error) error {
		if err == nil && !info.IsDir() && strings.HasSuffix(p, ".wal") {
			rel, _ := filepath.Rel(dir, p)
			out = append(out, fmt.Sprintf("%s:%d", rel, info.Size()))
		}
		return nil
	})
	return out
}

// c02wListFiles lists the files below the shard's data directory (name:size), for the detail of a violation.
func c02wListFiles(dir string) string {
	var out []string
	_ = filepath.Walk(filepath.Join(dir, "data"), func(p string, info os.FileInfo, err error) error {
		if err == nil && !info.IsDir() {
			rel, _ := filepath.Rel(dir, p)
			out = append(out, fmt.Sprintf("%s:%d", rel, info.Size()))
		}
		return nil
	})
	return strings.Join(out, " ")
}

type c02wStep struct {
	op     string
	letter int  // index of the letter this step belongs to
	last   bool // last step of its letter
}

func c02wSteps(letters []string) []c02wStep {
	var st []c02wStep
	for i, l := range letters {
		if strings.HasSuffix(l, "!") {
			st = append(st, c02wStep{strings.TrimSuffix(l, "!"), i, false}, c02wStep{"F", i, true})
		} else {
			st = append(st, c02wStep{l, i, true})
		}
	}
	return st
}

// c02wRunHistory runs the letters of c on a fresh shard under c.Knobs. Letters >= fullFrom get the full oracle after
// their last step; every other step (compared in full when that prefix was explored as a history of its own, or the
// write half of a "write then flush" letter) gets one unbounded read of all fields, which also pins the survivor
// of same-batch duplicates the way the first read of that prefix did.
func c02wRunHistory(rep *kit.Report, parent string, c c02wCase, fullFrom int, stats bool) (end c02wEnd) {
	// a directory of its own for every execution (in a deployed store a data file name is never reused; here file names
	// restart from 00000001 in every fresh shard). Precaution only: the non-repeating stale reads once blamed on directory
	// reuse were the WAL.Switch race (see staleWal below and notes/C02.md)
	c02wDirSeq++
	dir := filepath.Join(parent, fmt.Sprintf("h%07d", c02wDirSeq))
	if kit.Getenv("VERIF_C02_REUSE_DIR", "") != "" { // development aid: one directory for all histories (comparison runs)
		dir = filepath.Join(parent, "reused")
	}
	_ = os.RemoveAll(dir)
	c.Knobs.apply()
	c02wInstallTap()
	lastNames := ""
	staleWal := ""         // WAL files seen while the memtable was empty (see fail)
	staleReplayed := false // a reopen happened while such a file existed
	// the step under way is a reopen that replays >= 2 write batches acknowledged after a flush
	flushedOnce, unflushedWrites, walOrderStep := false, 0, false
	mergeSelf := false // the step under way is MS
	splitPath := false // the step under way is a streaming compaction that has to split a chunk (see c02wLayout.SeriesSegs)
	fail := func(n int, kind, detail string) c02wEnd {
		cc := c02wCase{Wide: true, Knobs: c.Knobs, Ops: append([]string(nil), c.Ops[:n]...)}
		// defect families with kinds of their own (the symptom goes to the detail)
		switch {
		case !strings.HasPrefix(kind, "wide_"):
		case staleWal != "" && staleReplayed:
			// a WAL file that a completed flush should have removed is still there (WAL.Switch can return before the
			// writer of the last partition has handed over its file names: a race, so not reproducible at will); its rows
			// are replayed by the next open as if they were the newest writes
			detail = "symptom " + kind + ": " + detail + " [WAL files left behind by an earlier flush: " + staleWal + "]"
			kind = "wide_stale_wal_replay"
		case splitPath:
			// the split-chunk path of StreamIterators.compactColumn (a series with more segments than a chunk may hold)
			detail = "symptom " + kind + ": " + detail
			kind = "wide_stream_split_chunk"
		case walOrderStep && kind == "wide_wrong_value":
			// the known WAL partition-order defect of C01 seen through a clean reopen (see c02RunHistory)
			kind = "wide_reopen_replays_unflushed_writes_in_wrong_order"
		case mergeSelf && kind == "wide_wrong_value":
			// MergeSelf appends the chunks of a series in the order of their first timestamps, not of their files
			detail = "symptom " + kind + ": " + detail
			kind = "wide_merge_self_wrong_value"
		}
		if strings.HasPrefix(kind, "wide_") {
			detail += " [data files: " + c02wListFiles(dir) + "; before the step: " + lastNames + "]"
		}
		end.vio = &c02wViolation{kind, c.key(n), detail, cc}
		return end
	}
	v, err := vOpenShard(dir)
	if err != nil {
		return fail(0, "harness_open_error", err.Error())
	}
	defer func() {
		if err := v.Close(); err != nil && end.vio == nil {
			end = fail(len(c.Ops), "wide_close_error", err.Error())
		}
		_ = os.RemoveAll(dir)
	}()
	m := vModel{}
	prev, err := v.c02wLayout()
	if err != nil {
		return fail(0, "wide_layout_error", err.Error())
	}
	letterStart, letterDigest := prev, m.Digest()
	for _, st := range c02wSteps(c.Ops) {
		i, op := st.letter, st.op
		ce0, me0 := c02wErrCounters()
		c02wTap.take()
		lastNames = prev.Names
		mergeSelf = op == "MS"
		switch {
		case op == "F":
			flushedOnce, unflushedWrites = true, 0
		case c02wWriteIndex(op) >= 0:
			unflushedWrites++
		}
		walOrderStep = op == "RO" && flushedOnce && unflushedWrites >= 2
		if op == "RO" {
			unflushedWrites = 0
		}
		if op == "RO" && staleWal != "" {
			staleReplayed = true
		}
		splitPath = (op == "LC" || op == "FC") && c.Knobs.Stream == 1 && c.Knobs.SegLimit > 0 && prev.SeriesSegs > c.Knobs.SegLimit
		if err := c02wApply(v, m, op, i+1); err != nil {
			return fail(i+1, "wide_op_error", fmt.Sprintf("op %s failed: %v", op, err))
		}
		if stats {
			rep.Count("wide_steps", 1)
		}
		ce1, me1 := c02wErrCounters()
		all := strings.Join(c02wTap.take(), " || ")
		panicked := strings.Contains(all, "Panic:")
		if ce1 != ce0 || me1 != me0 || panicked {
			// (other error-level lines are not a verdict: e.g. the WAL reader logs the EOF that ends every replayed file)
			kind := "wide_reorg_error"
			if panicked {
				kind = "wide_reorg_panic"
			}
			return fail(i+1, kind, fmt.Sprintf("%s: compaction errors +%d, merge errors +%d, error log: %s (layout before: %s)", op, ce1-ce0, me1-me0, all, prev.Shape))
		}
		lay, err := v.c02wLayout()
		if err != nil {
			return fail(i+1, "wide_layout_error", err.Error())
		}
		prev = lay
		if !lay.Mem && op != "RO" && staleWal == "" {
			if wf := c02wWalFiles(dir); len(wf) > 0 {
				staleWal = strings.Join(wf, " ")
				if stats {
					rep.Count("wide_stale_wal_files_seen", 1)
					rep.Note("WAL file left behind by a completed flush (memtable empty): %s after %s", staleWal, c.key(i+1))
				}
			}
		}
		if len(lay.PreAgg) > 0 {
			return fail(i+1, "wide_preagg_mismatch", fmt.Sprintf("after %s: %s (layout %s)", op, strings.Join(lay.PreAgg, "; "), lay.Shape))
		}
		full := st.last && i >= fullFrom
		if st.last {
			end.lay, end.lastOp, end.digest = lay, c.Ops[i], m.Digest()
			if c02wIsWrite(c.Ops[i]) {
				end.writes++
			}
			if op != "RO" && end.digest == letterDigest && lay.Names == letterStart.Names {
				end.noop = true // same content, same files: same futures; the shorter history is explored anyway
				return end
			}
			letterStart, letterDigest = lay, end.digest
		}
		var qs []c02wQuery
		if full {
			qs = c02wQueries(lay, m)
		} else {
			qs = []c02wQuery{{vQuery{Mst: c02wMst, Fields: vFields, Ascending: true, Start: influxql.MinTime, End: influxql.MaxTime}, 1000}}
		}
		var rs c02wReadStat
		for _, q := range qs {
			got, shapeErrs, err := v.c02wDump(q, &rs)
			if err != nil {
				return fail(i+1, "wide_read_error", fmt.Sprintf("after %s: %v: %v (layout %s)", op, q, err, lay.Shape))
			}
			if len(shapeErrs) > 0 {
				return fail(i+1, "wide_stream_shape", fmt.Sprintf("after %s: %v: %s (layout %s)", op, q, strings.Join(shapeErrs, "; "), lay.Shape))
			}
			if diffs := m.Compare(q.vQuery, got); len(diffs) > 0 {
				if len(diffs) > 12 {
					diffs = append(diffs[:12], fmt.Sprintf("... %d more", len(diffs)-12))
				}
				return fail(i+1, "wide_"+c02Classify(diffs), fmt.Sprintf("after %s: %v: %s (layout %s)", op, q, strings.Join(diffs, "; "), lay.Shape))
			}
		}
		if stats && full {
			rep.Eval(1)
			rep.Count("wide_reads", int64(len(qs)))
			rep.Count("wide_records_read", int64(rs.records))
			rep.Max("max_wide_rows_per_record", int64(rs.maxRows))
			rep.Max("max_wide_segments_per_chunk", int64(lay.MaxSegs))
			rep.Max("max_wide_meta_index_items_per_file", int64(lay.Items))
			rep.Max("max_wide_ordered_files", int64(lay.NOrder))
			rep.Max("max_wide_out_of_order_files", int64(lay.NUnorder))
			rep.Max("max_wide_range_boundaries", int64(len(lay.Bounds)))
			if rep.DistinctNontrivial(kit.Hash("wide", c.Knobs.String(), end.digest, lay.Shape)) {
				rep.Count("wide_states", 1)
				rep.Count("states", 1)
				rep.Sample(12, map[string]any{"stage": "wide", "knobs": c.Knobs.String(), "history": strings.Join(c.Ops[:i+1], " "), "layout": lay.Shape})
			}
		}
	}
	return end
}

// ---- exploration -----------------------------------------------------------------------------

func c02wApplicable(e c02wEnd, op string) bool {
	switch op {
	case "F":
		return e.lay.Mem
	case "LC", "FC":
		return e.lay.NOrder >= 2
	case "MO":
		return e.lay.NUnorder >= 1
	case "MS":
		return e.lay.NUnorder >= 2
	case "RO":
		return e.lastOp != "RO"
	}
	return true
}

var c02wTrace = kit.Getenv("VERIF_C02_TRACE", "") != ""

type c02wPlan struct {
	Name      string
	Doc       string
	Knobs     []c02wKnobs
	Ops       []string
	Depth     int
	MaxWrites int                                   // at most this many write letters in a history (0 = no bound)
	Allow     func(prefix []string, op string) bool // further restriction of the grammar (nil = none)
}

// c02wExplore: depth-first over all histories of the plan. A node = one history, run from scratch on a fresh shard
// and compared in full at its last letter (its prefixes are nodes of their own). Children = every letter of the
// alphabet that is applicable in the node's end state (a flush needs memtable data, compactions two ordered files,
// merges out-of-order files; anything else would be a no-op) unless the node's last letter turned out to be a no-op.
// Sub-trees below the second letter are dealt to the workers.
func c02wExplore(rep *kit.Report, scratch string, p c02wPlan) {
	dir := vMkdir(scratch, "wsh")
	run := func(k c02wKnobs, ops []string, check bool) c02wEnd {
		c := c02wCase{Wide: true, Knobs: k, Ops: ops}
		from := len(ops) - 1
		if !check {
			from = len(ops)
		} else {
			rep.Count("wide_histories", 1)
			rep.Count("wide_histories_"+p.Name, 1)
		}
		if c02wTrace {
			fmt.Fprintf(os.Stderr, "C02W-RUN %s\n", c.key(len(c.Ops)))
		}
		// kit.RunConfirmed: a history that reports a violation is executed a second time from scratch and only what both
		// executions report is kept (a failure that does not repeat is counted, never a verdict)
		var e, first c02wEnd
		var stale *c02wViolation
		rep.RunConfirmed(func() {
			e = c02wRunHistory(rep, dir, c, from, check)
			if e.vio == nil {
				return
			}
			if first.vio == nil {
				first = e
			}
			if e.vio.kind == "wide_stale_wal_replay" {
				// the cause is a race of the product (see c02wRunHistory), so a second execution is no criterion: reported
				// as observed, outside the confirmation
				stale = e.vio
				return
			}
			rep.Violation(e.vio.kind, e.vio.key, e.vio.detail, e.vio.replay)
		})
		if stale != nil {
			rep.Violation(stale.kind, stale.key, stale.detail, stale.replay)
		}
		if first.vio != nil {
			rep.Count("wide_failed_histories", 1)
			e = first // nothing is explored below a history that failed once
		}
		return e
	}
	ok := func(e c02wEnd, prefix []string, op string) bool {
		if !c02wApplicable(e, op) {
			return false
		}
		if p.MaxWrites > 0 && c02wIsWrite(op) && e.writes >= p.MaxWrites {
			return false
		}
		return p.Allow == nil || p.Allow(prefix, op)
	}
	var rec func(k c02wKnobs, prefix []string, e c02wEnd)
	rec = func(k c02wKnobs, prefix []string, e c02wEnd) {
		if e.vio != nil || e.noop || len(prefix) >= p.Depth {
			return
		}
		for _, op := range p.Ops {
			if rep.Expired() {
				return
			}
			if !ok(e, prefix, op) {
				continue
			}
			h := append(append([]string(nil), prefix...), op)
			rec(k, h, run(k, h, true))
		}
	}
	unit := 0
	for _, k := range p.Knobs {
		for _, o1 := range p.Ops {
			if !c02wIsWrite(o1) || (p.Allow != nil && !p.Allow(nil, o1)) {
				continue // every reorganisation of an empty shard is a no-op
			}
			var e1 c02wEnd
			ran := false
			for i2, o2 := range p.Ops {
				unit++
				if !kit.Mine(unit) {
					continue
				}
				if rep.Expired() {
					return
				}
				if !ran {
					// the node [o1] is compared (and counted) by the worker that owns its first sub-tree
					e1 = run(k, []string{o1}, i2 == 0)
					ran = true
				}
				if e1.vio != nil {
					break
				}
				if p.Depth < 2 || e1.noop || !ok(e1, []string{o1}, o2) {
					continue
				}
				h := []string{o1, o2}
				rec(k, h, run(k, h, true))
			}
		}
	}
}

// ---- plans -----------------------------------------------------------------------------------

func c02wWrites(suffix string) []string {
	var ops []string
	for _, w := range c02wWriteMenu {
		ops = append(ops, w.Name+suffix)
	}
	return ops
}

const c02wTiny = 1 // file size limit of 1 byte: every chunk closes its file

func c02wKnobProduct() []c02wKnobs {
	var product []c02wKnobs
	for _, seg := range []int{0, 2} {
		for _, fs := range []int64{0, c02wTiny} {
			for _, mc := range []int{0, 1} {
				for _, st := range []int{0, 1} {
					product = append(product, c02wKnobs{SegLimit: seg, FileSize: fs, MetaCount: mc, Stream: st})
				}
			}
		}
	}
	return product
}

func c02wPlans(thorough bool) []c02wPlan {
	small := c02wKnobs{SegLimit: 2, FileSize: c02wTiny, MetaCount: 1}
	smallS := small
	smallS.Stream = 1
	memOps := append(c02wWrites(""), "F", "RO")
	fileOps := append(c02wWrites("!"), "LC", "FC", "MO", "MS", "RO")
	overOps := append(append(c02wWrites("!"), c02wWrites("")...), "RO")
	// mem-over-files: flushed writes first, then unflushed ones, then optionally a reopen (WAL replay over files)
	overAllow := func(prefix []string, op string) bool {
		plain := false
		for _, o := range prefix {
			if o == "RO" {
				return false
			}
			if c02wIsWrite(o) && !strings.HasSuffix(o, "!") {
				plain = true
			}
		}
		if len(prefix) == 0 {
			return strings.HasSuffix(op, "!")
		}
		if op == "RO" {
			return plain
		}
		return !(plain && strings.HasSuffix(op, "!"))
	}
	// out-of-order files among themselves: three flushed batches of series a give two out-of-order files
	selfOps := []string{"Ra!", "Rb!", "Rc!", "Rd!", "Rg!", "MS", "MO", "LC", "RO"}
	if !thorough {
		five := []c02wKnobs{{}, {SegLimit: 2, MetaCount: 1}, {SegLimit: 2, MetaCount: 1, Stream: 1}, small, smallS}
		return []c02wPlan{
			{Name: "files", Doc: "flushed write batches and reorganisations", Depth: 4, MaxWrites: 2, Ops: fileOps, Knobs: five},
			{Name: "self", Doc: "three flushed batches of one series, merges of the out-of-order files", Depth: 5, MaxWrites: 3, Ops: selfOps,
				Allow: c02wWritesFirst, Knobs: []c02wKnobs{{}, smallS}},
			{Name: "mem", Doc: "unflushed write batches, flush, reopen", Depth: 3, Ops: memOps, Knobs: []c02wKnobs{{}, small}},
			{Name: "over", Doc: "unflushed batches over flushed ones", Depth: 3, Ops: overOps, Allow: overAllow, Knobs: []c02wKnobs{small}},
		}
	}
	return []c02wPlan{
		{Name: "files", Doc: "flushed write batches and reorganisations", Depth: 5, MaxWrites: 2, Ops: fileOps, Knobs: c02wKnobProduct()},
		{Name: "self", Doc: "three flushed batches of one series, merges of the out-of-order files", Depth: 6, MaxWrites: 3, Ops: selfOps,
			Allow: c02wWritesFirst, Knobs: []c02wKnobs{{}, small, smallS, {SegLimit: 2, FileSize: c02wTiny, MetaCount: 1, OOOFiles: 1},
				{SegLimit: 2, FileSize: c02wTiny, MetaCount: 1, Stream: 1, SelfLevel: 1}, {SegLimit: 2, MetaCount: 1, MetaZip: 1}}},
		{Name: "mem", Doc: "unflushed write batches, flush, reopen", Depth: 4, Ops: memOps, Knobs: []c02wKnobs{{}, small}},
		{Name: "over", Doc: "unflushed batches over flushed ones", Depth: 4, Ops: overOps, Allow: overAllow, Knobs: []c02wKnobs{{}, small, smallS}},
		{Name: "files3", Doc: "three flushed write batches and reorganisations", Depth: 5, MaxWrites: 3, Ops: fileOps, Knobs: []c02wKnobs{small, smallS}},
	}
}

// c02wWritesFirst: all write letters of a history come before its first reorganisation
func c02wWritesFirst(prefix []string, op string) bool {
	if !c02wIsWrite(op) {
		return true
	}
	for _, o := range prefix {
		if !c02wIsWrite(o) {
			return false
		}
	}
	return true
}

func c02wCPUms() int64 {
	var ru syscall.Rusage
	if syscall.Getrusage(syscall.RUSAGE_SELF, &ru) != nil {
		return 0
	}
	return (ru.Utime.Sec+ru.Stime.Sec)*1000 + int64(ru.Utime.Usec+ru.Stime.Usec)/1000
}

func c02WideStage(rep *kit.Report, scratch string) {
	cpu0, t0 := c02wCPUms(), time.Now()
	// harness economy only: every history opens and closes a real shard (index caches, memtables: ~100 ms CPU, a third
	// of it garbage collection and info-level logging)
	defer debug.SetGCPercent(debug.SetGCPercent(400))
	defer runtime.GOMAXPROCS(runtime.GOMAXPROCS(4)) // 16 workers share 16 cores; the index writes one cache file per P and cache on close
	_ = logger.SetLevel("error")
	defer func() {
		// measured cost of the stage (sum over the workers): CPU is what counts on a loaded machine
		rep.Count("wide_cpu_ms", c02wCPUms()-cpu0)
		rep.Max("max_wide_wall_ms", time.Since(t0).Milliseconds())
	}()
	only := kit.Getenv("VERIF_C02_PLAN", "")
	if only == "" || only == "volume" {
		rep.Note("wide stage volume cases (legal configuration only: max-rows-per-segment=8, more than 65535 segments of one series in one full compaction): %v", c02wVolumeCases)
		for i, w := range c02wVolumeCases {
			if !kit.Mine(1000 + 7*i) {
				continue
			}
			rep.Count("wide_volume_cases", 1)
			rep.Eval(1)
			rep.DistinctNontrivial(kit.Hash("wide-volume", w))
			rep.RunConfirmed(func() {
				if vio := c02WideVolume(scratch, w); vio != nil {
					rep.Violation(vio.kind, vio.key, vio.detail, vio.replay)
				}
			})
		}
	}
	for _, p := range c02wPlans(kit.Thorough()) {
		if only != "" && only != p.Name {
			continue
		}
		if rx := kit.Getenv("VERIF_C02_KNOBS", ""); rx != "" { // development aid: only the knob settings matching the regexp
			var keep []c02wKnobs
			for _, k := range p.Knobs {
				if regexp.MustCompile(rx).MatchString(k.String()) {
					keep = append(keep, k)
				}
			}
			p.Knobs = keep
		}
		var ks []string
		for _, k := range p.Knobs {
			ks = append(ks, k.String())
		}
		rep.Note("wide stage plan %s (%s): depth=%d max_writes=%d alphabet=%v knob settings=%v", p.Name, p.Doc, p.Depth, p.MaxWrites, p.Ops, ks)
		c02wExplore(rep, scratch, p)
		if rep.Expired() {
			return
		}
	}
}

func c02WideReplay(rep *kit.Report, scratch string, c c02wCase) {
	if c.Volume != "" {
		if vio := c02WideVolume(scratch, c.Volume); vio != nil {
			rep.Violation(vio.kind, vio.key, vio.detail, vio.replay)
		}
		return
	}
	n := 1
	fmt.Sscanf(kit.Getenv("VERIF_C02_REPEAT", "1"), "%d", &n) // development aid: run the case n times in this process
	failed := 0
	for k := 0; k < n; k++ {
		e := c02wRunHistory(rep, vMkdir(scratch, "wreplay"), c, 0, k == 0)
		if e.vio != nil {
			failed++
			if failed == 1 {
				rep.Violation(e.vio.kind, e.vio.key, e.vio.detail, e.vio.replay)
			}
		}
	}
	if n > 1 {
		rep.Note("replayed %d times in one process: %d failing runs", n, failed)
		fmt.Fprintf(os.Stderr, "C02W-REPEAT %d runs, %d failing\n", n, failed)
	}
}

// ---- legal-configuration witnesses (by data volume) -------------------------------------------

// The segments-per-chunk limit has a setter (immutable.SetMaxSegmentLimit4TsStore) that nothing in the product calls:
// a deployed store always runs with 65535. The two volume cases cross that value with nothing but values the
// configuration file can take (max-rows-per-segment = 8, everything else default: compaction method auto, which picks
// the streaming compaction for chunks of more than 500 segments; full compaction as the entry point): one series
// with more than 65535 segments in the files of one compaction.
//
//	three-files: 40000 + 40000 + 100 segments of one series in three flushed files, full compaction
//	missing-column: 65535 segments (the last one half full) with fields f,s, then one more segment with f only
var c02wVolumeCases = []string{"three-files", "missing-column"}

func c02wVolumeKey(which string) string {
	return "wide[volume: max-rows-per-segment=8, everything else default] " + which + " FC"
}

func c02WideVolume(scratch, which string) *c02wViolation {
	c02wKnobs{}.apply() // rows per segment 8, every other knob at its default
	c02wInstallTap()
	cc := c02wCase{Wide: true, Volume: which}
	fail := func(kind, detail string) *c02wViolation {
		return &c02wViolation{"wide_stream_split_chunk", c02wVolumeKey(which), "symptom wide_" + kind + ": " + detail, cc}
	}
	c02wDirSeq++
	dir := vMkdir(scratch, fmt.Sprintf("volume%07d", c02wDirSeq))
	defer os.RemoveAll(dir)
	v, err := vOpenShard(dir)
	if err != nil {
		return &c02wViolation{"harness_open_error", c02wVolumeKey(which), err.Error(), cc}
	}
	defer v.Close()
	next := 1
	write := func(host, rows int, fields string) error {
		for rows > 0 {
			n := rows
			if n > 20000 {
				n = 20000
			}
			pts := make([]vPoint, 0, n)
			for k := 0; k < n; k++ {
				p := vPoint{vKey{c02wMst, c02wHosts[host], vT(next)}, map[string]vVal{}}
				for _, f := range fields {
					switch f {
					case 'f':
						p.V["f"] = vVal{Typ: influx.Field_Type_Float, F: float64(next)}
					case 's':
						p.V["s"] = vVal{Typ: influx.Field_Type_String, S: "x"}
					}
				}
				pts = append(pts, p)
				next++
			}
			if err := v.Write(pts); err != nil {
				return err
			}
			rows -= n
		}
		return nil
	}
	// rows of field f, in time order; every value must be the row's own time index
	count := func() (rows int, bad int, err error) {
		var opt query.ProcessorOptions
		opt.Name, opt.Dimensions, opt.Ascending, opt.FieldAux, opt.MaxParallel, opt.ChunkSize = c02wMst, []string{"host"}, true, vFields[:1], 1, 1000
		opt.StartTime, opt.EndTime = influxql.MinTime, influxql.MaxTime
		schema := genQuerySchema(vFields[:1], &opt)
		_, span := tracing.NewTrace("root")
		info, err := v.sh.CreateCursor(tracing.NewContextWithSpan(context.Background(), span), schema)
		if err != nil || info == nil {
			return 0, 0, err
		}
		defer info.Unref()
		for _, cur := range info.GetCursors() {
			if gc, ok := cur.(*groupCursor); ok {
				gc.preAgg = true
				SetNextMethod(cur)
			}
			lastT := int64(math.MinInt64)
			for {
				rec, _, err := cur.Next()
				if err != nil {
					_ = cur.Close()
					return rows, bad, err
				}
				if rec == nil {
					break
				}
				times := rec.Times()
				for r := 0; r < rec.RowNums(); r++ {
					rows++
					f, isNil := rec.Column(0).FloatValue(r)
					if isNil || int64(f) != (times[r]-vBase)/int64(time.Second) || times[r] <= lastT {
						bad++
					}
					lastT = times[r]
				}
			}
			_ = cur.Close()
		}
		return
	}
	total := 0
	var blocks []struct {
		rows   int
		fields string
	}
	switch which {
	case "three-files":
		for _, segs := range []int{40000, 40000, 100} {
			blocks = append(blocks, struct {
				rows   int
				fields string
			}{segs * 8, "f"})
		}
	case "missing-column":
		blocks = append(blocks, struct {
			rows   int
			fields string
		}{65535*8 - 4, "fs"}, struct {
			rows   int
			fields string
		}{8, "f"})
	default:
		return &c02wViolation{"harness_unknown_volume_case", c02wVolumeKey(which), which, cc}
	}
	for _, b := range blocks {
		if err := write(0, b.rows, b.fields); err != nil {
			return fail("op_error", err.Error())
		}
		v.Flush()
		total += b.rows
	}
	l0, _ := v.c02wLayout()
	r0, b0, err := count()
	if err != nil || r0 != total || b0 != 0 {
		return fail("lost_data", fmt.Sprintf("before the compaction: %d rows written, %d read, %d with a wrong value or out of order, err=%v (%d ordered files)", total, r0, b0, err, l0.NOrder))
	}
	ce0, _ := c02wErrCounters()
	c02wTap.take()
	err = v.FullCompact()
	ce1, _ := c02wErrCounters()
	logs := strings.Join(c02wTap.take(), " || ")
	if len(logs) > 1500 {
		logs = logs[:1500]
	}
	before := fmt.Sprintf("%d ordered files, at most %d segments in a chunk, %d segments of the series in all", l0.NOrder, l0.MaxSegs, l0.SeriesSegs)
	if err != nil || ce1 != ce0 || strings.Contains(logs, "Panic:") {
		kind := "reorg_error"
		if strings.Contains(logs, "Panic:") {
			kind = "reorg_panic"
		}
		return fail(kind, fmt.Sprintf("FC: err=%v, compaction errors +%d, error log: %s (before: %s)", err, ce1-ce0, logs, before))
	}
	l1, _ := v.c02wLayout()
	r1, b1, err := count()
	if err != nil || r1 != total || b1 != 0 {
		return fail("lost_data", fmt.Sprintf("after FC: %d rows written, %d read, %d with a wrong value or out of order, err=%v (before: %s; after: %d ordered files, at most %d segments in a chunk)",
			total, r1, b1, err, before, l1.NOrder, l1.MaxSegs))
	}
	if l1.Names == l0.Names {
		return &c02wViolation{"harness_volume_case_not_compacted", c02wVolumeKey(which), "the full compaction did not change the layout: " + before, cc}
	}
	return nil
}

// TestVerifC02WalSwitchRace is a demonstration, not part of the check (run the C02 test binary with
// -test.run TestVerifC02WalSwitchRace and VERIF_C02_WALRACE=<iterations>): WAL.Switch starts one goroutine per
// partition; each reports completion (errs.Dispatch) *before* it hands over the names of the files it switched away
// from (walFiles.Add), and Switch returns as soon as the last completion is reported. The caller (writeSnapshot)
// removes exactly the files it finds in the returned set, so a file handed over late is never removed and is replayed
// by the next open. The loop writes one record to every partition, switches, and counts the file names present at the
// moment Switch returns.
func TestVerifC02WalSwitchRace(t *testing.T) {
	n := 0
	fmt.Sscanf(kit.Getenv("VERIF_C02_WALRACE", "0"), "%d", &n)
	if n == 0 {
		t.Skip("demonstration only")
	}
	dir := t.TempDir()
	lock := ""
	const parts = 8
	w := NewWAL(dir, &lock, 1, 0, true, false, parts, 0)
	short, left := 0, 0
	for it := 0; it < n; it++ {
		for p := 0; p < parts; p++ {
			if err := w.Write([]byte("0123456789abcdef"), WriteWalLineProtocol, int64(it)); err != nil {
				t.Fatal(err)
			}
		}
		files, err := w.Switch()
		if err != nil {
			t.Fatal(err)
		}
		files.mu.Lock()
		got := len(files.files)
		files.mu.Unlock()
		if got < parts {
			short++
		}
		_ = RemoveWalFiles(files)
		time.Sleep(time.Millisecond) // let a late goroutine finish, then look at what the removal missed
		left = 0
		_ = filepath.Walk(dir, func(p string, info os.FileInfo, err error) error {
			if err == nil && !info.IsDir() && strings.HasSuffix(p, ".wal") {
				left++
			}
			return nil
		})
		if left > 0 {
			t.Logf("iteration %d: Switch returned %d of %d file names; %d WAL file(s) still on disk after the removal", it, got, parts, left)
			break
		}
	}
	t.Logf("WAL.Switch returned an incomplete file set in %d of %d iterations; stale files at the end: %d", short, n, left)
	_ = w.Close()
}
