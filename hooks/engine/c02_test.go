//go:build verif

package engine

import (
	"fmt"
	"os"
	"strings"
	"testing"

	kit "github.com/openGemini/openGemini/lib/verifkit"
)

type c02Case struct {
	Ops []string `json:"ops"`
}

// c02RunHistory runs ops on a fresh shard; checks all read shapes after every step.
// Returns the index of the first no-op step (or -1) so that the enumerator can prune.
// c02DirSeq: a directory of its own per execution (path-keyed process caches of the engine; see c09DirSeq)
var c02DirSeq int

func c02RunHistory(rep *kit.Report, dir string, ops []string, queries []vQuery, record bool) (noopAt int, failed bool) {
	noopAt = -1
	c02DirSeq++
	dir = fmt.Sprintf("%s-%d", dir, c02DirSeq)
	_ = os.RemoveAll(dir)
	v, err := vOpenShard(dir)
	if err != nil {
		rep.Violation("harness_open_error", strings.Join(ops, " "), err.Error(), c02Case{ops})
		return -1, true
	}
	defer func() {
		if err := v.Close(); err != nil {
			rep.Violation("close_error", strings.Join(ops, " "), err.Error(), c02Case{ops})
		}
		_ = os.RemoveAll(dir)
	}()
	m := vModel{}
	prevLayout := v.Layout()
	// Known defect of C01 seen through a clean reopen (KNOWN_FINDINGS: overwrite_reverted_to_older_acked_value_multi_partition_wal):
	// the WAL spreads records over its partitions with a counter that a flush does not reset, replay starts at partition 0;
	// after a flush, two or more unflushed writes to one key can be replayed in the wrong order. Classified, not hidden:
	// only a wrong value right after a reopen that replayed >= 2 writes acknowledged after a flush gets the kind below.
	flushedOnce, unflushedWrites, walOrderStep := false, 0, false
	for i, op := range ops {
		before := m.Digest()
		switch {
		case op == "F":
			flushedOnce, unflushedWrites = true, 0
		case op == "WB":
			unflushedWrites += 16
		case vWriteIndex(op) >= 0:
			unflushedWrites++
		}
		walOrderStep = op == "RO" && flushedOnce && unflushedWrites >= 2
		if op == "RO" {
			unflushedWrites = 0
		}
		if err := vApply(v, m, op, i+1); err != nil {
			rep.Violation("op_error", strings.Join(ops[:i+1], " "), fmt.Sprintf("op %s failed: %v", op, err), c02Case{ops[:i+1]})
			return -1, true
		}
		layout := v.Layout()
		if m.Digest() == before && layout == prevLayout {
			// no-op: same content, same layout => same futures; the shorter history is explored anyway
			return i, false
		}
		prevLayout = layout
		rep.Eval(1)
		rep.Count("steps", 1)
		if record {
			if rep.DistinctNontrivial(kit.Hash(m.Digest(), vLayoutShape(layout))) {
				rep.Count("states", 1)
				rep.Sample(8, map[string]any{"history": strings.Join(ops[:i+1], " "), "layout": vLayoutShape(layout)})
			}
		}
		for _, q := range queries {
			got, shapeErrs, err := v.Dump(q)
			rep.Count("reads", 1)
			if err != nil {
				rep.Violation("read_error", strings.Join(ops[:i+1], " "), fmt.Sprintf("%v: %v", q, err), c02Case{ops[:i+1]})
				return -1, true
			}
			diffs := m.Compare(q, got)
			if len(shapeErrs) > 0 {
				rep.Violation("stream_shape", strings.Join(ops[:i+1], " "), fmt.Sprintf("%v: %s (layout %s)", q, strings.Join(shapeErrs, "; "), layout), c02Case{ops[:i+1]})
				return -1, true
			}
			if len(diffs) > 0 {
				kind := c02Classify(diffs)
				if walOrderStep && kind == "wrong_value" {
					kind = "reopen_replays_unflushed_writes_in_wrong_order"
				}
				rep.Violation(kind, strings.Join(ops[:i+1], " "), fmt.Sprintf("%v: %s (layout %s)", q, strings.Join(diffs, "; "), layout), c02Case{ops[:i+1]})
				return -1, true
			}
		}
	}
	return -1, false
}

func c02Classify(diffs []string) string {
	all := strings.Join(diffs, ";")
	switch {
	case strings.Contains(all, "missing row") || strings.Contains(all, "missing ("):
		return "lost_data"
	case strings.Contains(all, "unexpected row") || strings.Contains(all, "unexpected field"):
		return "invented_data"
	default:
		return "wrong_value"
	}
}

func TestVerifC02(t *testing.T) {
	rep := kit.NewReport("C02")
	defer rep.Save()
	vSetupEngineKnobs()
	queries := vQueries(kit.Thorough())
	scratch := kit.Scratch()
	if kit.ReplayPath() != "" {
		var wc c02wCase
		if err := kit.LoadReplay(&wc); err == nil && wc.Wide {
			c02WideReplay(rep, scratch, wc)
			return
		}
		var c c02Case
		if err := kit.LoadReplay(&c); err != nil {
			t.Fatal(err)
		}
		c02RunHistory(rep, vMkdir(scratch, "replay"), c.Ops, queries, true)
		return
	}
	if c02StageWanted("narrow") {
		c02NarrowStage(rep, scratch, queries)
	}
	if c02StageWanted("wide") && !rep.Expired() {
		vSetupEngineKnobs()
		c02WideStage(rep, scratch)
	}
}

func c02NarrowStage(rep *kit.Report, scratch string, queries []vQuery) {
	ops := vAllOps()
	depth := 3
	if kit.Thorough() {
		depth = 5
	}
	if d := kit.Getenv("VERIF_DEPTH", ""); d != "" {
		fmt.Sscanf(d, "%d", &depth)
	}
	rep.Note("alphabet=%v depth=%d queries_per_step=%d", ops, depth, len(queries))
	if kit.Thorough() && kit.Getenv("VERIF_DEPTH", "") == "" {
		// complete to depth 4 over the full alphabet, then depth 5 and 6 over a reduced alphabet (overwrites, late
		// data, two series, burst, flush, merge, compaction, reopen)
		c02Explore(rep, scratch, ops, 4, queries, nil)
		reduced := []string{"Wa", "Wc", "Wd", "We", "WB", "F", "MO", "LC", "RO"}
		rep.Note("reduced alphabet for depth 5/6: %v", reduced)
		c02Explore(rep, scratch, reduced, 5, queries, nil)
		c02Explore(rep, scratch, []string{"Wc", "Wd", "F", "MO", "LC", "RO"}, 6, queries, nil)
		return
	}
	c02Explore(rep, scratch, ops, depth, queries, nil)
}

// c02NarrowStage / c02WideStage are selected by VERIF_C02_STAGE (narrow | wide | unset = both); the wide stage runs
// with the share of the deadline the narrow stage left (both stop at the deadline with exhaustive:false).
// share of the internal deadline the narrow stage may use when both stages run
const c02NarrowShare = 0.5

func c02StageWanted(name string) bool {
	s := kit.Getenv("VERIF_C02_STAGE", "")
	return s == "" || s == name
}

// c02Explore enumerates every op sequence of length depth (prefix-closed oracle), pruning after a
// no-op step. Level-2 subtrees are dealt to the workers. allow(seq) optionally restricts sequences.
func c02Explore(rep *kit.Report, scratch string, ops []string, depth int, queries []vQuery, allow func([]int) bool) {
	n := len(ops)
	seq := make([]int, depth)
	dir := vMkdir(scratch, "sh")
	names := make([]string, depth)
	for {
		sub := 0
		for i := 0; i < depth && i < 2; i++ {
			sub = sub*n + seq[i]
		}
		bump := depth - 1
		if kit.Mine(sub) && (allow == nil || allow(seq)) {
			if rep.Expired() {
				return
			}
			if d := rep.DeadlineSeconds(); d > 0 && c02StageWanted("wide") && rep.RealSeconds() > c02NarrowShare*float64(d) {
				// the wide stage gets the rest of the deadline
				rep.Cut("narrow stage stopped at its share of the deadline")
				return
			}
			for i, o := range seq {
				names[i] = ops[o]
			}
			rep.Count("histories", 1)
			var noopAt int
			var failed bool
			rep.RunConfirmed(func() { noopAt, failed = c02RunHistory(rep, dir, names, queries, true) })
			if failed {
				// re-run for determinism (DESIGN 2.1): a failure that does not repeat is a harness bug
				rep.Count("failed_histories", 1)
			}
			if noopAt >= 0 {
				rep.Count("noop_pruned", 1)
				bump = noopAt
			}
		}
		// increment position `bump`, reset the later ones
		i := bump
		for ; i >= 0; i-- {
			seq[i]++
			if seq[i] < n {
				break
			}
			seq[i] = 0
		}
		if i < 0 {
			return
		}
		for j := i + 1; j < depth; j++ {
			seq[j] = 0
		}
	}
}
