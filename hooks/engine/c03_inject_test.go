//go:build verif

package engine

// C03, second family of input layouts: INJECTED LEVEL LAYOUTS.
//
// The prefix histories of c03_test.go build their inputs by write/flush only, so every ordered file list they reach has
// its files at level 0. The planners of the reorganisations, however, decide by the LEVELS of the files in the ordered
// list (level compaction groups adjacent files of one level, the pre-full-compaction pass lifts runs of files below the
// configured level, full compaction takes what is left), and in production a list with any order of levels can be left
// behind (a group skipped because one of its files was owned by a running merge while younger files were compacted).
//
// An injected layout = a level vector (l_1 .. l_n). n ordered files are written by the product itself (n write batches
// with increasing times, each followed by a flush: file k holds the k-th time slice of every series), the shard is
// closed, the level part of each file name is set to l_k (the level of a data file exists only in its name; the product's
// own RenameFileToLevel lifts a file the same way), and the shard is re-opened with the real loader. Then one
// reorganisation runs under one configuration of [data.parquet-task] tssp-to-parquet-level, complete and under the crash
// recorder, exactly as for the other family.

import (
	"fmt"
	"os"
	"path/filepath"
	"regexp"
	"sort"
	"strings"
	"time"

	"github.com/openGemini/openGemini/engine/immutable"
	"github.com/openGemini/openGemini/lib/config"
	"github.com/openGemini/openGemini/lib/cpu"
	kit "github.com/openGemini/openGemini/lib/verifkit"
	"github.com/openGemini/openGemini/lib/verifkit/crashfs"
)

// reorganisations of the injected family: LC = level compaction of every level of the rule once; FC = full compaction
// rounds until a round changes nothing; PF = ONE full-compaction round under a parquet level > 0, i.e. only the
// pre-full pass (buildFullCompactPlan(n, preLevel)) when it has something to do.
var c03InjReorgs = []string{"LC", "FC", "PF"}

// c03InjSlice is the content of the k-th file (k from 0): a disjoint, later time slice of every series than file k-1;
// sparse columns, a schema difference between even and odd files, two series.
func c03InjSlice(k int) []vPoint {
	id := (k + 1) * 10
	t := 4 * k
	a1 := map[string]vVal{"f": vFloat(id + 1), "s": vStr(id + 1)}
	if k%2 == 0 {
		a1["i"] = vInt(id + 1)
	}
	return []vPoint{
		{vKey{"m", "a", vT(t + 1)}, a1},
		{vKey{"m", "a", vT(t + 2)}, map[string]vVal{"f": vFloat(id + 2)}},
		{vKey{"m", "b", vT(t + 2)}, map[string]vVal{"i": vInt(id + 3), "s": vStr(id + 3)}},
		{vKey{"m", "b", vT(t + 4)}, map[string]vVal{"f": vFloat(id + 4)}},
	}
}

// ---- walk of the ordered files in list order ---------------------------------------------------------------------

type c03Walk struct {
	Files  []string            // names in list order, per measurement prefixed by the measurement
	Rows   map[string][]string // "<mst>/<sid>" -> rows in the order (file list order, stored order inside the file)
	Times  map[string][]int64
	Sorted bool // sort.IsSorted of every ordered list
}

func c03WalkShard(v *vShard) (*c03Walk, error) {
	w := &c03Walk{Rows: map[string][]string{}, Times: map[string][]int64{}, Sorted: true}
	for _, mst := range vMsts {
		files, sorted, err := immutable.VerifC03WalkOrdered(v.tables(), mst)
		if err != nil {
			return nil, err
		}
		if !sorted {
			w.Sorted = false
		}
		for _, f := range files {
			w.Files = append(w.Files, mst+":"+f.Name)
			for _, sid := range f.Series {
				k := fmt.Sprintf("%s/%d", mst, sid)
				w.Rows[k] = append(w.Rows[k], f.Rows[sid]...)
				w.Times[k] = append(w.Times[k], f.Times[sid]...)
			}
		}
	}
	return w, nil
}

// Problems: what a reader that visits the ordered files in list order would see go wrong.
func (w *c03Walk) Problems() []string {
	var out []string
	if !w.Sorted {
		out = append(out, "the ordered file list is not sorted by (sequence, extent)")
	}
	keys := make([]string, 0, len(w.Times))
	for k := range w.Times {
		keys = append(keys, k)
	}
	sort.Strings(keys)
	for _, k := range keys {
		ts := w.Times[k]
		for i := 1; i < len(ts); i++ {
			if ts[i] <= ts[i-1] {
				out = append(out, fmt.Sprintf("series %s: walking the ordered files %v in list order, row %d (t%d) follows t%d",
					k, w.Files, i, (ts[i]-vBase)/1e9, (ts[i-1]-vBase)/1e9))
				break
			}
		}
	}
	return out
}

// Diff: rows (with all values) of every series in walk order, compared with the walk before the reorganisation.
func (w *c03Walk) Diff(before *c03Walk) []string {
	var out []string
	for k, exp := range before.Rows {
		got := w.Rows[k]
		if len(got) != len(exp) {
			out = append(out, fmt.Sprintf("series %s: %d rows in the ordered files, %d before", k, len(got), len(exp)))
			continue
		}
		for i := range exp {
			if exp[i] != got[i] {
				out = append(out, fmt.Sprintf("series %s: row %d in walk order was {%s} and now is {%s}", k, i, exp[i], got[i]))
				break
			}
		}
	}
	for k := range w.Rows {
		if _, ok := before.Rows[k]; !ok {
			out = append(out, fmt.Sprintf("series %s appeared in the ordered files", k))
		}
	}
	sort.Strings(out)
	return out
}

// c03WalkRef: walk before the reorganisation of the injected case being explored (nil for the other family); the
// recovery oracle compares the walk of every recovered image with it.
var c03WalkRef *c03Walk

func c03CheckWalkAfterRecovery(v *vShard) (kind string, detail string) {
	if c03WalkRef == nil {
		return "", ""
	}
	w, err := c03WalkShard(v)
	if err != nil {
		return "recovery_read_error", "walk of the ordered files: " + err.Error()
	}
	if p := w.Problems(); len(p) > 0 {
		return "ordered_files_not_time_ordered_after_crash_in_reorg", strings.Join(p, "; ")
	}
	if d := w.Diff(c03WalkRef); len(d) > 0 {
		return "ordered_files_content_changed_after_crash_in_reorg", strings.Join(d, "; ")
	}
	return "", ""
}

// ---- building an injected layout -----------------------------------------------------------------------------------

// c03InjRoot: a directory for the shard whose data files lie deeper than 11 path components. markParquetTaskDone (called
// after every task of a full compaction when the parquet level is set) derives an output directory from a production
// path of 10 or 11 components and indexes into the 7th without a length check; other depths make it return an error that
// is logged. The conversion to parquet is outside this property.
func c03InjRoot(scratch string, seq int) string {
	d := filepath.Join(scratch, fmt.Sprintf("inj%d", seq))
	_ = os.RemoveAll(d)
	p := d
	for len(strings.Split(strings.Trim(p, "/"), "/")) < 9 {
		p = filepath.Join(p, "p")
	}
	_ = os.MkdirAll(p, 0o755)
	return p
}

func c03InjDataFiles(work string) ([]string, error) {
	var files []string
	err := filepath.Walk(filepath.Join(work, "data"), func(p string, info os.FileInfo, err error) error {
		if err != nil {
			return err
		}
		if !info.IsDir() && strings.HasSuffix(p, ".tssp") {
			files = append(files, p)
		}
		return nil
	})
	sort.Strings(files)
	return files, err
}

// c03InjBuild leaves an open shard whose measurement m has len(levels) ordered files with the given levels.
func c03InjBuild(work string, levels []int, m vModel) (*vShard, error) {
	v, err := vOpenShard(work)
	if err != nil {
		return nil, err
	}
	for k := range levels {
		pts := c03InjSlice(k)
		if err := v.Write(pts); err != nil {
			_ = v.Close()
			return nil, fmt.Errorf("write of slice %d: %v", k, err)
		}
		m.ApplyBatch(pts)
		v.Flush()
	}
	if err := v.Close(); err != nil {
		return nil, err
	}
	files, err := c03InjDataFiles(work)
	if err != nil {
		return nil, err
	}
	if len(files) != len(levels) {
		return nil, fmt.Errorf("expected %d flushed files, found %v", len(levels), files)
	}
	for k, p := range files {
		base := filepath.Base(p)
		parts := strings.Split(strings.TrimSuffix(base, ".tssp"), "-")
		if len(parts) != 3 || strings.Contains(p, "out-of-order") || parts[1] != "0000" {
			return nil, fmt.Errorf("unexpected flushed file %s", p)
		}
		if levels[k] == 0 {
			continue
		}
		parts[1] = fmt.Sprintf("%04x", levels[k])
		if err := os.Rename(p, filepath.Join(filepath.Dir(p), strings.Join(parts, "-")+".tssp")); err != nil {
			return nil, err
		}
	}
	return vOpenShard(work)
}

// ---- one case ------------------------------------------------------------------------------------------------------

func c03InjApply(v *vShard, reorg string) error {
	switch reorg {
	case "LC":
		return v.LevelCompact()
	case "PF":
		return v.FullCompact()
	case "FC":
		for round := 0; round < 16; round++ {
			before := v.Layout()
			if err := v.FullCompact(); err != nil {
				return err
			}
			if v.Layout() == before {
				return nil
			}
		}
		return fmt.Errorf("full compaction still changes the layout after 16 rounds")
	}
	return fmt.Errorf("unknown reorganisation %q", reorg)
}

var c03InjSeenCrash = map[uint64]bool{}

var c03RandomName = regexp.MustCompile(`[0-9a-f]{16}-[0-9a-f]{16}`)

var c03InjCrash = true // crash enumeration of the injected cases (switched off by VERIF_C03_INJECT_CRASH=0)

// c03InjCrashPass: second pass over the short vectors, with the crash recorder (see c03InjectedFamily)
var c03InjCrashPass = false

// c03RunInjected returns false if the reorganisation left the layout unchanged.
// c03InjTemplate: the built input of one level vector (closed shard tree + its model), restored for every
// (parquet level, reorganisation) of that vector instead of being written again.
type c03InjTemplate struct {
	dir string
	m   vModel
}

func c03RunInjected(rep *kit.Report, scratch string, c c03Case, tmpl *c03InjTemplate) bool {
	cpu.SetCpuNum(2, 1)
	sc := config.GetStoreConfig()
	oldLevel := sc.ParquetTask.TSSPToParquetLevel
	sc.ParquetTask.TSSPToParquetLevel = uint16(c.Parquet)
	defer func() { sc.ParquetTask.TSSPToParquetLevel = oldLevel }()
	c03DirSeq++
	work := c03InjRoot(scratch, c03DirSeq)
	root := work + "/"
	imgRoot := vMkdir(scratch, "img")
	defer func() {
		c03WalkRef = nil
		_ = os.RemoveAll(filepath.Join(scratch, fmt.Sprintf("inj%d", c03DirSeq)))
		_ = os.RemoveAll(imgRoot)
	}()
	m := vModel{}
	t0 := time.Now()
	var v *vShard
	var err error
	if tmpl != nil {
		m = tmpl.m.Clone()
		_ = os.RemoveAll(work)
		if _, err = crashfs.CopyTree(tmpl.dir, work); err == nil {
			v, err = vOpenShard(work)
		}
	} else {
		v, err = c03InjBuild(work, c.Levels, m)
	}
	rep.Count("ns_inject_build", int64(time.Since(t0)))
	if err != nil {
		rep.Violation("harness_build_error", c.key(), err.Error(), c)
		return false
	}
	defer func() { _ = v.Close() }()
	got, err := vFullDump(v)
	if err != nil {
		rep.Violation("read_error", c.key(), "before the reorganisation: "+err.Error(), c)
		return false
	}
	if diffs := vCompareFull(m, got); len(diffs) > 0 {
		rep.Violation("live_mismatch_before_reorg", c.key(), strings.Join(diffs, "; "), c)
		return false
	}
	before, err := c03WalkShard(v)
	if err != nil {
		rep.Violation("read_error", c.key(), "walk before the reorganisation: "+err.Error(), c)
		return false
	}
	// the input must be what the case says: levels as injected, every series in time order over the list
	var lv []string
	for _, f := range before.Files {
		lv = append(lv, strings.TrimLeft(strings.Split(f, "-")[1], "0"))
	}
	var want []string
	for _, l := range c.Levels {
		want = append(want, strings.TrimLeft(fmt.Sprintf("%04x", l), "0"))
	}
	if strings.Join(lv, ",") != strings.Join(want, ",") || len(before.Problems()) > 0 {
		rep.Violation("harness_build_error", c.key(), fmt.Sprintf("loaded files %v, problems %v", before.Files, before.Problems()), c)
		return false
	}
	layoutBefore := v.Layout()
	rec := &vRecorder{root: root, imgRoot: imgRoot, seen: map[string]bool{}}
	if (c03InjCrash || kit.ReplayPath() != "") && os.Getenv("VERIF_C03_INJECT_CRASH") != "0" {
		vRec = rec
		rec.on, rec.inFlight = true, true
	}
	t0 = time.Now()
	panics0, _ := immutable.VerifC03CompactPanics()
	err = c03InjApply(v, c.Reorg)
	rep.Count("ns_inject_reorg", int64(time.Since(t0)))
	rec.on = false
	vRec = nil
	if n, msg := immutable.VerifC03CompactPanics(); n > panics0 {
		// the product's own assertions fired inside a compaction task (recovered by compact-recovery, which leaves the
		// old files in place): not a no-op, a defect
		rep.Eval(1)
		rep.Count("cases", 1)
		rep.Violation("compaction_task_panicked", c.key(), msg, c)
		return true
	}
	if err != nil {
		rep.Violation("op_error", c.key(), fmt.Sprintf("reorg %s: %v", c.Reorg, err), c)
		return false
	}
	layoutAfter := v.Layout()
	if layoutAfter == layoutBefore {
		if !c03InjCrashPass {
			rep.Count("inject_reorg_not_applicable", 1)
		}
		return false
	}
	if !c03InjCrashPass { // the crash pass repeats the complete run of a case of the first pass: counted once
		rep.Count("cases", 1)
		rep.Count("inject_cases", 1)
		rep.Count("inject_cases_"+c.Reorg, 1)
		rep.Eval(1)
		rep.DistinctNontrivial(kit.Hash(c.key(), "complete"))
	}
	rep.Count("mutations", int64(rec.nMut))
	rep.Count("torn_points", int64(rec.nTorn))
	// (a) run to completion: same answers, same rows in the same order when the ordered files are walked in list order
	shapes := fmt.Sprintf("%s -> %s", vLayoutShape(layoutBefore), vLayoutShape(layoutAfter))
	after, err := c03WalkShard(v)
	if err != nil {
		rep.Violation("read_error", c.key(), "walk after the reorganisation: "+err.Error(), c)
		return true
	}
	if p := after.Problems(); len(p) > 0 {
		rep.Violation("ordered_files_not_time_ordered_after_reorg", c.key(), shapes+": "+strings.Join(p, "; "), c)
		return true
	}
	if d := after.Diff(before); len(d) > 0 {
		rep.Violation("ordered_files_content_changed_by_reorg", c.key(), shapes+": "+strings.Join(d, "; "), c)
		return true
	}
	got, err = vFullDump(v)
	if err != nil {
		kind := "read_error"
		if strings.Contains(err.Error(), "stream shape") {
			kind = "duplicate_or_unsorted_rows_after_reorg"
		}
		rep.Violation(kind, c.key(), shapes+": "+err.Error(), c)
		return true
	}
	if diffs := vCompareFull(m, got); len(diffs) > 0 {
		rep.Violation("reorg_changed_answer", c.key(), shapes+": "+strings.Join(diffs, "; "), c)
		return true
	}
	rep.Sample(12, map[string]any{"levels": c.Levels, "parquet_level": c.Parquet, "reorg": c.Reorg, "from": vLayoutShape(layoutBefore),
		"to": vLayoutShape(layoutAfter), "files_after": after.Files, "crash_images": len(rec.images)})
	_ = v.Close()
	if rec.err != nil {
		rep.Violation("harness_freeze_error", c.key(), rec.err.Error(), c)
		return true
	}
	// (b) every crash image of the reorganisation. The same level vector with the same sequence of file-system steps
	// (level compaction does not read the parquet level; FC and PF coincide when one round is all there is) has the
	// same images and the recovery pass does not read the parquet level: explored once per worker (all cases of a
	// vector run in the same worker).
	if len(rec.images) == 0 {
		return true
	}
	sig := []string{fmt.Sprint(c.Levels)}
	for _, im := range rec.images {
		// the name of an intent log is random, its length depends on the length of the scratch path
		sig = append(sig, fmt.Sprintf("%d %s %s %v", im.Seq, im.Kind, c03RandomName.ReplaceAllString(im.File, "<log>"), im.Torn != ""))
	}
	if h := kit.Hash(sig...); c03InjSeenCrash[h] && kit.ReplayPath() == "" {
		rep.Count("inject_crash_enumerations_equivalent_skipped", 1)
		return true
	} else {
		c03InjSeenCrash[h] = true
	}
	rep.Count("inject_crash_enumerations", 1)
	c03WalkRef = before
	for _, im := range rec.images {
		if rep.Expired() {
			return true
		}
		c03Recover(rep, c, im, m, work, 1)
	}
	return true
}

// c03InjectedFamily enumerates every level vector up to the length bound x parquet level x reorganisation.
//
// Two passes, so that a deadline on a loaded machine cuts the most expensive part last: pass "complete" runs every case
// to completion without the recorder (cheap, all vectors); pass "crash" (called after the prefix-history family) runs the
// cases of the vectors up to the crash length bound again under the recorder and explores every crash image.
func c03InjectedFamily(rep *kit.Report, scratch string, idx *int, crashPass bool) {
	maxLen, crashLen, depth2Len := 4, 3, 0
	if kit.Thorough() {
		maxLen, crashLen, depth2Len = 5, 4, 2
	}
	if os.Getenv("VERIF_C03_INJECT_CRASH") == "0" {
		crashLen = 0
	}
	c03InjCrashPass = crashPass
	defer func() { c03InjCrashPass = false }()
	if crashPass {
		maxLen = crashLen
	}
	levelsAlphabet := []int{0, 1, 2}
	parquet := []int{0, 1, 2}
	if !crashPass {
		rep.Note("injected level layouts: level vectors of length 1..%d over %v x parquet level %v x reorganisations %v (PF only with a parquet level > 0); crash images for length <= %d, of the recovery pass for length <= %d",
			maxLen, levelsAlphabet, parquet, c03InjReorgs, crashLen, depth2Len)
	}
	for l := 1; l <= maxLen; l++ {
		kit.Sequences(len(levelsAlphabet), l, func(seq []int) bool {
			levels := make([]int, l)
			for i, s := range seq {
				levels[i] = levelsAlphabet[s]
			}
			mine := kit.Mine(*idx) // all cases of one vector in one worker (see the crash-image deduplication)
			*idx++
			if !mine {
				return true
			}
			// the input of this vector is written once and restored for each of its cases
			c03DirSeq++
			tdir := c03InjRoot(scratch, c03DirSeq)
			tmpl := &c03InjTemplate{dir: filepath.Join(scratch, fmt.Sprintf("tmpl%d", c03DirSeq)), m: vModel{}}
			_ = os.RemoveAll(tmpl.dir)
			tv, err := c03InjBuild(tdir, levels, tmpl.m)
			if err == nil {
				if err = tv.Close(); err == nil {
					_, err = crashfs.CopyTree(tdir, tmpl.dir)
				}
			}
			_ = os.RemoveAll(filepath.Join(scratch, fmt.Sprintf("inj%d", c03DirSeq)))
			if err != nil {
				rep.Violation("harness_build_error", fmt.Sprintf("injected levels %v", levels), err.Error(), c03Case{Levels: levels, Inject: true, Reorg: "LC"})
				return true
			}
			defer os.RemoveAll(tmpl.dir)
			for _, p := range parquet {
				for _, r := range c03InjReorgs {
					if r == "PF" && p == 0 {
						continue // without a parquet level there is no pre-full pass: one round is FC
					}
					if rep.Expired() {
						return false
					}
					if crashPass && r == "PF" {
						// the file-system steps of PF are the first round of FC under the same parquet level: its crash
						// images are among those of FC (same states, same oracle), which is enumerated for every vector
						continue
					}
					c := c03Case{Levels: append([]int(nil), levels...), Parquet: p, Reorg: r, Inject: true, Depth2: crashPass && l <= depth2Len}
					c03InjCrash = crashPass
					if !crashPass {
						rep.Count("inject_cases_tried", 1)
					}
					rep.RunConfirmed(func() { c03RunInjected(rep, scratch, c, tmpl) })
				}
			}
			return true
		})
	}
}
