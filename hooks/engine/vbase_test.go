//go:build verif

package engine

// Shared base of the engine-level checks (C01 C02 C03 C04 C09 C13): the small universe of
// DESIGN.md §3, the write menu, open/reopen/close of a real shard, the logical dump through
// shard.CreateCursor, and the last-write-wins reference model.

import (
	"context"
	"fmt"
	"math"
	"os"
	"path/filepath"
	"sort"
	"strings"
	"time"

	"github.com/openGemini/openGemini/engine/comm"
	"github.com/openGemini/openGemini/engine/immutable"
	"github.com/openGemini/openGemini/engine/index/tsi"
	"github.com/openGemini/openGemini/lib/config"
	"github.com/openGemini/openGemini/lib/index"
	"github.com/openGemini/openGemini/lib/record"
	"github.com/openGemini/openGemini/lib/tracing"
	"github.com/openGemini/openGemini/lib/util"
	"github.com/openGemini/openGemini/lib/util/lifted/influx/influxql"
	"github.com/openGemini/openGemini/lib/util/lifted/influx/meta"
	"github.com/openGemini/openGemini/lib/util/lifted/influx/query"
	"github.com/openGemini/openGemini/lib/util/lifted/vm/protoparser/influx"
)

// ---- universe -------------------------------------------------------------------------------

const vBase = int64(1700000000) * int64(time.Second)

// four timestamps, 1 s apart
func vT(i int) int64 { return vBase + int64(i)*int64(time.Second) }

var vMsts = []string{"m", "m2"}
var vHosts = []string{"a", "b"}
var vFields = []influxql.VarRef{
	{Val: "f", Type: influxql.Float},
	{Val: "i", Type: influxql.Integer},
	{Val: "s", Type: influxql.String},
}

type vKey struct {
	Mst  string
	Host string
	T    int64
}

func (k vKey) String() string {
	return fmt.Sprintf("%s,host=%s@t%d", k.Mst, k.Host, (k.T-vBase)/int64(time.Second))
}

// vVal is a typed field value; values are derived from the id of the write that produced them.
type vVal struct {
	Typ int32 // influx.Field_Type_*
	F   float64
	I   int64
	S   string
}

func (v vVal) String() string {
	switch v.Typ {
	case influx.Field_Type_Float:
		return fmt.Sprintf("%g", v.F)
	case influx.Field_Type_Int:
		return fmt.Sprintf("%di", v.I)
	default:
		return fmt.Sprintf("%q", v.S)
	}
}

func vFloat(id int) vVal { return vVal{Typ: influx.Field_Type_Float, F: float64(id) + 0.5} }
func vInt(id int) vVal   { return vVal{Typ: influx.Field_Type_Int, I: int64(id)} }
func vStr(id int) vVal   { return vVal{Typ: influx.Field_Type_String, S: fmt.Sprintf("w%d", id)} }

// vPoint is one row of a write batch.
type vPoint struct {
	K vKey
	V map[string]vVal
}

func vRow(p vPoint) influx.Row {
	r := influx.Row{Name: p.K.Mst, Timestamp: p.K.T}
	names := make([]string, 0, len(p.V))
	for n := range p.V {
		names = append(names, n)
	}
	sort.Strings(names)
	for _, n := range names {
		v := p.V[n]
		f := influx.Field{Key: n, Type: v.Typ}
		switch v.Typ {
		case influx.Field_Type_Float:
			f.NumValue = v.F
		case influx.Field_Type_Int:
			f.NumValue = float64(v.I)
		case influx.Field_Type_String:
			f.StrValue = v.S
		}
		r.Fields = append(r.Fields, f)
	}
	r.Tags = influx.PointTags{{Key: "host", Value: p.K.Host}}
	r.UnmarshalIndexKeys(nil)
	r.UnmarshalShardKeyByTag(nil)
	return r
}

// ---- write menu ------------------------------------------------------------------------------

// vWriteMenu: name -> batch generator (id = 1-based id of the write in its history, so that every
// written value names the write it came from; a batch that writes one key twice uses id*100+k).
var vWriteMenu = []struct {
	Name string
	Gen  func(id int) []vPoint
}{
	{"Wa", func(id int) []vPoint { // s1@t2 {f}
		return []vPoint{{vKey{"m", "a", vT(2)}, map[string]vVal{"f": vFloat(id)}}}
	}},
	{"Wb", func(id int) []vPoint { // s1@t2 {i}: partial fields, same row
		return []vPoint{{vKey{"m", "a", vT(2)}, map[string]vVal{"i": vInt(id)}}}
	}},
	{"Wc", func(id int) []vPoint { // s1@t2 full row
		return []vPoint{{vKey{"m", "a", vT(2)}, map[string]vVal{"f": vFloat(id), "i": vInt(id), "s": vStr(id)}}}
	}},
	{"Wd", func(id int) []vPoint { // s1@t1 {f,i}: late / out of order once t2 is flushed
		return []vPoint{{vKey{"m", "a", vT(1)}, map[string]vVal{"f": vFloat(id), "i": vInt(id)}}}
	}},
	{"We", func(id int) []vPoint { // s1@t3, s2@t3 {f,s}
		return []vPoint{
			{vKey{"m", "a", vT(3)}, map[string]vVal{"f": vFloat(id), "s": vStr(id)}},
			{vKey{"m", "b", vT(3)}, map[string]vVal{"f": vFloat(id), "s": vStr(id)}},
		}
	}},
	{"Wf", func(id int) []vPoint { // the same (series,time) twice in one batch
		return []vPoint{
			{vKey{"m", "a", vT(2)}, map[string]vVal{"f": vFloat(id*100 + 1)}},
			{vKey{"m", "a", vT(2)}, map[string]vVal{"f": vFloat(id*100 + 2), "i": vInt(id*100 + 2)}},
		}
	}},
	{"Wg", func(id int) []vPoint { // second measurement
		return []vPoint{{vKey{"m2", "a", vT(2)}, map[string]vVal{"f": vFloat(id)}}}
	}},
	{"Wh", func(id int) []vPoint { // descending times inside one batch, touches t4 and t1, second series
		return []vPoint{
			{vKey{"m", "b", vT(4)}, map[string]vVal{"i": vInt(id)}},
			{vKey{"m", "b", vT(1)}, map[string]vVal{"i": vInt(id), "s": vStr(id)}},
		}
	}},
}

func vWriteIndex(name string) int {
	for i := range vWriteMenu {
		if vWriteMenu[i].Name == name {
			return i
		}
	}
	return -1
}

// ---- reference model -------------------------------------------------------------------------

// vModel: (series,time) -> field -> candidate values. One candidate normally; several only while a
// batch wrote the key more than once and no read has pinned the survivor yet (DESIGN.md §3a).
type vModel map[vKey]map[string][]vVal

func (m vModel) Clone() vModel {
	c := make(vModel, len(m))
	for k, fs := range m {
		cf := make(map[string][]vVal, len(fs))
		for n, vs := range fs {
			cf[n] = append([]vVal(nil), vs...)
		}
		c[k] = cf
	}
	return c
}

// ApplyBatch applies one acknowledged write batch.
func (m vModel) ApplyBatch(pts []vPoint) {
	seen := map[vKey]map[string]bool{}
	for _, p := range pts {
		fs := m[p.K]
		if fs == nil {
			fs = map[string][]vVal{}
			m[p.K] = fs
		}
		if seen[p.K] == nil {
			seen[p.K] = map[string]bool{}
		}
		for n, v := range p.V {
			if seen[p.K][n] {
				fs[n] = append(fs[n], v) // same key and field twice in this batch: either may survive
			} else {
				fs[n] = []vVal{v}
				seen[p.K][n] = true
			}
		}
	}
}

func (m vModel) DropMeasurement(mst string) {
	for k := range m {
		if k.Mst == mst {
			delete(m, k)
		}
	}
}

// ---- shard life cycle ------------------------------------------------------------------------

type vShard struct {
	dir string
	sh  *shard
}

var vIndexSeq uint64

// vWalSyncInline: see vOpenShard.
var vWalSyncInline bool

// vClock emulates the cluster's logical clock: the meta service hands a store a larger clock on every
// (re)start (app/ts-store/run/server.go), which is what keeps series ids unique across restarts.
var vClock uint64

// vOpenShard opens (or re-opens) the shard rooted at dir with the real index builder and the real
// recovery path (OpenAndEnable: compaction-log recovery, WAL replay). The shard is taken out of the
// package-global compaction worker and its time-based auto flush is disabled so that the only
// reorganisations are the ones the history asks for (they are legal behaviours either way; this is
// for determinism of replays only).
func vOpenShard(dir string) (*vShard, error) {
	dataPath := dir + "/data"
	walPath := dir + "/wal"
	lockPath := filepath.Join(dataPath, "LOCK")
	indexPath := filepath.Join(dir, defaultDb, "/index/data")
	ident := &meta.IndexIdentifier{OwnerDb: defaultDb, OwnerPt: defaultPtId, Policy: defaultRp}
	ident.Index = &meta.IndexDescriptor{IndexID: 1, IndexGroupID: 2, TimeRange: meta.TimeRangeInfo{}}
	vIndexSeq = 1 << 20 // constant: series ids must not depend on the clock (replayable executions)
	vClock++
	opts := new(tsi.Options).
		Ident(ident).
		Path(indexPath).
		IndexType(index.MergeSet).
		EngineType(config.TSSTORE).
		StartTime(time.Unix(0, 0)).
		EndTime(time.Unix(0, 0).Add(200 * 365 * 24 * time.Hour)).
		Duration(time.Hour).
		LogicalClock(vClock).
		SequenceId(&vIndexSeq).
		Lock(&lockPath)
	indexBuilder := tsi.NewIndexBuilder(opts)
	primaryIndex, err := tsi.NewIndex(opts)
	if err != nil {
		return nil, err
	}
	primaryIndex.SetIndexBuilder(indexBuilder)
	indexRelation, _ := tsi.NewIndexRelation(opts, primaryIndex, indexBuilder)
	indexBuilder.Relations[uint32(index.MergeSet)] = indexRelation
	if err = indexBuilder.Open(); err != nil {
		return nil, err
	}
	shardDuration := &meta.DurationDescriptor{Tier: util.Hot, TierDuration: time.Hour}
	tr := &meta.TimeRangeInfo{StartTime: mustParseTime(time.RFC3339Nano, "1970-01-01T01:00:00Z"),
		EndTime: mustParseTime(time.RFC3339Nano, "2099-01-01T01:00:00Z")}
	shardIdent := &meta.ShardIdentifier{ShardID: defaultShardId, ShardGroupID: 1, OwnerDb: defaultDb, OwnerPt: defaultPtId, Policy: defaultRp}
	engOpt := DefaultEngineOption
	if vWalSyncInline {
		engOpt.WalSyncInterval = 0 // fsync inline: no timer-driven sync goroutine (controlled-scheduler runs)
	}
	sh := NewShard(dataPath, walPath, &lockPath, shardIdent, shardDuration, tr, engOpt, config.TSSTORE, nil)
	sh.indexBuilder = indexBuilder
	sh.SetWriteColdDuration(24 * time.Hour)
	if err := sh.OpenAndEnable(nil); err != nil {
		_ = sh.Close()
		_ = indexBuilder.Close()
		return nil, err
	}
	compWorker.UnregisterShard(sh.ident.ShardID)
	return &vShard{dir: dir, sh: sh}, nil
}

func (v *vShard) Close() error {
	if v.sh == nil {
		return nil
	}
	err := closeShard(v.sh)
	v.sh = nil
	return err
}

func (v *vShard) Reopen() error {
	if err := v.Close(); err != nil {
		return err
	}
	n, err := vOpenShard(v.dir)
	if err != nil {
		return err
	}
	v.sh = n.sh
	return nil
}

func (v *vShard) Write(pts []vPoint) error {
	rows := make([]influx.Row, len(pts))
	for i := range pts {
		rows[i] = vRow(pts[i])
	}
	if err := writeData(v.sh, rows, false); err != nil {
		return err
	}
	v.IndexBarrier()
	return nil
}

// IndexBarrier makes freshly created series searchable (DESIGN.md §1 visibility: the property
// allows a lag until the series is visible in the index; the harness removes the lag instead of
// waiting for the background flusher).
func (v *vShard) IndexBarrier() {
	if idx, ok := v.sh.indexBuilder.GetPrimaryIndex().(*tsi.MergeSetIndex); ok {
		idx.DebugFlush()
	}
}

func (v *vShard) Flush() {
	v.sh.ForceFlush()
	v.sh.waitSnapshot()
}

func (v *vShard) tables() *immutable.MmsTables { return v.sh.immTables.(*immutable.MmsTables) }

// LevelCompact runs level compaction for every level of the real rule once and waits.
func (v *vShard) LevelCompact() error {
	seen := map[uint16]bool{}
	for _, level := range immutable.LevelCompactRule {
		if seen[level] {
			continue
		}
		seen[level] = true
		if err := v.sh.immTables.LevelCompact(level, v.sh.GetID()); err != nil {
			return err
		}
		v.tables().Wait()
	}
	return nil
}

func (v *vShard) FullCompact() error {
	err := v.sh.immTables.FullCompact(v.sh.GetID())
	v.tables().Wait()
	return err
}

// MergeOOO merges out-of-order files into ordered ones (force: no size/number thresholds).
func (v *vShard) MergeOOO(full bool) error {
	err := v.sh.immTables.MergeOutOfOrder(v.sh.GetID(), full, true)
	v.tables().Wait()
	return err
}

// Layout returns a digest of the physical layout: per measurement the ordered and out-of-order file
// names, plus whether the memtable holds data. Used for no-op pruning and for evidence.
func (v *vShard) Layout() string {
	var b strings.Builder
	for _, mst := range vMsts {
		order, unorder, _ := v.sh.immTables.GetBothFilesRef(mst, false, util.TimeRange{Min: math.MinInt64, Max: math.MaxInt64}, nil)
		fmt.Fprintf(&b, "%s:o[", mst)
		for _, f := range order {
			b.WriteString(filepath.Base(f.Path()) + " ")
		}
		b.WriteString("]u[")
		for _, f := range unorder {
			b.WriteString(filepath.Base(f.Path()) + " ")
		}
		b.WriteString("];")
		immutable.UnrefFiles(order...)
		immutable.UnrefFiles(unorder...)
	}
	if v.sh.activeTbl != nil && v.sh.activeTbl.GetMemSize() > 0 {
		b.WriteString("mem")
	}
	return b.String()
}

// LayoutShape abstracts the layout digest to counts (files per level / ooo / mem) for evidence.
func vLayoutShape(layout string) string {
	// count files: names look like 00000001-0000-00000000.tssp
	shape := []string{}
	for _, part := range strings.Split(layout, ";") {
		if part == "mem" {
			shape = append(shape, "mem")
			continue
		}
		if part == "" {
			continue
		}
		i := strings.Index(part, ":o[")
		j := strings.Index(part, "]u[")
		if i < 0 || j < 0 {
			continue
		}
		o := strings.Fields(part[i+3 : j])
		u := strings.Fields(strings.TrimSuffix(part[j+3:], "]"))
		lv := []string{}
		for _, f := range o {
			seg := strings.Split(f, "-")
			if len(seg) >= 2 {
				lv = append(lv, "L"+strings.TrimLeft(seg[1], "0"))
			}
		}
		if len(o)+len(u) > 0 {
			shape = append(shape, fmt.Sprintf("%s:%s+%du", part[:i], strings.Join(lv, ""), len(u)))
		}
	}
	return strings.Join(shape, " ")
}

// ---- logical dump ----------------------------------------------------------------------------

type vQuery struct {
	Mst       string
	Fields    []influxql.VarRef
	Ascending bool
	Start     int64
	End       int64
}

func (q vQuery) String() string {
	names := make([]string, len(q.Fields))
	for i := range q.Fields {
		names[i] = q.Fields[i].Val
	}
	ts := func(t int64) string {
		switch {
		case t == influxql.MinTime || t == math.MinInt64:
			return "-inf"
		case t == influxql.MaxTime || t == math.MaxInt64:
			return "+inf"
		}
		return fmt.Sprintf("t%d", (t-vBase)/int64(time.Second))
	}
	ord := "asc"
	if !q.Ascending {
		ord = "desc"
	}
	return fmt.Sprintf("select %s from %s where time in [%s,%s] %s", strings.Join(names, ","), q.Mst, ts(q.Start), ts(q.End), ord)
}

// vDump runs one plain selection through shard.CreateCursor on the production path (group cursor
// with record re-use, dimensions = [host]) and returns key -> field -> value plus stream-shape
// errors (unsorted, duplicate timestamp in a series, unknown series).
func (v *vShard) Dump(q vQuery) (map[vKey]map[string]vVal, []string, error) {
	var opt query.ProcessorOptions
	opt.Name = q.Mst
	opt.Dimensions = []string{"host"}
	opt.Ascending = q.Ascending
	opt.FieldAux = q.Fields
	opt.MaxParallel = 1
	opt.ChunkSize = defaultChunkSize
	opt.StartTime = q.Start
	opt.EndTime = q.End
	schema := genQuerySchema(q.Fields, &opt)
	_, span := tracing.NewTrace("root")
	ctx := tracing.NewContextWithSpan(context.Background(), span)
	info, err := v.sh.CreateCursor(ctx, schema)
	if err != nil {
		return nil, nil, err
	}
	out := map[vKey]map[string]vVal{}
	if info == nil {
		return out, nil, nil
	}
	defer info.Unref()
	var shapeErrs []string
	for _, cur := range info.GetCursors() {
		errs, err := vDrain(cur, q, out)
		shapeErrs = append(shapeErrs, errs...)
		_ = cur.Close()
		if err != nil {
			return nil, nil, err
		}
	}
	return out, shapeErrs, nil
}

func vDrain(cur comm.KeyCursor, q vQuery, out map[vKey]map[string]vVal) ([]string, error) {
	var shapeErrs []string
	last := map[string]int64{}
	hasLast := map[string]bool{}
	// Same iteration the package's own shard tests use (checkQueryResultForSingleCursor): per-series
	// records with their series info, produced by the tag-set cursor's heap merge over series cursors.
	if gc, ok := cur.(*groupCursor); ok {
		gc.preAgg = true
		SetNextMethod(cur)
	}
	for {
		rec, info, err := cur.Next()
		if err != nil {
			return shapeErrs, err
		}
		if rec == nil {
			return shapeErrs, nil
		}
		host := "?"
		if info != nil {
			host = vHostOfTag(info.GetSeriesKey())
		}
		times := rec.Times()
		for row := 0; row < rec.RowNums(); row++ {
			k := vKey{q.Mst, host, times[row]}
			vals := map[string]vVal{}
			for ci := 0; ci < len(rec.Schema)-1; ci++ {
				col := rec.Column(ci)
				if col.IsNil(row) {
					continue
				}
				name := rec.Schema[ci].Name
				switch rec.Schema[ci].Type {
				case influx.Field_Type_Float:
					f, _ := col.FloatValue(row)
					vals[name] = vVal{Typ: influx.Field_Type_Float, F: f}
				case influx.Field_Type_Int:
					n, _ := col.IntegerValue(row)
					vals[name] = vVal{Typ: influx.Field_Type_Int, I: n}
				case influx.Field_Type_String:
					s, _ := col.StringValueSafe(row)
					vals[name] = vVal{Typ: influx.Field_Type_String, S: s}
				}
			}
			if times[row] < q.Start || times[row] > q.End {
				shapeErrs = append(shapeErrs, fmt.Sprintf("row %v outside the queried range", k))
			}
			if hasLast[host] {
				switch {
				case last[host] == times[row]:
					shapeErrs = append(shapeErrs, fmt.Sprintf("duplicate timestamp for %v", k))
				case q.Ascending && times[row] < last[host], !q.Ascending && times[row] > last[host]:
					shapeErrs = append(shapeErrs, fmt.Sprintf("rows of host=%s not sorted by time at %v", host, k))
				}
			}
			last[host], hasLast[host] = times[row], true
			if len(vals) == 0 {
				continue // a row whose selected fields are all null is not a query result row
			}
			if old, dup := out[k]; dup {
				shapeErrs = append(shapeErrs, fmt.Sprintf("key %v returned twice (%v and %v)", k, old, vals))
			}
			out[k] = vals
		}
	}
}

// vHostOfTag extracts the value of tag "host" from a chunk-tags key.
func vHostOfTag(tag []byte) string {
	s := string(tag)
	for _, h := range vHosts {
		if strings.Contains(s, "host\x00"+h+"\x00") || strings.HasSuffix(s, "host\x00"+h) || strings.Contains(s, "host="+h) {
			return h
		}
	}
	return "?" + fmt.Sprintf("%q", s)
}

// vExpected computes the answer the reference model gives for q. Candidate sets that are not yet
// pinned are returned as-is (the comparison pins them).
func (m vModel) Expected(q vQuery) map[vKey]map[string][]vVal {
	out := map[vKey]map[string][]vVal{}
	for k, fs := range m {
		if k.Mst != q.Mst || k.T < q.Start || k.T > q.End {
			continue
		}
		sel := map[string][]vVal{}
		for _, f := range q.Fields {
			if vs, ok := fs[f.Val]; ok && len(vs) > 0 {
				sel[f.Val] = vs
			}
		}
		if len(sel) > 0 {
			out[k] = sel
		}
	}
	return out
}

// vCompare compares an observed dump with the model; it pins unpinned candidate sets to the observed
// survivor. Returns human-readable differences.
func (m vModel) Compare(q vQuery, got map[vKey]map[string]vVal) []string {
	var diffs []string
	exp := m.Expected(q)
	for k, fs := range exp {
		g, ok := got[k]
		if !ok {
			diffs = append(diffs, fmt.Sprintf("missing row %v (expected %v)", k, vFmtCands(fs)))
			continue
		}
		for n, cands := range fs {
			gv, ok := g[n]
			if !ok {
				diffs = append(diffs, fmt.Sprintf("row %v: field %s missing (expected %v)", k, n, cands))
				continue
			}
			hit := false
			for _, c := range cands {
				if c == gv || (c.Typ == influx.Field_Type_Float && gv.Typ == c.Typ && math.Float64bits(c.F) == math.Float64bits(gv.F)) {
					hit = true
				}
			}
			if !hit {
				diffs = append(diffs, fmt.Sprintf("row %v: field %s = %v, expected %v", k, n, gv, cands))
				continue
			}
			if len(cands) > 1 {
				m[k][n] = []vVal{gv} // pin
			}
		}
		for n, gv := range g {
			if _, ok := fs[n]; !ok {
				diffs = append(diffs, fmt.Sprintf("row %v: unexpected field %s = %v", k, n, gv))
			}
		}
	}
	for k, g := range got {
		if _, ok := exp[k]; !ok {
			diffs = append(diffs, fmt.Sprintf("unexpected row %v = %v", k, g))
		}
	}
	sort.Strings(diffs)
	return diffs
}

func vFmtCands(fs map[string][]vVal) string {
	names := make([]string, 0, len(fs))
	for n := range fs {
		names = append(names, n)
	}
	sort.Strings(names)
	var b strings.Builder
	for _, n := range names {
		fmt.Fprintf(&b, "%s=%v ", n, fs[n])
	}
	return b.String()
}

// vContentDigest is a canonical string of the model (used for state counting).
func (m vModel) Digest() string {
	keys := make([]vKey, 0, len(m))
	for k := range m {
		keys = append(keys, k)
	}
	sort.Slice(keys, func(i, j int) bool { return keys[i].String() < keys[j].String() })
	var b strings.Builder
	for _, k := range keys {
		fmt.Fprintf(&b, "%v{%s}", k, vFmtCands(m[k]))
	}
	return b.String()
}

// vFullQueries: the read shapes compared after every step (DESIGN.md C02).
func vQueries(thorough bool) []vQuery {
	var qs []vQuery
	ranges := [][2]int64{{influxql.MinTime, influxql.MaxTime}, {vT(1), vT(4)}, {vT(2), vT(3)}, {vT(1), vT(1)}}
	var subsets [][]influxql.VarRef
	for mask := 1; mask < 1<<len(vFields); mask++ {
		var s []influxql.VarRef
		for i := range vFields {
			if mask&(1<<i) != 0 {
				s = append(s, vFields[i])
			}
		}
		subsets = append(subsets, s)
	}
	for _, mst := range vMsts {
		for _, asc := range []bool{true, false} {
			for _, r := range ranges {
				for _, s := range subsets {
					qs = append(qs, vQuery{Mst: mst, Fields: s, Ascending: asc, Start: r[0], End: r[1]})
				}
			}
		}
	}
	return qs
}

func vFullDumpQuery(mst string) vQuery {
	return vQuery{Mst: mst, Fields: vFields, Ascending: true, Start: influxql.MinTime, End: influxql.MaxTime}
}

func vMkdir(parent, name string) string {
	d := filepath.Join(parent, name)
	_ = os.RemoveAll(d)
	_ = os.MkdirAll(d, 0o755)
	return d
}

var _ = record.Record{}

// Reorganisation ops of the C02 alphabet (after the write menu).
var vReorgOps = []string{"F", "LC", "FC", "MO", "MF", "RO"}

// vBurstOps are multi-write macro ops (each sub-write is acknowledged on its own).
var vBurstOps = []string{"WB"}

func vAllOps() []string {
	ops := []string{}
	for _, w := range vWriteMenu {
		ops = append(ops, w.Name)
	}
	ops = append(ops, vBurstOps...)
	return append(ops, vReorgOps...)
}

// vApply executes one op of a history on the real shard and on the model.
// id is the 1-based position of the op in its history.
func vApply(v *vShard, m vModel, op string, id int) error {
	if wi := vWriteIndex(op); wi >= 0 {
		pts := vWriteMenu[wi].Gen(id)
		if err := v.Write(pts); err != nil {
			return err
		}
		m.ApplyBatch(pts)
		return nil
	}
	switch op {
	case "WB":
		// burst: 16 separately acknowledged single-row writes to one series, timestamps cycling t4,t3,t2,t1 - the
		// series buffer of the memtable then holds more than 12 unsorted rows with repeated timestamps (the size
		// at which an unstable sort stops behaving like a stable one)
		for k := 0; k < 16; k++ {
			pts := []vPoint{{vKey{"m", "a", vT(4 - k%4)}, map[string]vVal{"f": vFloat(id*1000 + k), "i": vInt(id*1000 + k)}}}
			if err := v.Write(pts); err != nil {
				return err
			}
			m.ApplyBatch(pts)
		}
		return nil
	case "F":
		v.Flush()
	case "LC":
		return v.LevelCompact()
	case "FC":
		return v.FullCompact()
	case "MO":
		return v.MergeOOO(false)
	case "MF":
		return v.MergeOOO(true)
	case "RO":
		return v.Reopen()
	default:
		return fmt.Errorf("unknown op %q", op)
	}
	return nil
}

// vSetupEngineKnobs makes short histories reach every layout: level compaction with 2 files per
// group, small segments.
func vSetupEngineKnobs() {
	for i := range immutable.LeveLMinGroupFiles {
		immutable.LeveLMinGroupFiles[i] = 2
	}
	// smallest valid segment size: the configuration API only produces multiples of 8 (Config.SetMaxRowsPerSegment);
	// a size that is not a multiple of 8 is not a reachable configuration (the out-of-order merge panics on it)
	immutable.SetMaxRowsPerSegment4TsStore(8)
}
