//go:build verif

package engine

import (
	"fmt"
	"os"
	"path/filepath"
	"runtime"
	"runtime/pprof"
	"testing"
	"testing/synctest"
	"time"

	"github.com/openGemini/openGemini/lib/config"
	"github.com/openGemini/openGemini/lib/errno"
	"github.com/openGemini/openGemini/lib/interruptsignal"
	"github.com/openGemini/openGemini/lib/logger"
	"github.com/openGemini/openGemini/lib/metaclient"
	stat "github.com/openGemini/openGemini/lib/statisticsPusher/statistics"
	"github.com/openGemini/openGemini/lib/util"
	"github.com/openGemini/openGemini/lib/util/lifted/influx/influxql"
	"github.com/openGemini/openGemini/lib/util/lifted/influx/meta"
	proto2 "github.com/openGemini/openGemini/lib/util/lifted/influx/meta/proto"
	"github.com/openGemini/openGemini/lib/util/lifted/vm/protoparser/influx"
	kit "github.com/openGemini/openGemini/lib/verifkit"
	"go.uber.org/zap"
	"golang.org/x/sys/unix"
	"google.golang.org/protobuf/proto"
)

type VerifC14MetaClient interface {
	PruneGroupsCommand(shardGroup bool, id uint64) error
	GetShardDurationInfo(index uint64) (*meta.ShardDurationResponse, error)
	GetIndexDurationInfo(index uint64) (*meta.IndexDurationResponse, error)
	DeleteShardGroup(database, policy string, id uint64, deleteType int32) error
	DeleteIndexGroup(database, policy string, id uint64) error
	DelayDeleteShardGroup(database, policy string, id uint64, deletedAt time.Time, deleteType int32) error
	GetExpiredShards() ([]meta.ExpiredShardInfos, []meta.ExpiredShardInfos)
	GetExpiredIndexes() []meta.ExpiredIndexInfos
}

var VerifC14NewService func(mc VerifC14MetaClient, e *EngineImpl, interval time.Duration) func()

const (
	c14DB  = "db0"
	c14RP  = "rp0"
	c14Mst = "m"
	c14G   = time.Hour
)

type c14Meta struct {
	data *meta.Data
}

func (m *c14Meta) bump() { m.data.Index++ }

func (m *c14Meta) dbPts() map[string][]uint32 { return map[string][]uint32{c14DB: {0}} }

func (m *c14Meta) PruneGroupsCommand(shardGroup bool, id uint64) error {
	defer m.bump()
	return m.data.PruneGroups(shardGroup, id)
}
func (m *c14Meta) GetShardDurationInfo(index uint64) (*meta.ShardDurationResponse, error) {
	if m.data.Index < index {
		return nil, errno.NewError(errno.DataIsOlder)
	}
	b, err := m.data.DurationInfos(m.dbPts()).MarshalBinary()
	if err != nil {
		return nil, err
	}
	r := &meta.ShardDurationResponse{}
	return r, r.UnmarshalBinary(b)
}
func (m *c14Meta) GetIndexDurationInfo(index uint64) (*meta.IndexDurationResponse, error) {
	if m.data.Index < index {
		return nil, errno.NewError(errno.DataIsOlder)
	}
	b, err := m.data.IndexDurationInfos(m.dbPts()).MarshalBinary()
	if err != nil {
		return nil, err
	}
	r := &meta.IndexDurationResponse{}
	return r, r.UnmarshalBinary(b)
}
func (m *c14Meta) DeleteShardGroup(database, policy string, id uint64, deleteType int32) error {
	defer m.bump()
	return m.data.DeleteShardGroup(database, policy, id, 0, deleteType)
}
func (m *c14Meta) DeleteIndexGroup(database, policy string, id uint64) error {
	defer m.bump()
	return m.data.DeleteIndexGroup(database, policy, id)
}
func (m *c14Meta) DelayDeleteShardGroup(database, policy string, id uint64, deletedAt time.Time, deleteType int32) error {
	panic("logkeeper path not used")
}
func (m *c14Meta) GetExpiredShards() ([]meta.ExpiredShardInfos, []meta.ExpiredShardInfos) {
	panic("logkeeper path not used")
}
func (m *c14Meta) GetExpiredIndexes() []meta.ExpiredIndexInfos { panic("logkeeper path not used") }

var c14LoadCtx *metaclient.LoadCtx

func c14NewEngine(dir string, data *meta.Data) *EngineImpl {
	eng := &EngineImpl{
		closed:               interruptsignal.NewInterruptSignal(),
		dataPath:             filepath.Join(dir, "data"),
		walPath:              filepath.Join(dir, "wal"),
		DBPartitions:         make(map[string]map[uint32]*DBPTInfo, 4),
		droppingDB:           make(map[string]string),
		droppingRP:           make(map[string]string),
		droppingMst:          make(map[string]string),
		migratingDbPT:        make(map[string]map[uint32]struct{}),
		clearRepColdShardMap: make(map[string]struct{}),
		clearRepColdIndexMap: make(map[string]struct{}),
		engOpt:               DefaultEngineOption,
	}
	eng.log = logger.NewLogger(errno.ModuleUnknown).SetZapLogger(zap.NewNop())
	client := metaclient.NewClient("", false, 0)
	client.SetCacheData(data)
	eng.SetMetaClient(client)
	if c14LoadCtx == nil {
		c14LoadCtx = getLoadCtx()
	}
	eng.loadCtx = c14LoadCtx
	eng.CreateDBPT(c14DB, 0, false)
	eng.DBPartitions[c14DB][0].logger = eng.log
	stat.StoreTaskInstance = stat.NewStoreTaskDuration(false)
	return eng
}

func c14NewData(d time.Duration) (*meta.Data, error) {
	data := &meta.Data{PtNumPerNode: 1}
	if _, err := data.CreateDataNode("127.0.0.1:8400", "127.0.0.1:8401", "", ""); err != nil {
		return nil, err
	}
	rpi := meta.NewRetentionPolicyInfo(c14RP)
	rpi.Duration = d
	rpi.ShardGroupDuration = c14G
	if err := data.CreateDatabase(c14DB, rpi, nil, false, 1, nil); err != nil {
		return nil, err
	}
	if err := data.CreateMeasurement(c14DB, c14RP, c14Mst,
		&proto2.ShardKeyInfo{ShardKey: []string{"host"}, Type: proto.String(influxql.HASH)}, 0, nil, config.TSSTORE, nil, nil, nil); err != nil {
		return nil, err
	}
	return data, nil
}

func TestVerifC14(t *testing.T) {
	rep := kit.NewReport("C14")
	meta.DataLogger = zap.NewNop()
	synctest.Test(t, func(t *testing.T) {
		c14Probe(t, rep)
		rep.Save()
		os.Exit(0)
	})
}

var c14prof *os.File

func c14Probe(t *testing.T, rep *kit.Report) {
	c14prof, _ = os.Create("/tmp/c14probe/cpu.prof")
	scratch := kit.Scratch()
	reportLoadFrequency = 20 * time.Minute
	for it := 0; it < 12; it++ {
		r0 := c14Real()
		data, err := c14NewData(2 * c14G)
		if err != nil {
			t.Fatal(err)
		}
		dir := vMkdir(scratch, fmt.Sprintf("h%d", it))
		eng := c14NewEngine(dir, data)
		mc := &c14Meta{data: data}
		handle := VerifC14NewService(mc, eng, 30*time.Minute)
		fmt.Println("setup", c14Real()-r0, "now", time.Now().UTC())
		r9 := c14Real()
		time.Sleep(3 * c14G)
		fmt.Println("sleep-empty 3G", c14Real()-r9)
		now := time.Now()
		for k := 0; k < 2; k++ {
			ts := now.Add(time.Duration(k) * c14G)
			if err := data.CreateShardGroup(c14DB, c14RP, ts, util.Hot, config.TSSTORE, 0); err != nil {
				t.Fatal(err)
			}
			sg, _ := data.ShardGroupByTimestampAndEngineType(c14DB, c14RP, ts, config.TSSTORE)
			rp, _ := data.RetentionPolicy(c14DB, c14RP)
			sid := sg.Shards[0].ID
			tri := rp.TimeRangeInfo(sid)
			msti, _ := data.Measurement(c14DB, c14RP, c14Mst)
			r1 := c14Real()
			if err := eng.CreateShard(c14DB, c14RP, 0, sid, tri, msti); err != nil {
				t.Fatal(err)
			}
			row := influx.Row{Name: msti.Name, Timestamp: ts.UnixNano()}
			row.Fields = append(row.Fields, influx.Field{Key: "f", Type: influx.Field_Type_Float, NumValue: 1.5})
			row.Tags = influx.PointTags{{Key: "host", Value: "a"}}
			row.UnmarshalIndexKeys(nil)
			row.UnmarshalShardKeyByTag(nil)
			rows := []influx.Row{row}
			buf, _ := influx.FastMarshalMultiRows(nil, rows)
			if err := eng.WriteRows(c14DB, c14RP, 0, sid, rows, buf, nil); err != nil {
				t.Fatal(err)
			}
			fmt.Println("shard create+write", sid, c14Real()-r1, sg.StartTime, sg.EndTime)
		}
		if it == 0 {
			buf := make([]byte, 1<<22)
			n := runtime.Stack(buf, true)
			_ = os.WriteFile("/tmp/c14probe/stacks.txt", buf[:n], 0o644)
		}
		r2 := c14Real()
		handle()
		fmt.Println("handle#1", c14Real()-r2, "now", time.Now().UTC(), "shards", len(eng.DBPartitions[c14DB][0].shards))
		r2 = c14Real()
		time.Sleep(1)
		fmt.Println("sleep 1ns", c14Real()-r2)
		r2 = c14Real()
		time.Sleep(3*c14G + 1)
		fmt.Println("sleep 3G+1", c14Real()-r2, "now", time.Now().UTC())
		r2 = c14Real()
		if it%2 == 1 {
			_ = pprof.StartCPUProfile(c14prof)
		}
		handle()
		if it%2 == 1 {
			pprof.StopCPUProfile()
		}
		fmt.Println("handle#2", c14Real()-r2, "now", time.Now().UTC(), "shards", len(eng.DBPartitions[c14DB][0].shards))
		rpi, _ := data.RetentionPolicy(c14DB, c14RP)
		fmt.Printf("groups %+v\n", rpi.ShardGroups)
		r2 = c14Real()
		if err := eng.Close(); err != nil {
			t.Fatal(err)
		}
		fmt.Println("close", c14Real()-r2, "goroutines", runtime.NumGoroutine())
	}
}

// c14Real is the real (monotonic, outside the bubble) time in seconds: diagnostics only.
func c14Real() float64 {
	var ts unix.Timespec
	_ = unix.ClockGettime(unix.CLOCK_MONOTONIC, &ts)
	return float64(ts.Sec) + float64(ts.Nsec)/1e9
}
