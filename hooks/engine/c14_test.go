//go:build verif

package engine

// C14 — retention removes only data that has expired.
//
// Bounded exhaustive exploration of histories over the REAL retention code under a virtual clock
// (testing/synctest): services/retention.Service.handle (through the accessor VerifHandle, wired in
// c14_glue_test.go) -> real EngineImpl (UpdateShardDurationInfo, ExpiredShards / shard.IsExpired /
// nilShardIsExpired, DeleteShard, ExpiredIndexes, DeleteIndex) with real shards on disk, and a real
// meta.Data catalogue (CreateDatabase, CreateMeasurement, CreateShardGroup, UpdateRetentionPolicy,
// DurationInfos + its wire codec, DeleteShardGroup, DeleteIndexGroup, PruneGroups) behind a thin
// MetaClient adapter (c14Meta) that does what ts-meta's store does for these commands.
// See /verif/notes/C14.md.

import (
	"fmt"
	"os"
	"path/filepath"
	"runtime/debug"
	"runtime/pprof"
	"sort"
	"strings"
	"sync"
	"testing"
	"testing/synctest"
	"time"

	"github.com/openGemini/openGemini/engine/index/tsi"
	"github.com/openGemini/openGemini/lib/config"
	"github.com/openGemini/openGemini/lib/errno"
	"github.com/openGemini/openGemini/lib/interruptsignal"
	"github.com/openGemini/openGemini/lib/logger"
	"github.com/openGemini/openGemini/lib/metaclient"
	stat "github.com/openGemini/openGemini/lib/statisticsPusher/statistics"
	"github.com/openGemini/openGemini/lib/util"
	"github.com/openGemini/openGemini/lib/util/lifted/influx/influxql"
	"github.com/openGemini/openGemini/lib/util/lifted/influx/meta"
	proto2 "github.com/openGemini/openGemini/lib/util/lifted/influx/meta/proto"
	"github.com/openGemini/openGemini/lib/util/lifted/vm/protoparser/influx"
	kit "github.com/openGemini/openGemini/lib/verifkit"
	"go.uber.org/zap"
	"google.golang.org/protobuf/proto"
)

// ---- wiring to the real service (set by c14_glue_test.go, package engine_test) ------------------

// VerifC14MetaClient is the method set of retention.Service.MetaClient.
type VerifC14MetaClient interface {
	PruneGroupsCommand(shardGroup bool, id uint64) error
	GetShardDurationInfo(index uint64) (*meta.ShardDurationResponse, error)
	GetIndexDurationInfo(index uint64) (*meta.IndexDurationResponse, error)
	DeleteShardGroup(database, policy string, id uint64, deleteType int32) error
	DeleteIndexGroup(database, policy string, id uint64) error
	DelayDeleteShardGroup(database, policy string, id uint64, deletedAt time.Time, deleteType int32) error
	GetExpiredShards() ([]meta.ExpiredShardInfos, []meta.ExpiredShardInfos)
	GetExpiredIndexes() []meta.ExpiredIndexInfos
}

// VerifC14Engine is the method set of retention.Service.Engine.
type VerifC14Engine interface {
	DeleteIndex(db string, ptId uint32, indexID uint64) error
	UpdateShardDurationInfo(info *meta.ShardDurationInfo, nilShardMap *map[uint64]*meta.ShardDurationInfo) error
	UpdateIndexDurationInfo(info *meta.IndexDurationInfo, nilIndexMap *map[uint64]*meta.IndexDurationInfo) error
	ExpiredShards(nilShardMap *map[uint64]*meta.ShardDurationInfo) []*meta.ShardIdentifier
	ExpiredIndexes(nilIndexMap *map[uint64]*meta.IndexDurationInfo) []*meta.IndexIdentifier
	ExpiredCacheIndexes() []*meta.IndexIdentifier
	DeleteShard(db string, ptId uint32, shardID uint64) error
	ClearIndexCache(db string, ptId uint32, indexID uint64) error
}

// VerifC14NewService builds a real retention.Service and returns its handle() and a rendering of the
// state the service keeps between two checks (see VerifHiddenState in hooks/services/retention/c14_hook.go).
var VerifC14NewService func(mc VerifC14MetaClient, e VerifC14Engine, interval time.Duration) (func(), func() string)

const (
	c14DB       = "db0"
	c14RP       = "rp0"
	c14Mst      = "m"
	c14G        = time.Hour        // shard-group duration (the smallest the catalogue accepts)
	c14Interval = 30 * time.Minute // retention check interval (the shipped default)
)

var c14Durs = []time.Duration{0, c14G / 2, c14G, 2 * c14G}
var c14DurNames = []string{"0", "G/2", "G", "2G"}

func c14DurIndex(name string) int {
	for i, n := range c14DurNames {
		if n == name {
			return i
		}
	}
	return -1
}

// ---- MetaClient adapter: what ts-meta's store does for the commands the service sends ------------
//
// Fault seam: every call the service makes through its MetaClient is recorded (per retention run) and
// can be made to fail. A failed call returns an error and leaves the catalogue untouched (the command
// was not applied, Data.Index does not move). The plan of a run is either "the k-th call of this run
// fails" (pos), "every call of one method fails" (kind) or "every call fails" (kind "*").

type c14CallRec struct {
	Method string
	Arg    string
	Failed bool
}

// the methods of the MetaClient the local-storage retention run can reach; the short names appear in op names
var c14CallKinds = []struct{ Short, Method string }{
	{"S", "GetShardDurationInfo"},
	{"I", "GetIndexDurationInfo"},
	{"DSG", "DeleteShardGroup"},
	{"DIG", "DeleteIndexGroup"},
	{"PG", "PruneGroupsCommand"},
}

type c14FaultPlan struct {
	Pos  int    // 1-based: the Pos-th catalogue call of the run fails; 0 = none
	Kind string // every call of this method fails; "*" = every call; "" = none
}

func (p c14FaultPlan) active() bool { return p.Pos > 0 || p.Kind != "" }

type c14Meta struct {
	data  *meta.Data
	plan  c14FaultPlan
	calls []c14CallRec // calls of the current retention run, in order
	fired int          // injected failures of the current run
}

func (m *c14Meta) arm(p c14FaultPlan) { m.plan, m.calls, m.fired = p, nil, 0 }
func (m *c14Meta) disarm()            { m.plan = c14FaultPlan{} }

// enter records the call and decides whether it fails under the plan of this run.
func (m *c14Meta) enter(method, arg string) bool {
	m.calls = append(m.calls, c14CallRec{Method: method, Arg: arg})
	n := len(m.calls)
	if (m.plan.Pos > 0 && n == m.plan.Pos) || (m.plan.Kind != "" && (m.plan.Kind == "*" || m.plan.Kind == method)) {
		m.calls[n-1].Failed = true
		m.fired++
		return true
	}
	return false
}

func c14Injected(method string) error {
	return fmt.Errorf("C14 injected fault: catalogue call %s failed (not applied)", method)
}

func (m *c14Meta) fmtCalls() string {
	var s []string
	for _, c := range m.calls {
		x := c.Method
		if c.Arg != "" {
			x += "(" + c.Arg + ")"
		}
		if c.Failed {
			x += " FAILED"
		}
		s = append(s, x)
	}
	return "[" + strings.Join(s, ", ") + "]"
}

// every applied command advances the catalogue index (raft log index in the real store)
func (m *c14Meta) bump() { m.data.Index++ }

func (m *c14Meta) dbPts() map[string][]uint32 { return map[string][]uint32{c14DB: {0}} }

func (m *c14Meta) PruneGroupsCommand(shardGroup bool, id uint64) error {
	what := "index"
	if shardGroup {
		what = "shard"
	}
	if m.enter("PruneGroupsCommand", fmt.Sprintf("%s %d", what, id)) {
		return c14Injected("PruneGroupsCommand")
	}
	defer m.bump()
	return m.data.PruneGroups(shardGroup, id)
}

// store.getDurationInfo: index guard, Data.DurationInfos, wire codec both ways
func (m *c14Meta) GetShardDurationInfo(index uint64) (*meta.ShardDurationResponse, error) {
	if m.enter("GetShardDurationInfo", "") {
		return nil, errno.NewError(errno.DataIsOlder) // what a lagging ts-meta answers
	}
	if m.data.Index < index {
		return nil, errno.NewError(errno.DataIsOlder)
	}
	b, err := m.data.DurationInfos(m.dbPts()).MarshalBinary()
	if err != nil {
		return nil, err
	}
	r := &meta.ShardDurationResponse{}
	return r, r.UnmarshalBinary(b)
}

func (m *c14Meta) GetIndexDurationInfo(index uint64) (*meta.IndexDurationResponse, error) {
	if m.enter("GetIndexDurationInfo", "") {
		return nil, errno.NewError(errno.DataIsOlder)
	}
	if m.data.Index < index {
		return nil, errno.NewError(errno.DataIsOlder)
	}
	b, err := m.data.IndexDurationInfos(m.dbPts()).MarshalBinary()
	if err != nil {
		return nil, err
	}
	r := &meta.IndexDurationResponse{}
	return r, r.UnmarshalBinary(b)
}

func (m *c14Meta) DeleteShardGroup(database, policy string, id uint64, deleteType int32) error {
	if m.enter("DeleteShardGroup", fmt.Sprintf("%d", id)) {
		return c14Injected("DeleteShardGroup")
	}
	defer m.bump()
	return m.data.DeleteShardGroup(database, policy, id, 0, deleteType)
}

func (m *c14Meta) DeleteIndexGroup(database, policy string, id uint64) error {
	if m.enter("DeleteIndexGroup", fmt.Sprintf("%d", id)) {
		return c14Injected("DeleteIndexGroup")
	}
	defer m.bump()
	return m.data.DeleteIndexGroup(database, policy, id)
}

func (m *c14Meta) DelayDeleteShardGroup(database, policy string, id uint64, deletedAt time.Time, deleteType int32) error {
	panic("C14: shared-storage (logkeeper) path is not part of this harness")
}
func (m *c14Meta) GetExpiredShards() ([]meta.ExpiredShardInfos, []meta.ExpiredShardInfos) {
	panic("C14: shared-storage (logkeeper) path is not part of this harness")
}
func (m *c14Meta) GetExpiredIndexes() []meta.ExpiredIndexInfos {
	panic("C14: shared-storage (logkeeper) path is not part of this harness")
}

// ---- recording pass-through around the real engine ------------------------------------------------

type c14DelRec struct {
	Kind string // "shard" | "index"
	ID   uint64
	At   time.Time
	Err  string
}

// c14Engine embeds the real *EngineImpl (every method of the service's Engine interface is the real
// one); the overridden methods only record virtual time / arguments / results around the real call
// (and put the two "expired" lists, which the engine builds in map order, into id order).
type c14Engine struct {
	*EngineImpl
	w           *c14World
	called      bool
	expiredAt   time.Time
	expired     []uint64
	nilIDs      []uint64
	idxExpired  []uint64
	dels        []c14DelRec
	seenDur     map[uint64]time.Duration // shard id -> duration handed to UpdateShardDurationInfo in this run
	withWriters bool
}

func (r *c14Engine) reset(withWriters bool) {
	r.called, r.expired, r.nilIDs, r.idxExpired, r.dels = false, nil, nil, nil, nil
	r.seenDur = map[uint64]time.Duration{}
	r.withWriters = withWriters
}

func (r *c14Engine) UpdateShardDurationInfo(info *meta.ShardDurationInfo, nilShardMap *map[uint64]*meta.ShardDurationInfo) error {
	r.seenDur[info.Ident.ShardID] = info.DurationInfo.Duration
	return r.EngineImpl.UpdateShardDurationInfo(info, nilShardMap)
}

func (r *c14Engine) ExpiredShards(nilShardMap *map[uint64]*meta.ShardDurationInfo) []*meta.ShardIdentifier {
	if r.withWriters {
		r.w.startWriters()
	}
	r.called = true
	r.expiredAt = time.Now()
	res := r.EngineImpl.ExpiredShards(nilShardMap)
	// The engine reports expired shards in Go map order. The list is handed to the service sorted by id, so
	// that "the k-th catalogue call of the run" denotes the same call in every execution of a history.
	sort.SliceStable(res, func(i, j int) bool { return res[i].ShardID < res[j].ShardID })
	for _, id := range res {
		r.expired = append(r.expired, id.ShardID)
	}
	for id := range *nilShardMap {
		r.nilIDs = append(r.nilIDs, id)
	}
	sort.Slice(r.expired, func(i, j int) bool { return r.expired[i] < r.expired[j] })
	sort.Slice(r.nilIDs, func(i, j int) bool { return r.nilIDs[i] < r.nilIDs[j] })
	return res
}

func (r *c14Engine) ExpiredIndexes(nilIndexMap *map[uint64]*meta.IndexDurationInfo) []*meta.IndexIdentifier {
	res := r.EngineImpl.ExpiredIndexes(nilIndexMap)
	sort.SliceStable(res, func(i, j int) bool { return res[i].Index.IndexID < res[j].Index.IndexID }) // as for ExpiredShards
	for _, id := range res {
		r.idxExpired = append(r.idxExpired, id.Index.IndexID)
	}
	sort.Slice(r.idxExpired, func(i, j int) bool { return r.idxExpired[i] < r.idxExpired[j] })
	return res
}

func (r *c14Engine) DeleteShard(db string, ptId uint32, shardID uint64) error {
	err := r.EngineImpl.DeleteShard(db, ptId, shardID)
	r.dels = append(r.dels, c14DelRec{"shard", shardID, time.Now(), c14ErrStr(err)})
	return err
}

func (r *c14Engine) DeleteIndex(db string, ptId uint32, indexID uint64) error {
	err := r.EngineImpl.DeleteIndex(db, ptId, indexID)
	r.dels = append(r.dels, c14DelRec{"index", indexID, time.Now(), c14ErrStr(err)})
	return err
}

func c14ErrStr(err error) string {
	if err == nil {
		return ""
	}
	return err.Error()
}

// ---- reference model ------------------------------------------------------------------------------

// c14Group is the model's view of one shard group (one shard: the harness cluster has one partition).
type c14Group struct {
	Start, End time.Time
	Gen        int // n-th group created for this range
	SGID       uint64
	ShardID    uint64
	IndexID    uint64
	IGID       uint64
	Loaded     bool // the shard was created on this node (else: catalogue only = "not loaded")
	DataPath   string
	WalPath    string
	Points     map[int64]bool // acknowledged points (timestamps)

	ExpiredRuns int  // consecutive fault-free retention runs at which the model found it expired (faulted runs are not counted)
	Doomed      bool // a deletion of (a part of) it was observed in a run at which it was expired: legitimate
	Gone        bool // nothing of it is left in catalogue, engine, storage
	Interrupted bool // it was Doomed and not Gone at the end of a run with an injected catalogue failure
	// the catalogue attached the group, at its creation, to an index group that already carried a deletion mark
	// (left behind by a run whose prune call was made to fail): that mark is not a loss suffered by this group
	IdxBornMarked bool
}

func (g *c14Group) name(w *c14World) string {
	return fmt.Sprintf("sg%d/sh%d[%s,%s)#%d", g.SGID, g.ShardID, c14Rel(w.t0, g.Start), c14Rel(w.t0, g.End), g.Gen)
}

// c14Rel prints an instant relative to the origin of the history in units of G and nanoseconds.
func c14Rel(t0, t time.Time) string {
	d := t.Sub(t0)
	sign := ""
	if d < 0 {
		sign = "-"
		d = -d
	}
	h := d / c14G
	rest := d % c14G
	switch {
	case rest == 0:
		return fmt.Sprintf("%s%dG", sign, h)
	case rest > c14G/2 && sign == "":
		return fmt.Sprintf("%dG-%s", h+1, c14G-rest)
	case sign == "":
		return fmt.Sprintf("%dG+%s", h, rest)
	default:
		return fmt.Sprintf("-(%dG+%s)", h, rest)
	}
}

type c14Fail struct {
	Kind, Key, Detail string
}

type c14World struct {
	dir     string
	data    *meta.Data
	mc      *c14Meta
	eng     *EngineImpl
	rec     *c14Engine
	handle  func()
	hidden  func() string // what the service remembers between two checks
	rep     *kit.Report
	t0      time.Time
	mstName string
	dm      time.Duration // the duration in force as far as the user was told (model)
	durLog  []time.Duration
	groups  []*c14Group
	runs    int
	hist    []string
	root    string
	fail    *c14Fail
	lastRun string // diagnostics of the last retention run
	// fault seam: result of the last retention run
	lastFired   int    // catalogue calls that were made to fail in the last run
	lastCalls   int    // catalogue calls the last run made
	lastByKind  map[string]int
	faultedRuns int
	// concurrent writers of an Hw step
	wwg     sync.WaitGroup
	wmu     sync.Mutex
	wacks   map[uint64][]int64 // shard id -> acknowledged timestamps
	werrs   map[uint64]int
	wpanics map[uint64]string // shard id -> panic of its concurrent writer
	wseq    int64
}

var c14LoadCtx *metaclient.LoadCtx

func c14NewData(d time.Duration) (*meta.Data, error) {
	data := &meta.Data{PtNumPerNode: 1}
	if _, err := data.CreateDataNode("127.0.0.1:8400", "127.0.0.1:8401", "", ""); err != nil {
		return nil, err
	}
	rpi := meta.NewRetentionPolicyInfo(c14RP)
	rpi.Duration = d
	rpi.ShardGroupDuration = c14G
	if err := data.CreateDatabase(c14DB, rpi, nil, false, 1, nil); err != nil {
		return nil, err
	}
	if err := data.CreateMeasurement(c14DB, c14RP, c14Mst,
		&proto2.ShardKeyInfo{ShardKey: []string{"host"}, Type: proto.String(influxql.HASH)}, 0, nil, config.TSSTORE, nil, nil, nil); err != nil {
		return nil, err
	}
	return data, nil
}

func c14NewEngine(dir string, data *meta.Data) *EngineImpl {
	eng := &EngineImpl{
		closed:               interruptsignal.NewInterruptSignal(),
		dataPath:             filepath.Join(dir, "data"),
		walPath:              filepath.Join(dir, "wal"),
		DBPartitions:         make(map[string]map[uint32]*DBPTInfo, 4),
		droppingDB:           make(map[string]string),
		droppingRP:           make(map[string]string),
		droppingMst:          make(map[string]string),
		migratingDbPT:        make(map[string]map[uint32]struct{}),
		clearRepColdShardMap: make(map[string]struct{}),
		clearRepColdIndexMap: make(map[string]struct{}),
		engOpt:               DefaultEngineOption,
	}
	eng.log = logger.NewLogger(errno.ModuleUnknown).SetZapLogger(zap.NewNop())
	client := metaclient.NewClient("", false, 0)
	client.SetCacheData(data)
	eng.SetMetaClient(client)
	if c14LoadCtx == nil {
		c14LoadCtx = getLoadCtx()
	}
	eng.loadCtx = c14LoadCtx
	eng.CreateDBPT(c14DB, 0, false)
	eng.DBPartitions[c14DB][0].logger = eng.log
	return eng
}

// c14AlignClock sleeps (virtual time) to the next multiple of G so that every history starts on a
// shard-group boundary; the caller has no open shards, so this is cheap.
func c14AlignClock() time.Time {
	now := time.Now()
	next := now.Truncate(c14G).Add(c14G)
	time.Sleep(next.Sub(now))
	return time.Now()
}

// c14NewWorld builds catalogue + engine + service for one history. d0: initial policy duration;
// init: "open" (a point at t0 written through the store path) or "cat" (shard group only in the
// catalogue: the shard is not loaded on this node).
func c14NewWorld(dir string, d0 int, init string, rep *kit.Report) (*c14World, error) {
	_ = os.RemoveAll(dir)
	if err := os.MkdirAll(dir, 0o755); err != nil {
		return nil, err
	}
	w := &c14World{dir: dir, root: c14DurNames[d0] + "/" + init, rep: rep}
	w.t0 = c14AlignClock()
	data, err := c14NewData(c14Durs[d0])
	if err != nil {
		return w, err
	}
	w.data = data
	w.dm = c14Durs[d0]
	w.durLog = []time.Duration{w.dm}
	msti, err := data.Measurement(c14DB, c14RP, c14Mst)
	if err != nil {
		return w, err
	}
	w.mstName = msti.Name
	w.mc = &c14Meta{data: data}
	w.eng = c14NewEngine(dir, data)
	w.rec = &c14Engine{EngineImpl: w.eng, w: w}
	w.rec.reset(false)
	w.handle, w.hidden = VerifC14NewService(w.mc, w.rec, c14Interval)
	if err := w.write(w.t0, init == "open"); err != nil {
		return w, fmt.Errorf("root write: %w", err)
	}
	return w, nil
}

func (w *c14World) close() {
	if w.eng != nil {
		_ = w.eng.Close()
		w.eng = nil
	}
	_ = os.RemoveAll(w.dir)
}

func (w *c14World) rp() *meta.RetentionPolicyInfo {
	rp, err := w.data.RetentionPolicy(c14DB, c14RP)
	if err != nil || rp == nil {
		panic(fmt.Sprintf("C14 harness: retention policy vanished: %v", err))
	}
	return rp
}

func (w *c14World) dbpt() *DBPTInfo { return w.eng.DBPartitions[c14DB][0] }

func c14Rows(mst string, ts int64) ([]influx.Row, []byte) {
	row := influx.Row{Name: mst, Timestamp: ts}
	row.Fields = append(row.Fields, influx.Field{Key: "f", Type: influx.Field_Type_Float, NumValue: 1.5})
	row.Tags = influx.PointTags{{Key: "host", Value: "a"}}
	row.UnmarshalIndexKeys(nil)
	row.UnmarshalShardKeyByTag(nil)
	rows := []influx.Row{row}
	buf, err := influx.FastMarshalMultiRows(nil, rows)
	if err != nil {
		panic(err)
	}
	return rows, buf
}

// storeWrite is app/ts-store/storage.Storage.Write: write; on ShardNotFound fetch the shard's time
// range + duration from the catalogue (Client.GetShardRangeInfo = RetentionPolicyInfo.TimeRangeInfo
// over the wire codec), create the shard, write again.
func (w *c14World) storeWrite(shardID uint64, ts int64) error {
	rows, buf := c14Rows(w.mstName, ts)
	err := w.eng.WriteRows(c14DB, c14RP, 0, shardID, rows, buf, nil)
	if err == nil || !errno.Equal(err, errno.ShardNotFound) {
		return err
	}
	tri := w.rp().TimeRangeInfo(shardID)
	if tri == nil {
		return errno.NewError(errno.ShardMetaNotFound, shardID)
	}
	b, err := tri.MarshalBinary()
	if err != nil {
		return err
	}
	tri2 := &meta.ShardTimeRangeInfo{}
	if err := tri2.UnmarshalBinary(b); err != nil {
		return err
	}
	msti, err := w.data.Measurement(c14DB, c14RP, c14Mst)
	if err != nil {
		return err
	}
	if err := w.eng.CreateShard(c14DB, c14RP, 0, shardID, tri2, msti); err != nil {
		return err
	}
	rows, buf = c14Rows(w.mstName, ts)
	return w.eng.WriteRows(c14DB, c14RP, 0, shardID, rows, buf, nil)
}

// write: the coordinator asks the catalogue for the shard group of the timestamp (created on demand
// by the real CreateShardGroup), then (load) the store path writes the point. load=false leaves the
// shard unloaded on this node (catalogue only).
func (w *c14World) write(ts time.Time, load bool) error {
	start := ts.Truncate(c14G)
	end := start.Add(c14G)
	// model: the live group of this range, else a new generation
	var g *c14Group
	gen := 0
	for _, x := range w.groups {
		if x.Start.Equal(start) {
			gen++
			if !x.Doomed && !x.Gone {
				g = x
			}
		}
	}
	if err := w.data.CreateShardGroup(c14DB, c14RP, ts, util.Hot, config.TSSTORE, 0); err != nil {
		return err
	}
	w.mc.bump()
	sg, err := w.data.ShardGroupByTimestampAndEngineType(c14DB, c14RP, ts, config.TSSTORE)
	if err != nil {
		return err
	}
	if sg == nil || len(sg.Shards) != 1 {
		return fmt.Errorf("no shard group for %s after CreateShardGroup", c14Rel(w.t0, ts))
	}
	if !sg.StartTime.Equal(start) || !sg.EndTime.Equal(end) {
		w.setFail("shard_group_mapping_mismatch", fmt.Sprintf("timestamp %s mapped to group [%s,%s), expected [%s,%s)",
			c14Rel(w.t0, ts), c14Rel(w.t0, sg.StartTime), c14Rel(w.t0, sg.EndTime), c14Rel(w.t0, start), c14Rel(w.t0, end)))
		return nil
	}
	if g != nil && g.SGID != sg.ID {
		w.setFail("shard_group_mapping_mismatch", fmt.Sprintf("timestamp %s: catalogue routes to group %d, the live group of the range is %s",
			c14Rel(w.t0, ts), sg.ID, g.name(w)))
		return nil
	}
	if g == nil {
		for _, x := range w.groups {
			if x.SGID == sg.ID && x.Interrupted && x.Doomed && !x.Gone {
				// The deletion of x began legitimately (x was expired) in a run whose mark-delete call was made
				// to fail, so the catalogue still routes to x. A write into data under deletion: the statement is
				// silent (as for writes concurrent with the deletion). It is executed, counted, and creates no
				// obligation except that whatever it re-creates falls under the removal obligation of x.
				w.rep.Count("writes_routed_into_group_under_interrupted_deletion", 1)
				if load {
					var err error
					func() {
						defer func() { // may succeed, fail or crash, like a write concurrent with the deletion
							if p := recover(); p != nil {
								err = fmt.Errorf("panic: %v", p)
								w.rep.Count("writes_into_group_under_interrupted_deletion_panicked", 1)
							}
						}()
						err = w.storeWrite(x.ShardID, ts.UnixNano())
					}()
					if err != nil {
						w.rep.Count("writes_into_group_under_interrupted_deletion_refused", 1)
					} else if sh := w.dbpt().Shard(x.ShardID); sh != nil {
						x.Loaded = true
						x.DataPath = sh.GetDataPath()
						x.WalPath = sh.GetWalPath()
					}
				}
				return nil
			}
			if x.SGID == sg.ID {
				w.setFail("shard_group_mapping_mismatch", fmt.Sprintf("timestamp %s routed to group %s whose deletion was already observed",
					c14Rel(w.t0, ts), x.name(w)))
				return nil
			}
		}
		g = &c14Group{Start: start, End: end, Gen: gen, SGID: sg.ID, ShardID: sg.Shards[0].ID, IndexID: sg.Shards[0].IndexID,
			Points: map[int64]bool{}}
		for _, ig := range w.rp().IndexGroups {
			for _, ii := range ig.Indexes {
				if ii.ID == g.IndexID {
					g.IGID = ig.ID
					if !ig.DeletedAt.IsZero() || ii.MarkDelete {
						g.IdxBornMarked = true
						w.rep.Count("groups_created_on_index_group_left_marked_by_a_faulted_run", 1)
					}
				}
			}
		}
		w.groups = append(w.groups, g)
	}
	if !load {
		return nil
	}
	if err := w.storeWrite(g.ShardID, ts.UnixNano()); err != nil {
		return err
	}
	sh := w.dbpt().Shard(g.ShardID)
	if sh == nil {
		return fmt.Errorf("shard %d not in the engine after an acknowledged write", g.ShardID)
	}
	g.Loaded = true
	g.DataPath = sh.GetDataPath()
	g.WalPath = sh.GetWalPath()
	g.Points[ts.UnixNano()] = true
	c14IndexBarrier(sh)
	return nil
}

func c14IndexBarrier(sh Shard) {
	if ib := sh.GetIndexBuilder(); ib != nil {
		if idx, ok := ib.GetPrimaryIndex().(*tsi.MergeSetIndex); ok {
			idx.DebugFlush()
		}
	}
}

func (w *c14World) setFail(kind, detail string) {
	if w.fail == nil {
		w.fail = &c14Fail{Kind: kind, Key: w.root + ": " + strings.Join(w.hist, " "), Detail: detail}
	}
}

// ---- concurrent writers ("being written" while the retention run executes) -------------------------

const c14WriterN = 6

// startWriters: one goroutine per shard that is loaded in the engine writes c14WriterN new points
// into that shard (engine WriteRows, the path of an already created shard) while the run executes.
func (w *c14World) startWriters() {
	w.wacks = map[uint64][]int64{}
	w.werrs = map[uint64]int{}
	w.wpanics = map[uint64]string{}
	for _, g := range w.groups {
		if !g.Loaded || g.Gone || w.dbpt().Shard(g.ShardID) == nil {
			continue
		}
		w.wseq++
		base := g.Start.UnixNano() + int64(time.Minute) + w.wseq*1000
		sid := g.ShardID
		w.wwg.Add(1)
		go func() {
			defer w.wwg.Done()
			defer func() {
				if p := recover(); p != nil {
					w.wmu.Lock()
					w.wpanics[sid] = fmt.Sprintf("writer of shard %d: %v\n%s", sid, p, debug.Stack())
					w.wmu.Unlock()
				}
			}()
			for k := 0; k < c14WriterN; k++ {
				ts := base + int64(k)
				rows, buf := c14Rows(w.mstName, ts)
				err := w.eng.WriteRows(c14DB, c14RP, 0, sid, rows, buf, nil)
				w.wmu.Lock()
				if err == nil {
					w.wacks[sid] = append(w.wacks[sid], ts)
				} else {
					w.werrs[sid]++
				}
				w.wmu.Unlock()
				if err != nil {
					return
				}
			}
		}()
	}
}

// ---- operations -----------------------------------------------------------------------------------

var c14BaseOps = []string{"T-1", "T0", "T+1", "TI", "H", "Hw", "A0", "A1/2", "A1", "A2", "Wn", "We", "Wo", "Cn", "Ce"}

// Fault variants of the retention run (environment choices at the catalogue-client seam):
//   H!k    handle() with the k-th catalogue call of this run failing, k = 1 .. c14MaxFaultPos
//   H!<M>  handle() with every call of one MetaClient method failing (S, I, DSG, DIG, PG, see c14CallKinds)
//   H!*    handle() with every catalogue call failing (catalogue unreachable for the whole run)
// A variant exists in a state only if its injection fires there (H!k: the run makes >= k calls; H!<M> and
// H!*: >= 2 calls fail, with one it is the positional variant); otherwise it is the plain H and is cut.
const c14MaxFaultPos = 24

// c14RefreshFaultOps: the variants that hit the two duration-refresh calls every run starts with. They are
// tried before the plain H: on the unchanged tree they end the run at once and mostly leave the state as it
// is, so the same live world then serves H (exploration order only, no effect on what is explored).
var c14RefreshFaultOps = []string{"H!1", "H!2", "H!*"}

var c14LaterFaultOps = func() []string {
	var ops []string
	for k := 3; k <= c14MaxFaultPos; k++ {
		ops = append(ops, fmt.Sprintf("H!%d", k))
	}
	for _, ck := range c14CallKinds {
		ops = append(ops, "H!"+ck.Short)
	}
	return ops
}()

// c14RunOps: every retention-run operation in exploration order
var c14RunOps = append(append(append(append([]string{}, c14RefreshFaultOps...), "H"), c14LaterFaultOps...), "Hw")

var c14Ops = func() []string {
	ops := []string{"T-1", "T0", "T+1", "TI"}
	ops = append(ops, c14RunOps...)
	return append(ops, "A0", "A1/2", "A1", "A2", "Wn", "We", "Wo", "Cn", "Ce")
}()

// c14ParseFault: the plan of a fault variant of H; ok=false for every other op.
func c14ParseFault(op string) (c14FaultPlan, bool) {
	if !strings.HasPrefix(op, "H!") {
		return c14FaultPlan{}, false
	}
	x := op[2:]
	if x == "*" {
		return c14FaultPlan{Kind: "*"}, true
	}
	for _, ck := range c14CallKinds {
		if ck.Short == x {
			return c14FaultPlan{Kind: ck.Method}, true
		}
	}
	k := 0
	if _, err := fmt.Sscanf(x, "%d", &k); err == nil && k > 0 && fmt.Sprintf("%d", k) == x {
		return c14FaultPlan{Pos: k}, true
	}
	panic("C14 harness: malformed fault op " + op)
}

func c14IsRun(op string) bool { return op == "H" || op == "Hw" || strings.HasPrefix(op, "H!") }

func c14FaultOpsIn(path []string) int {
	n := 0
	for _, op := range path {
		if strings.HasPrefix(op, "H!") {
			n++
		}
	}
	return n
}

func c14OpIndex(name string) int {
	for i, n := range c14Ops {
		if n == name {
			return i
		}
	}
	return -1
}

// oldestLive: the oldest group the model considers alive (the T ops aim at its expiry instant).
func (w *c14World) oldestLive() *c14Group {
	var o *c14Group
	for _, g := range w.groups {
		if g.Doomed || g.Gone {
			continue
		}
		if o == nil || g.End.Before(o.End) {
			o = g
		}
	}
	return o
}

func (w *c14World) sleepUntil(t time.Time) bool {
	d := t.Sub(time.Now())
	if d <= 0 {
		return false
	}
	time.Sleep(d)
	return true
}

// apply executes one operation; returns false if it is not applicable in this state (treated as a no-op).
func (w *c14World) apply(op string, rep *kit.Report) bool {
	now := time.Now()
	if plan, ok := c14ParseFault(op); ok {
		w.retentionRun(false, plan, rep)
		return true
	}
	switch op {
	case "T-1", "T0", "T+1":
		g := w.oldestLive()
		if g == nil || w.dm == 0 {
			return false
		}
		e := g.End.Add(w.dm)
		off := map[string]time.Duration{"T-1": -1, "T0": 0, "T+1": 1}[op]
		return w.sleepUntil(e.Add(off))
	case "TI":
		time.Sleep(c14Interval)
		return true
	case "H", "Hw":
		if op == "Hw" {
			any := false
			for _, g := range w.groups {
				if g.Loaded && !g.Gone && w.dbpt().Shard(g.ShardID) != nil {
					any = true
				}
			}
			if !any {
				return false // no open shard: identical to H
			}
		}
		w.retentionRun(op == "Hw", c14FaultPlan{}, rep)
		return true
	case "A0", "A1/2", "A1", "A2":
		d := c14Durs[map[string]int{"A0": 0, "A1/2": 1, "A1": 2, "A2": 3}[op]]
		if d == w.dm {
			return false
		}
		err := w.data.UpdateRetentionPolicy(c14DB, c14RP, &meta.RetentionPolicyUpdate{Duration: &d}, false)
		if err != nil {
			rep.Count("alter_rejected", 1)
			if d == 0 || d >= c14G {
				rep.Count("alter_rejected_unexpectedly", 1)
			}
			return true // state unchanged -> recognised as a no-op by the digest
		}
		w.mc.bump()
		if d != 0 && d < c14G {
			rep.Count("alter_below_group_duration_accepted", 1)
		}
		w.dm = d
		w.durLog = append(w.durLog, d)
		return true
	case "Wn", "Cn":
		if err := w.write(now, op == "Wn"); err != nil {
			w.setFail("write_error", fmt.Sprintf("%s at %s: %v", op, c14Rel(w.t0, now), err))
		}
		return true
	case "We", "Ce":
		if w.dm == 0 {
			return false
		}
		ts := now.Add(-w.dm) // the oldest timestamp the write path accepts (>= now - duration)
		if err := w.write(ts, op == "We"); err != nil {
			w.setFail("write_error", fmt.Sprintf("%s at %s: %v", op, c14Rel(w.t0, ts), err))
		}
		return true
	case "Wo":
		if w.dm == 0 {
			return false
		}
		ts := now.Add(-w.dm - c14G) // outside the window: its whole group may already be expired
		if err := w.write(ts, true); err != nil {
			w.setFail("write_error", fmt.Sprintf("%s at %s: %v", op, c14Rel(w.t0, ts), err))
		}
		return true
	}
	panic("C14 harness: unknown op " + op)
}

// retentionRun calls the real Service.handle and evaluates the run. plan: the catalogue calls of this run
// that are made to fail (zero value: none).
func (w *c14World) retentionRun(withWriters bool, plan c14FaultPlan, rep *kit.Report) {
	w.rec.reset(withWriters)
	w.mc.arm(plan)
	before := time.Now()
	dRun := w.dm
	var panicked string
	func() {
		defer func() {
			if p := recover(); p != nil {
				panicked = fmt.Sprintf("%v\n%s", p, debug.Stack())
			}
		}()
		w.handle()
	}()
	w.mc.disarm()
	if withWriters {
		w.wwg.Wait()
	}
	after := time.Now()
	w.runs++
	w.lastFired, w.lastCalls = w.mc.fired, len(w.mc.calls)
	w.lastByKind = map[string]int{}
	for _, c := range w.mc.calls {
		w.lastByKind[c.Method]++
	}
	faulted := w.mc.fired > 0
	if faulted {
		w.faultedRuns++
	}
	if panicked != "" {
		w.setFail("panic_in_retention_run", panicked)
		return
	}
	tRun := before
	if w.rec.called {
		tRun = w.rec.expiredAt
		if !tRun.Equal(before) {
			rep.Count("runs_clock_moved_before_decision", 1)
		}
	} else if !faulted {
		rep.Count("runs_without_expiry_evaluation", 1)
	}
	if !after.Equal(before) {
		rep.Count("runs_clock_moved", 1)
		rep.Max("max_run_clock_drift_ms", int64(after.Sub(before)/time.Millisecond))
	}
	w.lastRun = fmt.Sprintf("run#%d at %s (returned at %s) duration in force %s; catalogue calls %s; ExpiredShards -> %v (not loaded: %v), ExpiredIndexes -> %v, deletions %v, durations pushed %v",
		w.runs, c14Rel(w.t0, tRun), c14Rel(w.t0, after), dRun, w.mc.fmtCalls(), w.rec.expired, w.rec.nilIDs, w.rec.idxExpired, w.fmtDels(), w.rec.seenDur)
	if !w.rec.called {
		w.lastRun += "; the run ended before it asked for expired shards"
	}
	// model: which groups are expired at this run. A run with a failed catalogue call may delete what is
	// expired (and nothing else) but is not obliged to complete anything: it does not count towards the
	// "expired at two consecutive runs => gone" obligation.
	inS := map[*c14Group]bool{}
	for _, g := range w.groups {
		if g.Gone {
			continue
		}
		if dRun != 0 && g.End.Add(dRun).Before(tRun) { // end + duration < now, strictly
			inS[g] = true
			if !faulted {
				g.ExpiredRuns++
			}
		} else if !g.Doomed {
			g.ExpiredRuns = 0
		}
	}
	w.observe(true, !faulted, inS, tRun, dRun, rep)
	if faulted {
		for _, g := range w.groups {
			if g.Doomed && !g.Gone {
				g.Interrupted = true
			}
		}
	}
	// The deterministic part of the verdict comes first; what happened to the concurrent writers after it.
	// A writer that crashed inside a shard the run was deleting is counted, not judged: the statement is
	// silent about writes into expired data (and the symptom depends on the interleaving). A crash while
	// writing a shard that survives the run is a loss of service for unexpired data.
	if withWriters && w.fail == nil {
		for _, g := range w.groups {
			msg, ok := w.wpanics[g.ShardID]
			if !ok {
				continue
			}
			if g.Doomed || g.Gone || inS[g] {
				rep.Count("hw_writer_panics_in_shard_being_deleted", 1)
				continue
			}
			w.setFail("panic_writing_unexpired_shard_during_retention_run", msg)
			return
		}
	}
	// acknowledged concurrent writes into groups that survived the run are points of the model
	if withWriters && w.fail == nil {
		n := 0
		for _, g := range w.groups {
			n += len(w.wacks[g.ShardID])
			if g.Doomed || g.Gone {
				continue
			}
			for _, ts := range w.wacks[g.ShardID] {
				g.Points[ts] = true
			}
			if k := w.werrs[g.ShardID]; k > 0 {
				rep.Count("hw_write_errors_on_surviving_shard", int64(k)) // not acknowledged, so not a point; the statement is silent
			}
			if sh := w.dbpt().Shard(g.ShardID); sh != nil {
				c14IndexBarrier(sh)
			}
		}
		rep.Count("hw_concurrent_writes_acked", int64(n))
		w.observe(false, false, nil, time.Time{}, 0, rep) // the concurrent points must be readable too
	}
}

func (w *c14World) fmtDels() string {
	var s []string
	for _, d := range w.rec.dels {
		e := "ok"
		if d.Err != "" {
			e = d.Err
		}
		s = append(s, fmt.Sprintf("%s %d at %s: %s", d.Kind, d.ID, c14Rel(w.t0, d.At), e))
	}
	return "[" + strings.Join(s, "; ") + "]"
}

// ---- observation + oracle -------------------------------------------------------------------------

type c14Parts struct {
	CatLive    bool // catalogue: group present, DeletedAt zero, shard not marked
	CatPresent bool // catalogue: group entry present at all
	Eng        bool // engine: shard in the partition's shard map
	Data       bool // storage: data directory exists
	Wal        bool // storage: wal directory exists
	Index      bool // engine: index builder of the shard present
	IdxCatLive bool // catalogue: index group present and not marked deleted
}

func c14Exists(p string) bool {
	if p == "" {
		return false
	}
	_, err := os.Stat(p)
	return err == nil
}

func (w *c14World) parts(g *c14Group) c14Parts {
	var p c14Parts
	rp := w.rp()
	for i := range rp.ShardGroups {
		sg := &rp.ShardGroups[i]
		if sg.ID != g.SGID {
			continue
		}
		p.CatPresent = true
		marked := false
		for _, sh := range sg.Shards {
			if sh.MarkDelete {
				marked = true
			}
		}
		p.CatLive = sg.DeletedAt.IsZero() && !marked
	}
	for i := range rp.IndexGroups {
		ig := &rp.IndexGroups[i]
		if ig.ID != g.IGID {
			continue
		}
		marked := false
		for _, ii := range ig.Indexes {
			if ii.ID == g.IndexID && ii.MarkDelete {
				marked = true
			}
		}
		p.IdxCatLive = ig.DeletedAt.IsZero() && !marked
	}
	pt := w.dbpt()
	pt.mu.RLock()
	_, p.Eng = pt.shards[g.ShardID]
	_, p.Index = pt.indexBuilder[g.IndexID]
	pt.mu.RUnlock()
	p.Data = c14Exists(g.DataPath)
	p.Wal = c14Exists(g.WalPath)
	return p
}

// observe runs the oracle after a step. inRun: the step was a retention run; complete: it was a run
// without injected catalogue failure (only such a run counts for the removal obligation); inS: groups the
// model found expired at that run (instant tRun, duration dRun).
func (w *c14World) observe(inRun, complete bool, inS map[*c14Group]bool, tRun time.Time, dRun time.Duration, rep *kit.Report) {
	// what the user was told about the duration must be what the catalogue holds
	if cd := w.rp().Duration; cd != w.dm {
		w.setFail("alter_not_applied", fmt.Sprintf("the last successful ALTER set duration %s, the catalogue holds %s", w.dm, cd))
		return
	}
	for _, g := range w.groups {
		if g.Gone {
			continue
		}
		p := w.parts(g)
		// the index of a shard is part of its data (no index, no query): losing it is losing the shard
		intact := p.CatLive && (!g.Loaded || (p.Eng && p.Data && p.Index && (p.IdxCatLive || g.IdxBornMarked)))
		anything := p.CatPresent || (g.Loaded && (p.Eng || p.Data || p.Wal))
		if !intact && !g.Doomed {
			if inRun && inS[g] {
				g.Doomed = true // deletion started in a run at which the group was expired
			} else {
				w.setFail(w.classify(g, inRun, tRun, dRun), fmt.Sprintf("%s lost %s; %s", g.name(w), c14Missing(g, p), w.explain(g, inRun, tRun, dRun)))
				return
			}
		}
		if g.Doomed && !anything {
			g.Gone = true
			continue
		}
		if inRun && complete && g.ExpiredRuns >= 2 && anything {
			w.setFail("expired_shard_not_removed", fmt.Sprintf("%s was expired at %d consecutive fault-free retention runs and is still present: %s; %s",
				g.name(w), g.ExpiredRuns, c14Present(g, p), w.lastRun))
			return
		}
		if g.Doomed {
			continue
		}
		// alive: every acknowledged point must be readable, through the shard's index
		if g.Loaded {
			if miss, err := w.unreadable(g); err != nil {
				w.setFail("read_error", fmt.Sprintf("%s: %v", g.name(w), err))
				return
			} else if len(miss) > 0 {
				w.setFail("unexpired_point_unreadable", fmt.Sprintf("%s: %d of %d acknowledged points are not returned (first: %s); duration in force %s, now %s; %s",
					g.name(w), len(miss), len(g.Points), c14Rel(w.t0, time.Unix(0, miss[0])), w.dm, c14Rel(w.t0, time.Now()), w.lastRun))
				return
			}
			rep.Count("reads", 1)
		}
	}
}

func c14Missing(g *c14Group, p c14Parts) string {
	var s []string
	if !p.CatPresent {
		s = append(s, "catalogue entry (pruned)")
	} else if !p.CatLive {
		s = append(s, "catalogue liveness (DeletedAt/MarkDelete set)")
	}
	if g.Loaded {
		if !p.Eng {
			s = append(s, "engine shard")
		}
		if !p.Data {
			s = append(s, "data directory")
		}
		if !p.Index {
			s = append(s, "index (engine)")
		}
		if !p.IdxCatLive && !g.IdxBornMarked {
			s = append(s, "index group liveness (catalogue)")
		}
	}
	return strings.Join(s, " + ")
}

func c14Present(g *c14Group, p c14Parts) string {
	var s []string
	if p.CatPresent {
		if p.CatLive {
			s = append(s, "catalogue entry (live)")
		} else {
			s = append(s, "catalogue entry (marked deleted)")
		}
	}
	if g.Loaded {
		if p.Eng {
			s = append(s, "engine shard")
		}
		if p.Data {
			s = append(s, "data directory")
		}
		if p.Wal {
			s = append(s, "wal directory")
		}
	}
	return strings.Join(s, " + ")
}

// classify names the defect class of an illegitimate deletion.
func (w *c14World) classify(g *c14Group, inRun bool, tRun time.Time, dRun time.Duration) string {
	if !inRun {
		return "deleted_outside_retention_run"
	}
	if dRun == 0 {
		return "unlimited_policy_lost_data"
	}
	e := g.End.Add(dRun)
	if e.Equal(tRun) {
		return "deleted_at_exact_expiry_instant"
	}
	for _, d := range w.durLog[:len(w.durLog)-1] {
		if d != 0 && d != dRun && g.End.Add(d).Before(tRun) {
			return "deleted_under_superseded_duration"
		}
	}
	return "unexpired_shard_deleted"
}

func (w *c14World) explain(g *c14Group, inRun bool, tRun time.Time, dRun time.Duration) string {
	if !inRun {
		return "the step was not a retention run"
	}
	return fmt.Sprintf("group end %s + duration in force %s = %s, run decided at %s (deletable only strictly after); %s",
		c14Rel(w.t0, g.End), dRun, c14Rel(w.t0, g.End.Add(dRun)), c14Rel(w.t0, tRun), w.lastRun)
}

// unreadable dumps the shard through CreateCursor (production read path of a shard) and returns the
// acknowledged points that are missing.
func (w *c14World) unreadable(g *c14Group) ([]int64, error) {
	sh := w.dbpt().Shard(g.ShardID)
	if sh == nil {
		return nil, fmt.Errorf("shard not in engine")
	}
	s, ok := sh.(*shard)
	if !ok {
		return nil, fmt.Errorf("unexpected shard type %T", sh)
	}
	v := &vShard{sh: s}
	q := vQuery{Mst: w.mstName, Fields: []influxql.VarRef{{Val: "f", Type: influxql.Float}}, Ascending: true,
		Start: influxql.MinTime, End: influxql.MaxTime}
	got, _, err := v.Dump(q)
	if err != nil {
		return nil, err
	}
	have := map[int64]bool{}
	for k := range got {
		have[k.T] = true
	}
	var miss []int64
	for ts := range g.Points {
		if !have[ts] {
			miss = append(miss, ts)
		}
	}
	sort.Slice(miss, func(i, j int) bool { return miss[i] < miss[j] })
	return miss, nil
}

// ---- state digests --------------------------------------------------------------------------------

// digest: the complete harness-visible state (exact clock offset, catalogue, engine shard/index sets
// with the durations they hold, storage directories, model); used for no-op detection.
// abstract: the same with the clock reduced to its position relative to the expiry instants of the
// live groups (the reported state space).
func (w *c14World) digest() (exact, abstract string) {
	var b strings.Builder
	rp := w.rp()
	fmt.Fprintf(&b, "D=%s;", rp.Duration)
	for i := range rp.ShardGroups {
		sg := &rp.ShardGroups[i]
		fmt.Fprintf(&b, "sg%d[%s,%s)del=%v{", sg.ID, c14Rel(w.t0, sg.StartTime), c14Rel(w.t0, sg.EndTime), !sg.DeletedAt.IsZero())
		for _, sh := range sg.Shards {
			fmt.Fprintf(&b, "sh%d idx%d md=%v,", sh.ID, sh.IndexID, sh.MarkDelete)
		}
		b.WriteString("}")
	}
	for i := range rp.IndexGroups {
		ig := &rp.IndexGroups[i]
		fmt.Fprintf(&b, "ig%d[%s,%s)del=%v{", ig.ID, c14Rel(w.t0, ig.StartTime), c14Rel(w.t0, ig.EndTime), !ig.DeletedAt.IsZero())
		for _, ii := range ig.Indexes {
			fmt.Fprintf(&b, "i%d md=%v,", ii.ID, ii.MarkDelete)
		}
		b.WriteString("}")
	}
	pt := w.dbpt()
	pt.mu.RLock()
	var sids, iids []uint64
	for id := range pt.shards {
		sids = append(sids, id)
	}
	for id := range pt.indexBuilder {
		iids = append(iids, id)
	}
	sort.Slice(sids, func(i, j int) bool { return sids[i] < sids[j] })
	sort.Slice(iids, func(i, j int) bool { return iids[i] < iids[j] })
	b.WriteString("eng{")
	for _, id := range sids {
		fmt.Fprintf(&b, "sh%d d=%s,", id, pt.shards[id].GetDuration().Duration)
	}
	b.WriteString("}idx{")
	for _, id := range iids {
		fmt.Fprintf(&b, "i%d d=%s,", id, pt.indexBuilder[id].GetDuration())
	}
	b.WriteString("}")
	pt.mu.RUnlock()
	b.WriteString("fs{")
	for _, g := range w.groups {
		if g.Loaded {
			fmt.Fprintf(&b, "sh%d:%v%v,", g.ShardID, c14Exists(g.DataPath), c14Exists(g.WalPath))
		}
	}
	b.WriteString("}model{")
	for _, g := range w.groups {
		fmt.Fprintf(&b, "%s L=%v doomed=%v gone=%v intr=%v runs=%d pts=%d;", g.name(w), g.Loaded, g.Doomed, g.Gone, g.Interrupted, g.ExpiredRuns, len(g.Points))
	}
	fmt.Fprintf(&b, "}dm=%s;svc{%s}", w.dm, w.hidden())
	body := b.String()
	now := time.Now()
	exact = fmt.Sprintf("now=%s;%s", c14Rel(w.t0, now), body)
	// clock bucket: for every live group and every non-zero duration of the menu, the relation of now to end+d
	var cb strings.Builder
	for _, g := range w.groups {
		if g.Gone {
			continue
		}
		for _, d := range c14Durs[1:] {
			e := g.End.Add(d)
			var c byte
			switch diff := now.Sub(e); {
			case diff < -1:
				c = '<'
			case diff == -1:
				c = '-'
			case diff == 0:
				c = '='
			case diff == 1:
				c = '+'
			default:
				c = '>'
			}
			cb.WriteByte(c)
		}
		cb.WriteByte('|')
	}
	abstract = "clock=" + cb.String() + ";" + body
	return exact, abstract
}

// ---- running one history --------------------------------------------------------------------------

type c14Case struct {
	D0   string   `json:"d0"`
	Init string   `json:"init"`
	Ops  []string `json:"ops"`
}

func (c c14Case) key() string { return c.D0 + "/" + c.Init + ": " + strings.Join(c.Ops, " ") }

// doStep: apply + oracle + digests. Returns changed=false for a no-op (state digest unchanged).
func (w *c14World) doStep(op string, rep *kit.Report) (changed bool) {
	before, _ := w.digest()
	w.hist = append(w.hist, op)
	applicable := w.apply(op, rep)
	if !applicable {
		w.hist = w.hist[:len(w.hist)-1]
		return false
	}
	if w.fail == nil && !c14IsRun(op) {
		w.observe(false, false, nil, time.Time{}, 0, rep)
	}
	if w.fail != nil {
		return true
	}
	after, _ := w.digest()
	if after == before {
		w.hist = w.hist[:len(w.hist)-1]
		return false
	}
	return true
}

// c14RunCase executes one complete case from scratch (replay, determinism re-check). Returns the failure.
func c14RunCase(dir string, c c14Case, rep *kit.Report) (*c14Fail, error) {
	w, err := c14NewWorld(dir, c14DurIndex(c.D0), c.Init, rep)
	defer func() {
		if w != nil {
			w.close()
		}
	}()
	if err != nil {
		return nil, err
	}
	w.observe(false, false, nil, time.Time{}, 0, rep)
	for _, op := range c.Ops {
		if w.fail != nil {
			break
		}
		w.doStep(op, rep)
	}
	return w.fail, nil
}

// ---- explorer -------------------------------------------------------------------------------------

type c14Explorer struct {
	rep      *kit.Report
	scratch  string
	maxLen   int      // length of the longest history (the last operation is a retention run)
	inner    []string // alphabet of the positions before the last
	last     []string // alphabet of the last position
	d0       int
	init     string
	failed   map[string]bool
	itemBase int
	stop     bool
	// second phase (longer histories over the core alphabet): transitions of positions < countFrom, and
	// retention runs at position countFrom, were already executed and counted by the first phase
	countFrom int
	// deviation bound: at most maxFaulted retention runs with an injected catalogue failure per history
	maxFaulted int
	// the subtrees below the first dealDepth operations are dealt to the workers (2 quick, 3 thorough: the deeper
	// tree of thorough is very uneven below some second operations)
	dealDepth int
}

// replay builds a fresh world and re-executes path (already validated steps).
func (x *c14Explorer) replay(path []string) *c14World {
	x.rep.Count("executions", 1)
	w, err := c14NewWorld(filepath.Join(x.scratch, "h"), x.d0, x.init, x.rep)
	if err != nil {
		panic(fmt.Sprintf("C14 harness: cannot build world %s/%s: %v", c14DurNames[x.d0], x.init, err))
	}
	w.observe(false, false, nil, time.Time{}, 0, x.rep)
	for _, op := range path {
		if w.fail != nil {
			break
		}
		if !w.doStep(op, x.rep) && w.fail == nil {
			panic(fmt.Sprintf("C14 harness: nondeterministic replay: step %q of %s/%s %v was a state change before and is a no-op now",
				op, c14DurNames[x.d0], x.init, path))
		}
	}
	if w.fail != nil {
		// a prefix that passed before fails now: flaky
		panic(fmt.Sprintf("C14 harness: nondeterministic replay of %s/%s %v: %s: %s", c14DurNames[x.d0], x.init, path, w.fail.Kind, w.fail.Detail))
	}
	return w
}

// owns: the transition path+op is counted (and its state recorded) by exactly one worker. Subtrees below
// the first dealDepth operations are dealt to the workers; the transitions above are executed by every
// worker (to get there) and counted by the one the same numbering assigns them to.
func (x *c14Explorer) owns(path []string, next string) bool {
	if len(path) >= x.dealDepth {
		return true
	}
	n := 0
	for _, op := range path {
		n = n*len(c14Ops) + c14OpIndex(op)
	}
	n = n*len(c14Ops) + c14OpIndex(next)
	for i := len(path) + 1; i < x.dealDepth; i++ { // numbering of the level above = first child of the level below
		n *= len(c14Ops)
	}
	return kit.Mine(x.itemBase + n)
}

// visit explores every extension of path; w is the live world after path (owned, closed here).
//
// Fault variants of the retention run: the number N of catalogue calls the run makes from this state and
// their methods are taken from the fault-free H executed from the same state in this loop (the recording
// run); then H!1 .. H!N and the all-of-one-method variants with >= 2 such calls are executed, each on the
// same state. Where the recording is not at hand (H of this state belongs to another worker) a variant is
// executed and dropped if its injection did not fire (it was the plain H then).
func (x *c14Explorer) visit(w *c14World, path []string) {
	alphabet := x.inner
	if len(path) == x.maxLen-1 {
		alphabet = x.last
	}
	nCalls := -1 // catalogue calls of the fault-free run from this state; -1: not known yet
	var byKind map[string]int
	faultBudget := x.maxFaulted - c14FaultOpsIn(path)
	for _, op := range alphabet {
		if x.stop || x.rep.Expired() {
			x.stop = true
			break
		}
		plan, isFault := c14ParseFault(op)
		if isFault {
			if faultBudget <= 0 {
				continue
			}
			if nCalls >= 0 {
				switch {
				case plan.Pos > nCalls:
					continue
				case plan.Kind == "*" && nCalls < 2:
					continue
				case plan.Kind != "" && plan.Kind != "*" && byKind[plan.Kind] < 2:
					continue
				}
			}
		}
		if len(path) == x.dealDepth-1 && !x.owns(path, op) {
			continue // subtrees below the first dealDepth operations are dealt to the workers
		}
		counted := x.owns(path, op)
		if len(path) < x.countFrom || (x.countFrom > 0 && len(path) == x.countFrom && c14IsRun(op)) {
			counted = false
		}
		if w == nil {
			w = x.replay(path)
		}
		changed := w.doStep(op, x.rep)
		if op == "H" && w.fail == nil {
			nCalls, byKind = w.lastCalls, w.lastByKind
			x.rep.Max("max_catalogue_calls_per_run", int64(nCalls))
			if nCalls > c14MaxFaultPos {
				x.rep.Cut(fmt.Sprintf("a retention run made %d catalogue calls, failing positions are enumerated up to %d only", nCalls, c14MaxFaultPos))
			}
		}
		if isFault && (w.lastFired == 0 || (plan.Kind != "" && w.lastFired < 2)) {
			// the variant does not exist in this state: the run was the plain H (or the positional variant), whose
			// verdict, if it failed, is reported under that name
			x.rep.Count("fault_variants_executed_but_not_applicable", 1)
			if plan.Pos > 0 && (nCalls < 0 || plan.Pos-1 < nCalls) {
				nCalls = plan.Pos - 1
				if byKind == nil {
					byKind = map[string]int{} // unknown: the method variants are tried by execution
					for _, ck := range c14CallKinds {
						byKind[ck.Method] = 2
					}
				}
			}
			if changed || w.fail != nil {
				w.close()
				w = nil
			}
			continue
		}
		if counted {
			x.rep.Eval(1)
			x.rep.Count("transitions", 1)
			x.rep.Count("traces_validated_against_impl", 1)
			if isFault {
				x.countFault(w, plan, changed)
			}
		}
		if w.fail != nil {
			x.report(w, append(append([]string{}, path...), op))
			w.close()
			w = nil
			continue
		}
		if !changed {
			if counted {
				x.rep.Count("noop_pruned", 1)
			}
			continue // same state: the live world serves the next sibling
		}
		if counted {
			if c14IsRun(op) {
				x.rep.Count("retention_runs", 1)
			}
			_, abs := w.digest()
			if x.rep.DistinctNontrivial(kit.Hash(w.root, abs)) {
				x.rep.Sample(6, map[string]any{"root": w.root, "history": strings.Join(w.hist, " "), "state": abs, "last_run": w.lastRun})
			}
		}
		x.rep.Max("max_history_len", int64(len(path)+1))
		if len(path)+1 < x.maxLen {
			x.visit(w, append(append([]string{}, path...), op))
		} else {
			x.rep.Count("complete_histories", 1)
			w.close()
		}
		w = nil
	}
	if w != nil {
		w.close()
	}
}

// countFault: evidence counters of one faulted retention run (a counted transition).
func (x *c14Explorer) countFault(w *c14World, plan c14FaultPlan, changed bool) {
	x.rep.Count("faulted_runs", 1)
	if changed {
		x.rep.Count("faulted_runs_state_changing", 1)
	}
	if !w.rec.called {
		x.rep.Count("faulted_runs_ended_before_expiry_evaluation", 1)
	} else if len(w.rec.dels) > 0 {
		x.rep.Count("faulted_runs_that_went_on_to_delete", 1)
	}
	if plan.Pos > 0 {
		x.rep.Max("max_fault_position", int64(plan.Pos))
		for i, c := range w.mc.calls {
			if c.Failed { // a distinct failing call position = (position in the run, method)
				x.rep.Count(fmt.Sprintf("fault_site_%02d_%s", i+1, c.Method), 1)
				x.rep.Count("fault_call_"+c.Method, 1)
			}
		}
	} else {
		x.rep.Count("faulted_runs_every_call_of_one_method", 1)
		x.rep.Count("fault_method_"+strings.ReplaceAll(plan.Kind, "*", "ALL"), 1)
	}
}

// report re-executes a failing history 5 times from scratch; it is a violation only if it fails every time.
func (x *c14Explorer) report(w *c14World, ops []string) {
	c := c14Case{D0: c14DurNames[x.d0], Init: x.init, Ops: ops}
	f := w.fail
	sig := f.Kind + "|" + c.key()
	if x.failed[sig] {
		return
	}
	x.failed[sig] = true
	same := 0
	for i := 0; i < 5; i++ {
		f2, err := c14RunCase(filepath.Join(x.scratch, "recheck"), c, x.rep)
		if err != nil {
			panic(fmt.Sprintf("C14 harness: re-execution of %s failed to start: %v", c.key(), err))
		}
		if f2 != nil { // it has to fail every time; with concurrent writers the first symptom may differ
			same++
			if f2.Kind != f.Kind {
				x.rep.Count("recheck_failed_with_other_kind", 1)
			}
		}
	}
	if same != 5 {
		panic(fmt.Sprintf("C14 harness: history %s failed with %s once and %d/5 times on re-execution: flaky, not reported as a violation\n%s",
			c.key(), f.Kind, same, f.Detail))
	}
	x.rep.Violation(f.Kind, c.key(), f.Detail, c)
}

// ---- part B: the expiry decision table ---------------------------------------------------------------

// c14Table checks Engine.ExpiredShards directly (open shard: shard.IsExpired; shard not loaded:
// nilShardIsExpired) for every duration of {0, 1ns, G/2, G, 2G, 3G} pushed through the real
// UpdateShardDurationInfo, at every clock position end+d-1ns, end+d, end+d+1ns (the catalogue refuses
// durations below G, the engine must still decide them correctly).
func c14Table(rep *kit.Report, scratch string) {
	durs := []time.Duration{0, 1, c14G / 2, c14G, 2 * c14G, 3 * c14G}
	dir := filepath.Join(scratch, "table")
	w, err := c14NewWorld(dir, 0, "open", rep)
	if err != nil {
		panic(fmt.Sprintf("C14 harness: table world: %v", err))
	}
	defer w.close()
	// a second engine on the same catalogue that has not loaded the shard
	eng2 := c14NewEngine(filepath.Join(scratch, "table2"), w.data)
	defer func() { _ = eng2.Close(); _ = os.RemoveAll(filepath.Join(scratch, "table2")) }()
	g := w.groups[0]
	var instants []time.Time
	for _, d := range durs[1:] {
		for _, off := range []time.Duration{-1, 0, 1} {
			instants = append(instants, g.End.Add(d+off))
		}
	}
	instants = append(instants, g.End.Add(-1), g.End.Add(6*c14G))
	sort.Slice(instants, func(i, j int) bool { return instants[i].Before(instants[j]) })
	for _, at := range instants {
		w.sleepUntil(at)
		now := time.Now()
		for _, d := range durs {
			want := d != 0 && g.End.Add(d).Before(now)
			for _, mode := range []string{"open", "not-loaded"} {
				e := w.eng
				if mode == "not-loaded" {
					e = eng2
				}
				info := meta.ShardDurationInfo{
					Ident: meta.ShardIdentifier{ShardID: g.ShardID, ShardGroupID: g.SGID, Policy: c14RP, OwnerDb: c14DB, OwnerPt: 0,
						StartTime: g.Start, EndTime: g.End},
					DurationInfo: meta.DurationDescriptor{Duration: d, Tier: util.Hot},
				}
				nilMap := map[uint64]*meta.ShardDurationInfo{}
				if err := e.UpdateShardDurationInfo(&info, &nilMap); err != nil {
					panic(fmt.Sprintf("C14 harness: UpdateShardDurationInfo: %v", err))
				}
				if (mode == "not-loaded") != (len(nilMap) == 1) {
					// how the engine books a shard it has not loaded is its own business (a tree that does not put a
					// never-expiring shard into the map is not wrong for that); the decision below is what is judged
					rep.Count("table_nil_map_not_as_expected", 1)
				}
				res := e.ExpiredShards(&nilMap)
				got := false
				for _, id := range res {
					if id.ShardID == g.ShardID {
						got = true
					}
				}
				rep.Eval(1)
				rep.Count("table_decisions", 1)
				rep.DistinctNontrivial(kit.Hash("table", mode, d.String(), c14Rel(w.t0, now)))
				if got != want {
					kind := "expiry_decision_mismatch"
					switch {
					case d == 0:
						kind = "unlimited_policy_lost_data"
					case got && g.End.Add(d).Equal(now):
						kind = "deleted_at_exact_expiry_instant"
					case got:
						kind = "unexpired_shard_deleted"
					case !got:
						kind = "expired_shard_not_removed"
					}
					rep.Violation(kind, fmt.Sprintf("table: %s shard, duration %s, now = end+duration%+dns", mode, d, int64(now.Sub(g.End.Add(d)))),
						fmt.Sprintf("ExpiredShards reports expired=%v, specification (duration != 0 and end+duration < now) says %v; end=%s now=%s",
							got, want, c14Rel(w.t0, g.End), c14Rel(w.t0, now)), c14Case{D0: "table"})
				}
			}
		}
	}
}

// ---- test entry -----------------------------------------------------------------------------------

func TestVerifC14(t *testing.T) {
	rep := kit.NewReport("C14")
	meta.DataLogger = zap.NewNop()
	logger.SetLogger(zap.NewNop())
	log = logger.NewLogger(errno.ModuleStorageEngine).SetZapLogger(zap.NewNop())
	stat.StoreTaskInstance = stat.NewStoreTaskDuration(false)
	reportLoadFrequency = 20 * time.Minute // a once-per-second load report of every partition is not part of the property
	if pf := kit.Getenv("VERIF_CPUPROF", ""); pf != "" { // development aid (started outside the bubble)
		if f, err := os.Create(pf); err == nil {
			_ = pprof.StartCPUProfile(f)
		}
	}
	synctest.Test(t, func(t *testing.T) {
		c14Main(t, rep)
		pprof.StopCPUProfile()
		rep.Save()
		os.Exit(0) // one bubble per process (package-global compaction worker); leftover goroutines sit in the bubble
	})
}

func c14Main(t *testing.T, rep *kit.Report) {
	// The package-global compaction worker was started at package init, outside the bubble, and would
	// touch the shards of the bubble from there (fatal in synctest). A worker started here, inside the
	// bubble, does the same job on the virtual clock; the old one keeps running with no shards.
	compWorker = NewCompactor()
	scratch := kit.Scratch()
	if kit.ReplayPath() != "" {
		var c c14Case
		if err := kit.LoadReplay(&c); err != nil {
			t.Fatal(err)
		}
		if c.D0 == "table" {
			c14Table(rep, scratch)
			return
		}
		f, err := c14RunCase(filepath.Join(scratch, "replay"), c, rep)
		if err != nil {
			t.Fatal(err)
		}
		rep.Eval(int64(len(c.Ops)))
		if f != nil {
			rep.Violation(f.Kind, c.key(), f.Detail, c)
		}
		return
	}
	maxLen := 4
	if kit.Thorough() {
		maxLen = 5
	}
	if d := kit.Getenv("VERIF_DEPTH", ""); d != "" {
		fmt.Sscanf(d, "%d", &maxLen)
	}
	maxFaulted := 1 // deviation bound: retention runs with an injected catalogue failure per history
	if d := kit.Getenv("VERIF_C14_FAULTED_RUNS", ""); d != "" {
		fmt.Sscanf(d, "%d", &maxFaulted)
	}
	lastOps := c14RunOps
	dealDepth := 2
	if kit.Thorough() {
		dealDepth = 3
	}
	if dealDepth > maxLen-1 {
		dealDepth = maxLen - 1
	}
	if dealDepth < 1 {
		dealDepth = 1
	}
	rep.Count("max_depth", 0)
	rep.Max("max_depth", int64(maxLen))
	rep.Count("max_faulted_runs_per_history", 0)
	rep.Max("max_faulted_runs_per_history", int64(maxFaulted))
	rep.Note("alphabet=%v + fault variants of H: H!k (the k-th catalogue call of the run fails, k = 1..number of calls the run makes, cap %d), H!S/H!I/H!DSG/H!DIG/H!PG (every call of one MetaClient method fails), H!* (every call fails); at most %d faulted runs per history; histories: every sequence of <= %d operations followed by a retention run (H, Hw or a fault variant), oracle after every step; roots: initial duration {G,2G,0} x first shard {open, not loaded}; G=%s interval=%s",
		c14BaseOps, c14MaxFaultPos, maxFaulted, maxLen-1, c14G, c14Interval)
	if kit.Mine(0) {
		c14Table(rep, scratch)
	}
	// rejected root: a policy shorter than its shard-group duration cannot be created
	if kit.Mine(1) {
		if _, err := c14NewData(c14G / 2); err == nil {
			rep.Count("create_below_group_duration_accepted", 1)
		} else {
			rep.Count("create_below_group_duration_rejected", 1)
		}
		rep.Eval(1)
	}
	item := 0
	for _, d0 := range []int{2, 3, 0} {
		for _, init := range []string{"open", "cat"} {
			x := &c14Explorer{rep: rep, scratch: scratch, maxLen: maxLen, inner: c14Ops, last: lastOps,
				d0: d0, init: init, failed: map[string]bool{}, itemBase: item, maxFaulted: maxFaulted, dealDepth: dealDepth}
			item += len(c14Ops) * len(c14Ops) * len(c14Ops)
			x.visit(nil, nil)
			if x.stop {
				return
			}
		}
	}
	// thorough, second phase: one operation more over the core alphabet (clock, retention run, the two
	// accepted finite durations and unlimited, writes at now and at the edge of the window)
	if kit.Thorough() && kit.Getenv("VERIF_DEPTH", "") == "" {
		core := []string{"T0", "T+1", "TI", "H", "A0", "A1", "A2", "Wn", "We"}
		coreLast := append(append([]string{}, c14RefreshFaultOps...), "H", "Hw")
		rep.Note("second phase: every sequence of <= %d operations of %v followed by a retention run of %v (fault variants: the duration-refresh calls only)", maxLen, core, coreLast)
		rep.Max("max_depth_core", int64(maxLen+1))
		for _, d0 := range []int{2, 3, 0} {
			for _, init := range []string{"open", "cat"} {
				x := &c14Explorer{rep: rep, scratch: scratch, maxLen: maxLen + 1, inner: core, last: coreLast,
					d0: d0, init: init, failed: map[string]bool{}, itemBase: item, countFrom: maxLen - 1, maxFaulted: maxFaulted, dealDepth: dealDepth}
				item += len(c14Ops) * len(c14Ops) * len(c14Ops)
				x.visit(nil, nil)
				if x.stop {
					return
				}
			}
		}
	}
}
