//go:build verif

package engine

import (
	"fmt"
	"os"
	"path/filepath"
	"strings"
	"testing"
	"time"

	"github.com/openGemini/openGemini/engine/immutable"
	"github.com/openGemini/openGemini/lib/config"
	"github.com/openGemini/openGemini/lib/cpu"
	kit "github.com/openGemini/openGemini/lib/verifkit"
	"github.com/openGemini/openGemini/lib/verifkit/crashfs"
)

// C03: reorganisations change no answer and are crash-atomic.
// A case = (prefix history that builds an input layout, one reorganisation op). The prefix runs
// unrecorded; the reorganisation runs under the crash recorder; every crash image is reopened with the
// real recovery and must show exactly the contents the shard had before the reorganisation began;
// reopening the recovered shard a second time must change nothing.

type c03Case struct {
	Prefix []string `json:"prefix"`
	Reorg  string   `json:"reorg"`
	Depth2 bool     `json:"depth2"`
	// Piece > 0: size of the pieces in which an out-of-order merge copies the chunk of an untouched series (default 512 KiB)
	Piece int `json:"piece,omitempty"`
	// injected level layout (c03_inject_test.go): Inject = true, Levels = level of the k-th ordered file, Parquet =
	// [data.parquet-task] tssp-to-parquet-level during the reorganisation and the recoveries, Prefix unused
	Inject  bool  `json:"inject,omitempty"`
	Levels  []int `json:"levels,omitempty"`
	Parquet int   `json:"parquet_level,omitempty"`
}

func (c c03Case) key() string {
	if c.Inject {
		return fmt.Sprintf("injected levels %v, tssp-to-parquet-level %d | %s", c.Levels, c.Parquet, c.Reorg)
	}
	k := strings.Join(c.Prefix, " ") + " | " + c.Reorg
	if c.Piece > 0 {
		k += fmt.Sprintf(" [copy pieces of %d bytes]", c.Piece)
	}
	return k
}

var c03Reorgs = []string{"LC", "FC", "MO", "MF"}

// c03Leftovers lists not-yet-committed / temporary data files below the shard's data directory.
func c03Leftovers(root string) []string {
	var out []string
	_ = filepath.Walk(filepath.Join(root, "data"), func(p string, info os.FileInfo, err error) error {
		if err != nil || info.IsDir() {
			return nil
		}
		b := filepath.Base(p)
		if strings.HasSuffix(b, ".init") || strings.HasSuffix(b, ".tmp") {
			rel, _ := filepath.Rel(root, p)
			out = append(out, rel)
		}
		return nil
	})
	return out
}

var c03DirSeq int

// c03Run returns false if the reorganisation was a no-op for this layout.
func c03Run(rep *kit.Report, scratch string, c c03Case, seenInputs map[uint64]bool) bool {
	cpu.SetCpuNum(2, 1)
	immutable.VerifCopyPieceSize = c.Piece
	defer func() { immutable.VerifCopyPieceSize = 0 }()
	c03DirSeq++ // a directory of its own per case (path-keyed process caches of the engine; see c01History)
	root := vMkdir(scratch, fmt.Sprintf("live%d", c03DirSeq)) + "/"
	imgRoot := vMkdir(scratch, "img")
	work := strings.TrimSuffix(root, "/")
	defer func() {
		_ = os.RemoveAll(root)
		_ = os.RemoveAll(imgRoot)
	}()
	v, err := vOpenShard(work)
	if err != nil {
		rep.Violation("harness_open_error", c.key(), err.Error(), c)
		return false
	}
	defer func() { _ = v.Close() }()
	m := vModel{}
	for i, op := range c.Prefix {
		if err := vApply(v, m, op, i+1); err != nil {
			rep.Violation("op_error", c.key(), fmt.Sprintf("prefix op %d %s: %v", i+1, op, err), c)
			return false
		}
	}
	got, err := vFullDump(v)
	if err != nil {
		rep.Violation("read_error", c.key(), err.Error(), c)
		return false
	}
	if diffs := vCompareFull(m, got); len(diffs) > 0 {
		rep.Violation("live_mismatch_before_reorg", c.key(), strings.Join(diffs, "; "), c)
		return false
	}
	layoutBefore := v.Layout()
	if seenInputs != nil {
		h := kit.Hash(m.Digest(), vLayoutShape(layoutBefore), c.Reorg, fmt.Sprint(c.Piece))
		if seenInputs[h] {
			rep.Count("equivalent_inputs_skipped", 1)
			return false
		}
		seenInputs[h] = true
	}
	rec := &vRecorder{root: root, imgRoot: imgRoot, seen: map[string]bool{}}
	vRec = rec
	rec.on, rec.inFlight = true, true
	panics0, _ := immutable.VerifC03CompactPanics()
	err = vApply(v, m, c.Reorg, len(c.Prefix)+1)
	rec.on = false
	vRec = nil
	if n, msg := immutable.VerifC03CompactPanics(); n > panics0 {
		rep.Eval(1)
		rep.Count("cases", 1)
		rep.Violation("compaction_task_panicked", c.key(), msg, c)
		return true
	}
	if err != nil {
		rep.Violation("op_error", c.key(), fmt.Sprintf("reorg %s: %v", c.Reorg, err), c)
		return false
	}
	layoutAfter := v.Layout()
	if layoutAfter == layoutBefore {
		rep.Count("reorg_not_applicable", 1)
		return false
	}
	rep.Count("cases", 1)
	rep.Count("cases_"+c.Reorg, 1)
	rep.Count("mutations", int64(rec.nMut))
	rep.Count("torn_points", int64(rec.nTorn))
	// (a) run to completion: same answers
	got, err = vFullDump(v)
	rep.Eval(1)
	if err != nil {
		rep.Violation("read_error", c.key(), err.Error(), c)
		return true
	}
	if diffs := vCompareFull(m, got); len(diffs) > 0 {
		rep.Violation("reorg_changed_answer", c.key(), fmt.Sprintf("%s -> %s: %s", vLayoutShape(layoutBefore), vLayoutShape(layoutAfter), strings.Join(diffs, "; ")), c)
		return true
	}
	rep.Sample(6, map[string]any{"prefix": c.Prefix, "reorg": c.Reorg, "from": vLayoutShape(layoutBefore), "to": vLayoutShape(layoutAfter), "crash_images": len(rec.images)})
	_ = v.Close()
	if rec.err != nil {
		rep.Violation("harness_freeze_error", c.key(), rec.err.Error(), c)
		return true
	}
	// (b) every crash image of the reorganisation
	for _, im := range rec.images {
		if rep.Expired() {
			return true
		}
		c03Recover(rep, c, im, m, work, 1)
	}
	return true
}

func c03Recover(rep *kit.Report, c c03Case, im vImage, m vModel, work string, depth int) {
	_ = os.RemoveAll(work)
	if _, err := crashfs.CopyTree(im.Dir, work); err != nil {
		rep.Violation("harness_copy_error", c.key(), err.Error(), c)
		return
	}
	var rec2 *vRecorder
	if c.Depth2 && depth == 1 {
		rec2 = &vRecorder{root: work + "/", imgRoot: work + ".img2", seen: map[string]bool{}, on: true, inFlight: true}
		_ = os.RemoveAll(rec2.imgRoot)
		vRec = rec2
	}
	t0 := time.Now()
	v, err := vOpenShard(work)
	if rec2 != nil {
		rec2.on = false
		vRec = nil
	}
	rep.Count("ns_open", int64(time.Since(t0)))
	rep.Eval(1)
	rep.Count(fmt.Sprintf("recoveries_depth%d", depth), 1)
	where := im.String()
	rep.DistinctNontrivial(kit.Hash(c.key(), im.Dir, fmt.Sprint(depth)))
	if err != nil {
		rep.Violation("recovery_fails", c.key(), fmt.Sprintf("crash %s: reopen failed: %v", where, err), c)
		return
	}
	got, err := vFullDump(v)
	if err != nil {
		_ = v.Close()
		kind := "recovery_read_error"
		if strings.Contains(err.Error(), "stream shape") {
			kind = "duplicate_or_unsorted_rows_after_crash_in_reorg"
		}
		rep.Violation(kind, c.key(), fmt.Sprintf("crash %s: %v", where, err), c)
		return
	}
	if diffs := vCompareFull(m.Clone(), got); len(diffs) > 0 {
		_ = v.Close()
		rep.Violation(c03Classify(diffs), c.key(), fmt.Sprintf("crash %s: %s", where, strings.Join(diffs, "; ")), c)
		return
	}
	layout1 := v.Layout()
	if kind, detail := c03CheckWalkAfterRecovery(v); kind != "" {
		_ = v.Close()
		rep.Violation(kind, c.key(), fmt.Sprintf("crash %s: %s", where, detail), c)
		return
	}
	if left := c03Leftovers(work); len(left) > 0 {
		rep.Count("images_with_ignored_leftover_files", 1)
	}
	// idempotence: a second clean reopen changes neither the answers nor the set of loaded files
	if err := v.Reopen(); err != nil {
		rep.Violation("second_reopen_fails", c.key(), fmt.Sprintf("crash %s: %v", where, err), c)
		return
	}
	got2, err := vFullDump(v)
	layout2 := v.Layout()
	_ = v.Close()
	if err != nil {
		rep.Violation("recovery_read_error", c.key(), fmt.Sprintf("crash %s (second reopen): %v", where, err), c)
		return
	}
	if diffs := vCompareFull(m.Clone(), got2); len(diffs) > 0 {
		rep.Violation("second_reopen_changes_answer", c.key(), fmt.Sprintf("crash %s: %s", where, strings.Join(diffs, "; ")), c)
		return
	}
	if layout1 != layout2 {
		rep.Violation("second_reopen_changes_files", c.key(), fmt.Sprintf("crash %s: loaded files %s then %s", where, layout1, layout2), c)
		return
	}
	if rec2 != nil {
		if rec2.err != nil {
			rep.Violation("harness_freeze_error", c.key(), rec2.err.Error(), c)
		}
		rep.Count("depth2_images", int64(len(rec2.images)))
		for _, im2 := range rec2.images {
			im2.Kind = "recovery:" + im2.Kind
			c03Recover(rep, c, im2, m, work, 2)
		}
		_ = os.RemoveAll(rec2.imgRoot)
	}
}

func c03Classify(diffs []string) string {
	all := strings.Join(diffs, ";")
	switch {
	case strings.Contains(all, "missing row") || strings.Contains(all, "missing ("):
		return "rows_lost_after_crash_in_reorg"
	case strings.Contains(all, "unexpected row") || strings.Contains(all, "unexpected field"):
		return "rows_invented_after_crash_in_reorg"
	default:
		return "rows_altered_after_crash_in_reorg"
	}
}

func TestVerifC03(t *testing.T) {
	rep := kit.NewReport("C03")
	defer rep.Save()
	vSetupEngineKnobs()
	vInstallRecorder()
	// compact-recovery = true is the product's default (a test binary starts from the zero value): a panic inside a
	// compaction task is recovered and logged; the log hook turns it into a violation instead of a dead worker
	config.GetStoreConfig().Compact.CompactRecovery = true
	immutable.VerifC03WatchCompactPanics()
	scratch := kit.Scratch()
	if kit.ReplayPath() != "" {
		var c c03Case
		if err := kit.LoadReplay(&c); err != nil {
			t.Fatal(err)
		}
		if c.Inject {
			c03RunInjected(rep, scratch, c, nil)
		} else {
			c03Run(rep, scratch, c, nil)
		}
		return
	}
	ops := []string{"Wa", "Wc", "Wd", "We", "Wh", "F"}
	maxLen := 4
	if kit.Thorough() {
		ops = []string{"Wa", "Wb", "Wc", "Wd", "We", "Wf", "Wh", "F"}
		maxLen = 5
	}
	rep.Note("prefix alphabet=%v max prefix length=%d reorgs=%v", ops, maxLen, c03Reorgs)
	seen := map[uint64]bool{}
	idx := 0
	inject := os.Getenv("VERIF_C03_INJECT") != "0"
	if inject {
		// complete runs of the injected level layouts first (cheap); their crash enumeration comes last
		c03InjectedFamily(rep, scratch, &idx, false)
		defer c03InjectedFamily(rep, scratch, &idx, true)
	}
	if os.Getenv("VERIF_C03_ONLY") == "inject" { // development aid: the injected family alone
		return
	}
	for l := 2; l <= maxLen; l++ {
		kit.Sequences(len(ops), l, func(seq []int) bool {
			names := make([]string, l)
			nF := 0
			for i, o := range seq {
				names[i] = ops[o]
				if names[i] == "F" {
					nF++
				}
			}
			// a reorganisation needs files: the prefix must contain a flush, start with a write and
			// not contain two flushes in a row (the second is a no-op; the shorter prefix is explored)
			if nF == 0 || names[0] == "F" {
				return true
			}
			for i := 1; i < l; i++ {
				if names[i] == "F" && names[i-1] == "F" {
					return true
				}
			}
			for _, r := range c03Reorgs {
				mine := kit.Mine(idx)
				idx++
				if !mine {
					continue
				}
				if rep.Expired() {
					return false
				}
				d2 := kit.Thorough() && l <= 4
				applicable := c03Run(rep, scratch, c03Case{Prefix: append([]string(nil), names...), Reorg: r, Depth2: d2}, seen)
				if applicable && (r == "MO" || r == "MF") {
					// the same merge with the raw copy of untouched chunks cut into small pieces (multi-piece copy loop)
					c03Run(rep, scratch, c03Case{Prefix: append([]string(nil), names...), Reorg: r, Piece: 24}, seen)
				}
			}
			return true
		})
	}
}
