//go:build verif

package retention

import (
	"fmt"
	"reflect"
	"sort"
	"strings"
)

// VerifHandle runs one retention check exactly as the service loop (services.Base.run) does on a
// tick: it is the unexported Service.handle. Accessor for the C14 harness (hooks/engine/c14_test.go).
func (s *Service) VerifHandle() { s.handle() }

// VerifHiddenState renders whatever the service remembers between two checks (every field of Service
// except the embedded Base, the two collaborators and `index`), by reflection, so that fields a changed
// tree adds (retry lists, cached responses, ...) are part of the state digest of the harness: a
// retention run that alters only the service's memory is then not mistaken for a no-op.
// `index` (the catalogue index of the last refresh, sent back as a staleness guard) is left out: it
// moves with every refresh and has no effect behind the harness adapter, where a stale answer is an
// explicit fault (H!1 / H!2), not a function of that number.
func (s *Service) VerifHiddenState() string {
	var b strings.Builder
	v := reflect.ValueOf(s).Elem()
	t := v.Type()
	for i := 0; i < v.NumField(); i++ {
		switch t.Field(i).Name {
		case "Base", "MetaClient", "Engine", "index":
			continue
		}
		b.WriteString(t.Field(i).Name)
		b.WriteByte('=')
		verifRender(&b, v.Field(i), 0)
		b.WriteByte(';')
	}
	return b.String()
}

func verifRender(b *strings.Builder, v reflect.Value, depth int) {
	if depth > 8 {
		b.WriteString("...")
		return
	}
	switch v.Kind() {
	case reflect.Bool:
		fmt.Fprintf(b, "%v", v.Bool())
	case reflect.Int, reflect.Int8, reflect.Int16, reflect.Int32, reflect.Int64:
		fmt.Fprintf(b, "%d", v.Int())
	case reflect.Uint, reflect.Uint8, reflect.Uint16, reflect.Uint32, reflect.Uint64, reflect.Uintptr:
		fmt.Fprintf(b, "%d", v.Uint())
	case reflect.Float32, reflect.Float64:
		fmt.Fprintf(b, "%g", v.Float())
	case reflect.String:
		fmt.Fprintf(b, "%q", v.String())
	case reflect.Ptr, reflect.Interface:
		if v.IsNil() {
			b.WriteString("nil")
			return
		}
		b.WriteByte('&')
		verifRender(b, v.Elem(), depth+1)
	case reflect.Struct:
		if p := v.Type().PkgPath(); p == "sync" || p == "sync/atomic" || (p == "time" && v.Type().Name() == "Location") {
			b.WriteString("-")
			return
		}
		b.WriteByte('{')
		for i := 0; i < v.NumField(); i++ {
			b.WriteString(v.Type().Field(i).Name)
			b.WriteByte(':')
			verifRender(b, v.Field(i), depth+1)
			b.WriteByte(',')
		}
		b.WriteByte('}')
	case reflect.Slice, reflect.Array:
		if v.Kind() == reflect.Slice && v.IsNil() {
			b.WriteString("nil")
			return
		}
		b.WriteByte('[')
		for i := 0; i < v.Len() && i < 256; i++ {
			verifRender(b, v.Index(i), depth+1)
			b.WriteByte(',')
		}
		b.WriteByte(']')
	case reflect.Map:
		var items []string
		it := v.MapRange()
		for it.Next() {
			var kb strings.Builder
			verifRender(&kb, it.Key(), depth+1)
			kb.WriteString("->")
			verifRender(&kb, it.Value(), depth+1)
			items = append(items, kb.String())
		}
		sort.Strings(items)
		b.WriteString("map[" + strings.Join(items, ",") + "]")
	default: // chan, func, unsafe pointer, complex: no state the harness could compare
		b.WriteString("-")
	}
}
