//go:build verif

package retention

// VerifHandle runs one retention check exactly as the service loop (services.Base.run) does on a
// tick: it is the unexported Service.handle. Accessor for the C14 harness (hooks/engine/c14_test.go).
func (s *Service) VerifHandle() { s.handle() }
