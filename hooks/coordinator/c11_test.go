//go:build verif

package coordinator

// C11 — each point lands in one covering shard; queries skip no shard with matches.
//
// The harness drives the real write path (PointsWriter.RetryWritePointRows -> routeAndMapOriginRows ->
// updateShardGroupAndShardKey -> Row.UnmarshalShardKeyByTag -> ShardGroupInfo.ShardFor/DestShard) and the real
// read path (yacc parser -> query.Prepare -> ConditionExpr / RewriteRegexConditions -> ClusterShardMapper.MapShards
// -> metaclient.Client.ShardGroupsByTimeRange -> ShardGroupInfo.TargetShards -> getConditionTags) on a catalogue
// (meta.Data) that is built with the commands the meta server applies (CreateDataNode, CreateDatabase,
// CreateRetentionPolicy, CreateMeasurement, CreateShardGroup, ReSharding, UpdateSchema).
// The only replaced pieces are the network: the store behind the writer records (row -> shard id), and the two
// meta RPCs of the writer (create shard group, update schema) are applied to the catalogue directly.

import (
	"errors"
	"fmt"
	"regexp"
	"runtime/debug"
	"sort"
	"strings"
	"sync"
	"testing"
	"time"

	"github.com/openGemini/openGemini/lib/config"
	"github.com/openGemini/openGemini/lib/errno"
	"github.com/openGemini/openGemini/lib/logger"
	"github.com/openGemini/openGemini/lib/metaclient"
	"github.com/openGemini/openGemini/lib/netstorage"
	"github.com/openGemini/openGemini/lib/util/lifted/influx/influxql"
	meta2 "github.com/openGemini/openGemini/lib/util/lifted/influx/meta"
	proto2 "github.com/openGemini/openGemini/lib/util/lifted/influx/meta/proto"
	"github.com/openGemini/openGemini/lib/util/lifted/influx/query"
	"github.com/openGemini/openGemini/lib/util/lifted/protobuf/proto"
	"github.com/openGemini/openGemini/lib/util/lifted/vm/protoparser/influx"
	kit "github.com/openGemini/openGemini/lib/verifkit"
	"go.uber.org/zap"
)

const (
	c11DB  = "db0"
	c11RP  = "rp0"
	c11Mst = "m"
)

// c11Base is 2023-01-01T00:00:00Z: aligned to both group durations (1h, 24h).
const c11Base int64 = 1672531200 * 1e9

// ---------------------------------------------------------------------------------------------------------------
// configuration

type c11Config struct {
	Nodes       int      `json:"nodes"`         // data nodes
	PtPerNode   int      `json:"pt_per_node"`   // partitions per node; shards per group = Nodes*PtPerNode (hash)
	DurH        int      `json:"dur_h"`         // shard group duration in hours
	Sharding    string   `json:"sharding"`      // "hash" | "range"
	Key         []string `json:"key"`           // shard key (nil = none)
	KeyAtDB     bool     `json:"key_at_db"`     // shard key declared on the database instead of the measurement
	NumOfShards int      `json:"num_of_shards"` // hash only: CREATE MEASUREMENT ... SHARDS n (0 = default: all)
	Bounds      []string `json:"bounds"`        // range only: split points of the re-sharding (shards = len+1)
}

func (c c11Config) String() string {
	return fmt.Sprintf("nodes=%d ptpn=%d dur=%dh %s key=[%s] atdb=%v shards=%d bounds=%q",
		c.Nodes, c.PtPerNode, c.DurH, c.Sharding, strings.Join(c.Key, ","), c.KeyAtDB, c.NumOfShards, c.Bounds)
}

func (c c11Config) dur() int64 { return int64(c.DurH) * int64(time.Hour) }

// times: B0 = base, B1 = base+d, B2 = base+2d, S = split time of the re-sharding (inside [B1,B2)).
func (c c11Config) b(i int) int64 { return c11Base + int64(i)*c.dur() }
func (c c11Config) split() int64  { return c.b(1) + c.dur()/2 }
func (c c11Config) ptNum() int    { return c.Nodes * c.PtPerNode }
func (c c11Config) isRange() bool { return c.Sharding == "range" }
func (c c11Config) hasKey(k string) bool {
	for _, x := range c.Key {
		if x == k {
			return true
		}
	}
	return false
}

// ---------------------------------------------------------------------------------------------------------------
// points

type c11Point struct {
	Host   string `json:"host"`   // "" = tag absent
	Region string `json:"region"` // "" = tag absent
	Usage  int    `json:"usage"`
	T      int64  `json:"t"`
}

func (p c11Point) String() string {
	return fmt.Sprintf("{host=%q region=%q usage=%d t=base%+d}", p.Host, p.Region, p.Usage, p.T-c11Base)
}

var c11TagCombos = [][2]string{{"a", "x"}, {"a", "y"}, {"b", "x"}, {"b", "y"}, {"a", ""}, {"", "x"}, {"", ""}}

// thorough adds a third host and region value: under xxhash "host=a" and "host=b" fall into the same shard modulo 2
// and modulo 4, so with two values hash pruning can only lose data with 3 shards.
func c11SetTier(thorough bool) {
	if thorough && len(c11TagCombos) == 7 {
		c11TagCombos = append(c11TagCombos, [2]string{"c", "x"}, [2]string{"c", "z"})
	}
}

// c11Times returns (phase-1 times, phase-2 times). Phase 1 is written before the re-sharding (range) and never
// touches B2.. nor ..B0-1, so that those groups are created after the re-sharding.
func c11Times(c c11Config, thorough bool) (p1, p2 []int64) {
	b0, b1, b2, s := c.b(0), c.b(1), c.b(2), c.split()
	p1 = []int64{b0, b0 + 1, b1 - 1, b1, b1 + 1, s, s + 1, s + 2, b2 - 1}
	p2 = append([]int64{b0 - 1}, p1...)
	p2 = append(p2, b2, b2+1)
	if thorough {
		p2 = append(p2, b0-c.dur()-1, b0-c.dur(), c.b(3)-1, c.b(3))
	}
	return
}

func c11Points(times []int64) []c11Point {
	var out []c11Point
	for _, t := range times {
		for _, tc := range c11TagCombos {
			for _, u := range []int{0, 2} {
				out = append(out, c11Point{Host: tc[0], Region: tc[1], Usage: u, T: t})
			}
		}
	}
	return out
}

func (p c11Point) row(pid int, mst string) influx.Row {
	r := influx.Row{Name: mst, Timestamp: p.T}
	if p.Host != "" {
		r.Tags = append(r.Tags, influx.Tag{Key: "host", Value: p.Host})
	}
	if p.Region != "" {
		r.Tags = append(r.Tags, influx.Tag{Key: "region", Value: p.Region})
	}
	r.Fields = influx.Fields{
		{Key: "pid", NumValue: float64(pid), Type: influx.Field_Type_Float},
		{Key: "usage", NumValue: float64(p.Usage), Type: influx.Field_Type_Float},
	}
	return r
}

// accepted: the statement speaks about accepted points; a point lacking a shard-key tag is rejected by design.
func (p c11Point) hasKey(key []string) bool {
	for _, k := range key {
		if (k == "host" && p.Host == "") || (k == "region" && p.Region == "") {
			return false
		}
	}
	return true
}

// ---------------------------------------------------------------------------------------------------------------
// catalogue + the two ends

type c11Meta struct {
	*metaclient.Client
	data *meta2.Data
}

// CreateShardGroup: what the meta server applies for the client's CreateShardGroupCommand (ApplyCreateShardGroup ->
// Data.CreateShardGroup), followed by the real client code, which now finds the group in its cache.
func (m *c11Meta) CreateShardGroup(database, policy string, timestamp time.Time, version uint32, engineType config.EngineType) (*meta2.ShardGroupInfo, error) {
	_, tier, err := m.data.GetTierOfShardGroup(database, policy, timestamp, m.Client.ShardTier, engineType)
	if err != nil {
		return nil, err
	}
	if err := m.data.CreateShardGroup(database, policy, timestamp, tier, engineType, version); err != nil {
		return nil, err
	}
	return m.Client.CreateShardGroup(database, policy, timestamp, version, engineType)
}

func (m *c11Meta) UpdateSchema(database string, retentionPolicy string, mst string, fieldToCreate []*proto2.FieldSchema) error {
	return m.data.UpdateSchema(database, retentionPolicy, mst, fieldToCreate)
}

func (m *c11Meta) UpdateSchemaByCmd(cmd *proto2.UpdateSchemaCommand) error {
	return m.data.UpdateSchema(cmd.GetDatabase(), cmd.GetRpName(), cmd.GetMeasurement(), cmd.GetFieldToCreate())
}

func (m *c11Meta) CreateMeasurement(database string, retentionPolicy string, mst string, shardKey *meta2.ShardKeyInfo, numOfShards int32, indexR *influxql.IndexRelation,
	engineType config.EngineType, colStoreInfo *meta2.ColStoreInfo, schemaInfo []*proto2.FieldSchema, options *meta2.Options) (*meta2.MeasurementInfo, error) {
	return nil, errors.New("c11: unexpected CreateMeasurement RPC")
}

// c11Store stands for the stores behind the writer: it records which shard every row was sent to.
type c11Store struct {
	mu   sync.Mutex
	sent map[int][]uint64 // pid -> shard ids
}

func (s *c11Store) WriteRows(ctx *netstorage.WriteContext, nodeID uint64, pt uint32, database, rp string, timeout time.Duration) error {
	s.mu.Lock()
	defer s.mu.Unlock()
	for i := range ctx.Rows {
		r := &ctx.Rows[i]
		pid := -1
		for j := range r.Fields {
			if r.Fields[j].Key == "pid" {
				pid = int(r.Fields[j].NumValue)
			}
		}
		s.sent[pid] = append(s.sent[pid], ctx.Shard.ID)
	}
	return nil
}

// c11Msts: the configuration's measurement plus two more with other measurement-level shard keys (same sharding
// type - a retention policy admits only one). They share write requests with the first one.
var c11Msts = []string{c11Mst, "m2", "m3"}

var c11KeyRing = [][]string{{"host"}, {"region"}, {"host", "region"}, nil}

// c11MstKeys returns the declared shard key of every measurement: m has the configuration's key, m2 and m3 the
// next two of the ring.
func c11MstKeys(c c11Config) [][]string {
	at := 3
	for i, k := range c11KeyRing {
		if strings.Join(k, ",") == strings.Join(c.Key, ",") {
			at = i
		}
	}
	return [][]string{c.Key, c11KeyRing[(at+1)%4], c11KeyRing[(at+2)%4]}
}

type c11World struct {
	keys   [][]string // effective shard key per measurement (the database-level key overrides)
	cfg    c11Config
	data   *meta2.Data
	mc     *c11Meta
	pw     *PointsWriter
	store  *c11Store
	mapper *c11Mapper
}

func c11Must(err error) {
	if err != nil {
		panic("c11 setup: " + err.Error())
	}
}

func c11NewWorld(c c11Config) *c11World {
	meta2.DataLogger = zap.NewNop()
	data := &meta2.Data{PtNumPerNode: uint32(c.PtPerNode)}
	for i := 0; i < c.Nodes; i++ {
		_, err := data.CreateDataNode(fmt.Sprintf("127.0.0.%d:8400", i+1), fmt.Sprintf("127.0.0.%d:8401", i+1), "", "")
		c11Must(err)
	}
	typ := influxql.HASH
	if c.isRange() {
		typ = influxql.RANGE
	}
	var dbKey, mstKey *proto2.ShardKeyInfo
	if c.KeyAtDB {
		dbKey = &proto2.ShardKeyInfo{ShardKey: c.Key, Type: proto.String(typ)}
		mstKey = &proto2.ShardKeyInfo{ShardKey: c.Key, Type: proto.String(typ)}
	} else {
		mstKey = &proto2.ShardKeyInfo{ShardKey: c.Key, Type: proto.String(typ)}
	}
	c11Must(data.CreateDatabase(c11DB, nil, dbKey, false, 1, nil))
	rp := meta2.NewRetentionPolicyInfo(c11RP)
	rp.ShardGroupDuration = time.Duration(c.dur())
	rp.Duration = 0
	c11Must(data.CreateRetentionPolicy(c11DB, rp, true))
	_, err := data.CreateDBPtView(c11DB)
	c11Must(err)
	for i := range data.PtView[c11DB] {
		data.PtView[c11DB][i].Status = meta2.Online
	}
	c11Must(data.CreateMeasurement(c11DB, c11RP, c11Mst, mstKey, int32(c.NumOfShards), nil, config.TSSTORE, nil, nil, nil))
	declared := c11MstKeys(c)
	c11Must(data.CreateMeasurement(c11DB, c11RP, c11Msts[1], &proto2.ShardKeyInfo{ShardKey: declared[1], Type: proto.String(typ)}, int32(c.NumOfShards), nil, config.TSSTORE, nil, nil, nil))
	c11Must(data.CreateMeasurement(c11DB, c11RP, c11Msts[2], &proto2.ShardKeyInfo{ShardKey: declared[2], Type: proto.String(typ)}, 0, nil, config.TSSTORE, nil, nil, nil))

	w := &c11World{cfg: c, data: data, keys: declared}
	if c.KeyAtDB {
		w.keys = [][]string{c.Key, c.Key, c.Key}
	}
	cl := &metaclient.Client{}
	cl.SetCacheData(data)
	w.mc = &c11Meta{Client: cl, data: data}
	w.store = &c11Store{sent: map[int][]uint64{}}
	w.pw = NewPointsWriter(5 * time.Second)
	w.pw.logger = logger.NewLogger(errno.ModuleCoordinator).SetZapLogger(zap.NewNop())
	w.pw.MetaClient = w.mc
	w.pw.TSDBStore = w.store
	w.mapper = &c11Mapper{csm: &ClusterShardMapper{MetaClient: cl, Logger: w.pw.logger}}
	return w
}

// write sends one write request (rows in the given order) through the real writer and returns gpid -> shards.
// gpid = measurement index * len(points) + point index.
func (w *c11World) write(points []c11Point, order []int) (map[int][]uint64, error) {
	rows := make([]influx.Row, 0, len(order))
	for _, gp := range order {
		rows = append(rows, points[gp%len(points)].row(gp, c11Msts[gp/len(points)]))
	}
	w.store.sent = map[int][]uint64{}
	err := w.pw.RetryWritePointRows(c11DB, c11RP, rows)
	return w.store.sent, err
}

// groupOf returns the shard group that owns shard id.
func (w *c11World) groupOf(shard uint64) *meta2.ShardGroupInfo {
	rp, _ := w.data.RetentionPolicy(c11DB, c11RP)
	for i := range rp.ShardGroups {
		for j := range rp.ShardGroups[i].Shards {
			if rp.ShardGroups[i].Shards[j].ID == shard {
				return &rp.ShardGroups[i]
			}
		}
	}
	return nil
}

// ---------------------------------------------------------------------------------------------------------------
// read side: the planner's own ShardMapper hook. It runs the real cluster mapper and stops the planner afterwards.

var errC11Stop = errors.New("c11: shard mapping captured")

type c11Mapper struct {
	csm    *ClusterShardMapper
	shards map[uint64]bool
	tmin   int64
	tmax   int64
	cond   string
	called int
}

func (m *c11Mapper) MapShards(stmt *influxql.SelectStatement, t influxql.TimeRange, opt query.SelectOptions, condition influxql.Expr) (query.ShardGroup, error) {
	m.called++
	sg, err := m.csm.MapShards(stmt, t, opt, condition)
	if err != nil {
		return nil, err
	}
	csming := sg.(*ClusterShardMapping)
	m.shards = map[uint64]bool{}
	for _, byPt := range csming.ShardMap {
		for _, shs := range byPt {
			for _, sh := range shs {
				m.shards[sh.ID] = true
			}
		}
	}
	m.tmin, m.tmax = t.MinTimeNano(), t.MaxTimeNano()
	if condition != nil {
		m.cond = condition.String()
	} else {
		m.cond = "<nil>"
	}
	return nil, errC11Stop
}

func (m *c11Mapper) Close() error { return nil }

// mapQuery: SELECT text -> production parser -> RewriteStatement -> query.Prepare -> MapShards.
func (w *c11World) mapQuery(mst, where string) (shards map[uint64]bool, tmin, tmax int64, cond string, err error) {
	sql := fmt.Sprintf("SELECT usage FROM %s.%s.%s", c11DB, c11RP, mst)
	if where != "" {
		sql += " WHERE " + where
	}
	parser := influxql.NewParser(strings.NewReader(sql))
	defer parser.Release()
	yy := influxql.NewYyParser(parser.GetScanner(), make(map[string]interface{}))
	yy.ParseTokens()
	q, err := yy.GetQuery()
	if err != nil {
		return nil, 0, 0, "", fmt.Errorf("parse %q: %v", sql, err)
	}
	stmt, err := query.RewriteStatement(q.Statements[0])
	if err != nil {
		return nil, 0, 0, "", fmt.Errorf("rewrite %q: %v", sql, err)
	}
	sel, ok := stmt.(*influxql.SelectStatement)
	if !ok {
		return nil, 0, 0, "", fmt.Errorf("not a select: %q", sql)
	}
	w.mapper.called = 0
	_, err = query.Prepare(sel, w.mapper, query.SelectOptions{})
	if err != errC11Stop {
		return nil, 0, 0, "", fmt.Errorf("prepare %q: mapper called %d times, err=%v", sql, w.mapper.called, err)
	}
	return w.mapper.shards, w.mapper.tmin, w.mapper.tmax, w.mapper.cond, nil
}

// ---------------------------------------------------------------------------------------------------------------
// conditions: own tree (the oracle evaluates this, never the parsed AST)

type c11Atom struct {
	Text string
	// eval on tags/fields; time atoms have Time != nil
	Eval func(p c11Point) bool
	Time func(c c11Config) (min, max int64, text string) // inclusive bounds
}

type c11Cond struct {
	Atom *c11Atom
	Op   string // "AND" | "OR"
	L, R *c11Cond
}

const (
	c11MinTime = influxql.MinTime
	c11MaxTime = influxql.MaxTime
)

func c11TagAtom(text string, f func(p c11Point) bool) *c11Atom { return &c11Atom{Text: text, Eval: f} }

var c11ReA = regexp.MustCompile("a")

func c11Atoms(thorough bool) []*c11Atom {
	at := []*c11Atom{
		c11TagAtom("host = 'a'", func(p c11Point) bool { return p.Host == "a" }),
		c11TagAtom("host = 'b'", func(p c11Point) bool { return p.Host == "b" }),
		c11TagAtom("region = 'x'", func(p c11Point) bool { return p.Region == "x" }),
		c11TagAtom("host != 'a'", func(p c11Point) bool { return p.Host != "a" }),
		c11TagAtom("host =~ /a/", func(p c11Point) bool { return c11ReA.MatchString(p.Host) }),
		c11TagAtom("usage > 1", func(p c11Point) bool { return p.Usage > 1 }),
		{Text: "time >= B1", Time: func(c c11Config) (int64, int64, string) {
			return c.b(1), c11MaxTime, fmt.Sprintf("time >= %d", c.b(1))
		}},
		{Text: "time <= B1", Time: func(c c11Config) (int64, int64, string) {
			return c11MinTime, c.b(1), fmt.Sprintf("time <= %d", c.b(1))
		}},
	}
	if thorough {
		at = append(at,
			c11TagAtom("region = 'y'", func(p c11Point) bool { return p.Region == "y" }),
			c11TagAtom("host = 'c'", func(p c11Point) bool { return p.Host == "c" }),
			c11TagAtom("'a' = host", func(p c11Point) bool { return p.Host == "a" }),
			c11TagAtom("host =~ /^a$/", func(p c11Point) bool { return p.Host == "a" }),
			c11TagAtom("region !~ /x/", func(p c11Point) bool { return !strings.Contains(p.Region, "x") }),
			c11TagAtom("usage = 0", func(p c11Point) bool { return p.Usage == 0 }),
			&c11Atom{Text: "time < B1", Time: func(c c11Config) (int64, int64, string) {
				return c11MinTime, c.b(1) - 1, fmt.Sprintf("time < %d", c.b(1))
			}},
			&c11Atom{Text: "time > S", Time: func(c c11Config) (int64, int64, string) {
				return c.split() + 1, c11MaxTime, fmt.Sprintf("time > %d", c.split())
			}},
			&c11Atom{Text: "time <= B2-1", Time: func(c c11Config) (int64, int64, string) {
				return c11MinTime, c.b(2) - 1, fmt.Sprintf("time <= %d", c.b(2)-1)
			}},
		)
	}
	return at
}

// render prints the tree with the given parenthesisation; time literals depend on the configuration.
func (n *c11Cond) render(c c11Config, paren bool) string {
	if n.Atom != nil {
		if n.Atom.Time != nil {
			_, _, s := n.Atom.Time(c)
			return s
		}
		return n.Atom.Text
	}
	s := n.L.render(c, true) + " " + n.Op + " " + n.R.render(c, true)
	if paren {
		return "(" + s + ")"
	}
	return s
}

// name is the configuration-independent text (used for keys and distinct counting).
func (n *c11Cond) name(paren bool) string {
	if n.Atom != nil {
		return n.Atom.Text
	}
	s := n.L.name(true) + " " + n.Op + " " + n.R.name(true)
	if paren {
		return "(" + s + ")"
	}
	return s
}

// timeRange: InfluxQL defines the query's time range as the intersection of all time comparisons of the WHERE
// clause, wherever they stand ("there is no such thing as using OR with a time range"); the remaining tree is the
// condition. The oracle follows the language here (that semantic belongs to C08), see notes.
func (n *c11Cond) timeRange(c c11Config) (min, max int64) {
	min, max = c11MinTime, c11MaxTime
	if n.Atom != nil {
		if n.Atom.Time != nil {
			min, max, _ = n.Atom.Time(c)
		}
		return
	}
	lmin, lmax := n.L.timeRange(c)
	rmin, rmax := n.R.timeRange(c)
	if lmin > min {
		min = lmin
	}
	if rmin > min {
		min = rmin
	}
	if lmax < max {
		max = lmax
	}
	if rmax < max {
		max = rmax
	}
	return
}

// eval3 evaluates the residual condition (time atoms removed): 1 true, 0 false, -1 "no condition" (subtree vanished).
func (n *c11Cond) eval3(p c11Point) int {
	if n.Atom != nil {
		if n.Atom.Time != nil {
			return -1
		}
		if n.Atom.Eval(p) {
			return 1
		}
		return 0
	}
	l, r := n.L.eval3(p), n.R.eval3(p)
	if l == -1 {
		return r
	}
	if r == -1 {
		return l
	}
	if n.Op == "AND" {
		if l == 1 && r == 1 {
			return 1
		}
		return 0
	}
	if l == 1 || r == 1 {
		return 1
	}
	return 0
}

func (n *c11Cond) matches(c c11Config, p c11Point) bool {
	min, max := n.timeRange(c)
	if p.T < min || p.T > max {
		return false
	}
	return n.eval3(p) != 0
}

// c11Matcher is matches() tabulated for one (condition, configuration): the residual condition depends only on
// (tags, usage), the time range only on the configuration. Points are laid out as time x tag combo x usage.
type c11Matcher struct {
	min, max int64
	truth    [][2]bool
}

func (n *c11Cond) matcher(c c11Config) c11Matcher {
	m := c11Matcher{truth: make([][2]bool, len(c11TagCombos))}
	m.min, m.max = n.timeRange(c)
	for ci, tc := range c11TagCombos {
		for ui, u := range []int{0, 2} {
			m.truth[ci][ui] = n.eval3(c11Point{Host: tc[0], Region: tc[1], Usage: u}) != 0
		}
	}
	return m
}

func (m c11Matcher) matches(pid int, p c11Point) bool {
	if p.T < m.min || p.T > m.max {
		return false
	}
	return m.truth[(pid/2)%len(c11TagCombos)][pid%2]
}

func (n *c11Cond) atoms() int {
	if n.Atom != nil {
		return 1
	}
	return n.L.atoms() + n.R.atoms()
}

// c11Conds enumerates every tree of <= 3 atoms. Three texts exist for three atoms: "A o B p C" (the grammar's
// precedence decides what the query means, see below), "(A o B) p C", "A o (B p C)".
// Each is generated as (tree, text-form).
type c11CondCase struct {
	tree  *c11Cond
	plain bool // render without the inner parentheses (A o B p C)
}

func c11Conds(atoms []*c11Atom) []c11CondCase {
	var out []c11CondCase
	leaf := func(a *c11Atom) *c11Cond { return &c11Cond{Atom: a} }
	ops := []string{"AND", "OR"}
	for _, a := range atoms {
		out = append(out, c11CondCase{tree: leaf(a)})
	}
	for _, a := range atoms {
		for _, o := range ops {
			for _, b := range atoms {
				out = append(out, c11CondCase{tree: &c11Cond{Op: o, L: leaf(a), R: leaf(b)}})
			}
		}
	}
	for _, a := range atoms {
		for _, o := range ops {
			for _, b := range atoms {
				for _, p := range ops {
					for _, c := range atoms {
						left := &c11Cond{Op: p, L: &c11Cond{Op: o, L: leaf(a), R: leaf(b)}, R: leaf(c)}
						right := &c11Cond{Op: o, L: leaf(a), R: &c11Cond{Op: p, L: leaf(b), R: leaf(c)}}
						out = append(out, c11CondCase{tree: left}, c11CondCase{tree: right})
						// plain text "a o b p c": the production grammar (sql.y: %left AND OR) gives AND and OR the
						// same precedence and associates to the left, so the query's condition is (a o b) p c
						out = append(out, c11CondCase{tree: left, plain: true})
					}
				}
			}
		}
	}
	return out
}

func (cc c11CondCase) text(c c11Config) string {
	if cc.plain {
		return c11Plain(cc.tree, func(n *c11Cond) string { return n.render(c, false) })
	}
	return cc.tree.render(c, false)
}

func (cc c11CondCase) name() string {
	if cc.plain {
		return c11Plain(cc.tree, func(n *c11Cond) string { return n.name(false) })
	}
	return cc.tree.name(false)
}

// c11Plain prints a 3-atom tree as "a o b p c" without parentheses.
func c11Plain(n *c11Cond, leaf func(*c11Cond) string) string {
	var parts []string
	var walk func(x *c11Cond)
	walk = func(x *c11Cond) {
		if x.Atom != nil {
			parts = append(parts, leaf(x))
			return
		}
		walk(x.L)
		parts = append(parts, x.Op)
		walk(x.R)
	}
	walk(n)
	return strings.Join(parts, " ")
}

// ---------------------------------------------------------------------------------------------------------------
// configurations

func c11KeyStrings(key []string) []string {
	// candidate split points for range sharding: shard keys that the point set produces (what
	// ShardKeyIndex.GetSplitPoints returns) plus strings between / around them
	name := influx.GetNameWithVersion(c11Mst, 0)
	set := map[string]bool{}
	for _, tc := range c11TagCombos[:7] { // split points come from the base point set in both tiers
		s := name
		ok := true
		if len(key) == 0 {
			if tc[0] != "" {
				s += ",host=" + tc[0]
			}
			if tc[1] != "" {
				s += ",region=" + tc[1]
			}
		} else {
			for _, k := range key {
				v := tc[0]
				if k == "region" {
					v = tc[1]
				}
				if v == "" {
					ok = false
					break
				}
				s += "," + k + "=" + v
			}
		}
		if ok {
			set[s] = true
		}
	}
	set[name+",host=a!"] = true // between "host=a" and "host=a,region=..."
	set[name+",host=aa"] = true // between host=a,... and host=b
	var out []string
	for s := range set {
		out = append(out, s)
	}
	sort.Strings(out)
	return out
}

func c11Subsets(items []string, k int) [][]string {
	var out [][]string
	var rec func(start int, cur []string)
	rec = func(start int, cur []string) {
		if len(cur) == k {
			out = append(out, append([]string(nil), cur...))
			return
		}
		for i := start; i < len(items); i++ {
			rec(i+1, append(cur, items[i]))
		}
	}
	rec(0, nil)
	return out
}

func c11Configs(thorough bool) []c11Config {
	var out []c11Config
	keys := [][]string{{"host"}, {"host", "region"}, {"region"}, nil} // no key (nothing to prune) last
	type topo struct{ nodes, ptpn int }
	// most shards first: if the internal deadline cuts a run, the configurations where pruning can remove most are done
	topos := []topo{{4, 1}, {3, 1}, {2, 1}, {1, 1}}
	if thorough {
		topos = []topo{{4, 1}, {2, 2}, {1, 4}, {3, 1}, {1, 3}, {2, 1}, {1, 2}, {1, 1}}
	}
	for _, tp := range topos {
		n := tp.nodes * tp.ptpn
		for _, durH := range []int{1, 24} {
			for _, key := range keys {
				for _, atDB := range []bool{false, true} {
					if atDB && len(key) == 0 {
						continue
					}
					if atDB && !thorough && !(len(key) == 1 && key[0] == "host") {
						continue // quick: database-level shard key only for [host]
					}
					// hash
					for nos := 0; nos < n; nos++ {
						out = append(out, c11Config{Nodes: tp.nodes, PtPerNode: tp.ptpn, DurH: durH, Sharding: "hash", Key: key, KeyAtDB: atDB, NumOfShards: nos})
					}
					// range: shards = len(bounds)+1 = n
					cands := c11KeyStrings(key)
					for _, bs := range c11Subsets(cands, n-1) {
						out = append(out, c11Config{Nodes: tp.nodes, PtPerNode: tp.ptpn, DurH: durH, Sharding: "range", Key: key, KeyAtDB: atDB, Bounds: bs})
					}
				}
			}
		}
	}
	return out
}

// ---------------------------------------------------------------------------------------------------------------

type c11Case struct {
	Cfg    c11Config `json:"cfg"`
	Where  string    `json:"where"` // configuration-independent name of the condition ("" = write side only)
	Tier   string    `json:"tier"`
	Mst    string    `json:"mst"`    // measurement the query reads ("" = m)
	Direct bool      `json:"direct"` // the violation was seen by the direct TargetShards probe
}

// ---- spec-level model of "which tag-equality sets confine the condition" (only used to name the kind of a miss)

// c11Res is the residual condition: time atoms removed (a node that loses one operand is replaced by the other).
// paren: the node stood inside parentheses in the query text.
type c11Res struct {
	atom  *c11Atom
	op    string
	l, r  *c11Res
	paren bool
}

func (n *c11Cond) residual(paren bool) *c11Res {
	if n.Atom != nil {
		if n.Atom.Time != nil {
			return nil
		}
		return &c11Res{atom: n.Atom}
	}
	l, r := n.L.residual(true), n.R.residual(true)
	if l == nil {
		return r
	}
	if r == nil {
		return l
	}
	return &c11Res{op: n.Op, l: l, r: r, paren: paren}
}

type c11Cons struct {
	unconstrained bool
	sets          int
}

// cons: with opaqueParens a parenthesised operand carries no tag constraint - the unchanged getConditionTags has no
// ParenExpr case (parentheses around the whole residual condition are dropped by the planner, so the root is never opaque).
func (n *c11Res) cons(opaqueParens, root, sql bool) c11Cons {
	if n.atom != nil {
		switch n.atom.Text {
		case "host = 'a'", "host = 'b'", "host = 'c'", "region = 'x'", "region = 'y'":
			return c11Cons{sets: 1}
		case "host =~ /^a$/":
			// the planner rewrites an anchored literal regex to host = 'a' (RewriteRegexConditions); the direct probe
			// hands the regex over unchanged
			if sql {
				return c11Cons{sets: 1}
			}
		}
		return c11Cons{unconstrained: true}
	}
	if opaqueParens && n.paren && !root {
		return c11Cons{unconstrained: true}
	}
	l, r := n.l.cons(opaqueParens, false, sql), n.r.cons(opaqueParens, false, sql)
	if n.op == "AND" {
		switch {
		case l.unconstrained:
			return r
		case r.unconstrained:
			return l
		}
		return c11Cons{sets: l.sets * r.sets}
	}
	if l.unconstrained || r.unconstrained {
		return c11Cons{unconstrained: true}
	}
	return c11Cons{sets: l.sets + r.sets}
}

// c11MissKind names the shape of the condition whose pruning lost a shard:
//   - an OR one of whose operands carries no tag-equality constraint (the other operand's tags were used alone),
//   - an AND whose right operand is a group of alternatives (they were merged into one tag set),
//   - a condition that yields two or more alternative tag sets (their shard keys were built in one buffer),
//   - anything else.
func c11MissKind(cc c11CondCase, direct bool) string {
	opaque := !direct && !cc.plain
	res := cc.tree.residual(false)
	if res == nil {
		return "shard_with_match_pruned"
	}
	orMixed, andOverOr := false, false
	var walk func(x *c11Res, root bool)
	walk = func(x *c11Res, root bool) {
		if x.atom != nil || (opaque && x.paren && !root) {
			return // the implementation does not look inside
		}
		l, r := x.l.cons(opaque, false, !direct), x.r.cons(opaque, false, !direct)
		if x.op == "OR" && l.unconstrained != r.unconstrained {
			orMixed = true
		}
		if x.op == "AND" && !l.unconstrained && !r.unconstrained && r.sets > 1 {
			andOverOr = true
		}
		walk(x.l, false)
		walk(x.r, false)
	}
	walk(res, true)
	c := res.cons(opaque, true, !direct)
	switch {
	case orMixed:
		return "or_operand_without_tag_constraint_pruned"
	case andOverOr:
		return "and_with_or_group_flattened"
	case !c.unconstrained && c.sets > 1:
		return "or_groups_share_key_buffer"
	}
	return "shard_with_match_pruned"
}

type c11Stored struct {
	pid   int
	shard uint64
}

func c11Orders(pids []int, points []c11Point) [][]int {
	asc := append([]int(nil), pids...)
	sort.SliceStable(asc, func(i, j int) bool { return points[asc[i]].T < points[asc[j]].T })
	desc := make([]int, len(asc))
	for i := range asc {
		desc[len(asc)-1-i] = asc[i]
	}
	zig := make([]int, 0, len(asc))
	for i, j := 0, len(asc)-1; i <= j; i, j = i+1, j-1 {
		zig = append(zig, asc[i])
		if i != j {
			zig = append(zig, asc[j])
		}
	}
	return [][]int{asc, desc, zig}
}

// c11RunConfig: write side for one configuration, then every condition that belongs to this worker.
// owner: this worker reports the write-side verdicts of the configuration.
func c11RunConfig(rep *kit.Report, cfg c11Config, thorough bool, owner bool, conds []c11CondCase, mine func(condIdx int) bool) {
	tier := "quick"
	if thorough {
		tier = "thorough"
	}
	wcase := c11Case{Cfg: cfg, Tier: tier}
	defer func() {
		if r := recover(); r != nil {
			msg := fmt.Sprint(r)
			if strings.HasPrefix(msg, "c11") {
				panic(r) // harness precondition: tool error
			}
			rep.Violation("panic_in_routing_or_mapping", cfg.String(), msg+"\n"+string(debug.Stack()), wcase)
		}
	}()
	w := c11NewWorld(cfg)
	defer w.pw.Close()
	vio := func(kind, key, detail string) {
		if owner {
			rep.Violation(kind, cfg.String()+" | "+key, detail, wcase)
		}
	}
	p1t, p2t := c11Times(cfg, thorough)
	points := c11Points(p2t)
	inP1 := map[int64]bool{}
	for _, t := range p1t {
		inP1[t] = true
	}
	var pids1, pids2 []int
	for pid := range points {
		pids2 = append(pids2, pid)
		if inP1[points[pid].T] {
			pids1 = append(pids1, pid)
		}
	}

	n := len(points)
	stored := make([]map[c11Stored]bool, len(c11Msts))
	for i := range stored {
		stored[i] = map[c11Stored]bool{}
	}
	// checkWrite validates one routing result and returns pid -> shard (accepted points only)
	// same shard on repeat: per (point, covering group). After a re-sharding two groups cover the times after the
	// split; the statement does not say which of them takes a new point (both are consulted by reads), so the
	// comparison is made inside one group.
	type pidGroup struct {
		pid   int
		group uint64
	}
	firstShard := map[pidGroup]uint64{}
	checkWrite := func(phase string, pids []int, sent map[int][]uint64, err error) {
		for _, pid := range pids {
			p := points[pid%n]
			mi := pid / n
			phase := phase
			if mi > 0 {
				phase = c11Msts[mi] + " " + phase
			}
			if owner {
				rep.Eval(1)
			}
			shs := sent[pid]
			if !p.hasKey(w.keys[mi]) {
				if len(shs) == 0 {
					if owner {
						rep.Count("points_rejected_lacking_shard_key", 1)
					}
					continue
				}
				// accepted although a shard-key tag is missing: the statement is silent; treat as accepted point
				if owner {
					rep.Count("points_accepted_lacking_shard_key", 1)
				}
			}
			switch {
			case len(shs) == 0:
				vio("point_in_no_shard", phase+" "+p.String(), fmt.Sprintf("the point has every tag of its measurement's shard key %v, but the writer sent it to no shard (write error: %v)", w.keys[mi], err))
				continue
			case len(shs) > 1:
				vio("point_in_several_shards", phase+" "+p.String(), fmt.Sprintf("the writer sent the point to shards %v", shs))
			}
			g := w.groupOf(shs[0])
			if g == nil {
				vio("point_in_unknown_shard", phase+" "+p.String(), fmt.Sprintf("shard %d belongs to no shard group", shs[0]))
				continue
			}
			if p.T < g.StartTime.UnixNano() || p.T >= g.EndTime.UnixNano() || g.Deleted() {
				vio("point_outside_group_span", phase+" "+p.String(), fmt.Sprintf("shard %d is in group %d [%d,%d) (base%+d, base%+d) which does not contain the point's time",
					shs[0], g.ID, g.StartTime.UnixNano(), g.EndTime.UnixNano(), g.StartTime.UnixNano()-c11Base, g.EndTime.UnixNano()-c11Base))
			}
			if prev, ok := firstShard[pidGroup{pid, g.ID}]; !ok {
				firstShard[pidGroup{pid, g.ID}] = shs[0]
			} else if prev != shs[0] {
				vio("point_shard_not_deterministic", c11Msts[mi]+" "+p.String(), fmt.Sprintf("group %d: an earlier write of the same point went to shard %d, %s goes to shard %d", g.ID, prev, phase, shs[0]))
			}
			stored[mi][c11Stored{pid % n, shs[0]}] = true
			if owner {
				rep.Count("points_routed", 1)
			}
		}
	}

	// phase 1
	orders1 := c11Orders(pids1, points)
	sent, err := w.write(points, orders1[0])
	checkWrite("phase1", pids1, sent, err)

	// re-sharding (range): split the newest group
	if cfg.isRange() && len(cfg.Bounds) > 0 {
		rp, _ := w.data.RetentionPolicy(c11DB, c11RP)
		newest := rp.ShardGroups[len(rp.ShardGroups)-1]
		if newest.StartTime.UnixNano() != cfg.b(1) {
			// only possible when phase 1 already put points into wrong groups (reported above)
			vio("newest_group_unexpected", "before re-sharding", fmt.Sprintf("after writing times up to B2-1 the newest shard group is [%d,%d), expected [B1,B2) = [%d,%d)",
				newest.StartTime.UnixNano(), newest.EndTime.UnixNano(), cfg.b(1), cfg.b(2)))
			return
		}
		c11Must(w.data.ReSharding(&meta2.ReShardingInfo{Database: c11DB, Rp: c11RP, ShardGroupID: newest.ID, SplitTime: cfg.split(), Bounds: cfg.Bounds}))
	}

	// phase 2: several batch orders, then one point per batch
	for oi, ord := range c11Orders(pids2, points) {
		sent, err := w.write(points, ord)
		checkWrite(fmt.Sprintf("phase2/order%d", oi), pids2, sent, err)
	}
	for _, pid := range pids2 {
		sent, err := w.write(points, []int{pid})
		checkWrite("phase2/single", []int{pid}, sent, err)
	}
	// mixed requests: rows of two or three measurements (different measurement-level shard keys, with and without
	// key) interleaved in one write request, every measurement sequence, row by row and block by block, ascending
	// and descending times. A point must go where it goes when written alone and no valid row may be rejected.
	var mix []int
	for pid, p := range points {
		if p.Usage == 0 && (p.T == cfg.b(0) || p.T == cfg.b(1)-1 || p.T == cfg.b(1) || p.T == cfg.split()+1) {
			mix = append(mix, pid)
		}
	}
	for mi := 1; mi < len(c11Msts); mi++ {
		for _, pid := range mix {
			sent, err := w.write(points, []int{mi*n + pid})
			checkWrite("alone", []int{mi*n + pid}, sent, err)
		}
	}
	mixDesc := make([]int, len(mix))
	for i := range mix {
		mixDesc[len(mix)-1-i] = mix[i]
	}
	for si, seq := range [][]int{{0, 1}, {1, 0}, {0, 2}, {2, 0}, {1, 2}, {2, 1}, {0, 1, 2}, {0, 2, 1}, {1, 0, 2}, {1, 2, 0}, {2, 0, 1}, {2, 1, 0}} {
		for oi, ord := range [][]int{mix, mixDesc} {
			var fine, block []int
			for _, pid := range ord {
				for _, mi := range seq {
					fine = append(fine, mi*n+pid)
				}
			}
			for _, mi := range seq {
				for _, pid := range ord {
					block = append(block, mi*n+pid)
				}
			}
			sent, err := w.write(points, fine)
			checkWrite(fmt.Sprintf("mixed request (measurements %v row by row, time order %d)", seq, oi), fine, sent, err)
			sent, err = w.write(points, block)
			checkWrite(fmt.Sprintf("mixed request (measurements %v block by block, time order %d)", seq, oi), block, sent, err)
			if owner && si == 0 && oi == 0 {
				rep.Max("max_rows_per_mixed_request", int64(len(fine)))
			}
		}
	}
	if owner {
		rep.Count("mixed_measurement_requests", 48)
	}

	rp, _ := w.data.RetentionPolicy(c11DB, c11RP)
	if owner {
		rep.Max("max_groups", int64(len(rp.ShardGroups)))
		for i := range rp.ShardGroups {
			rep.Max("max_shards_per_group", int64(len(rp.ShardGroups[i].Shards)))
		}
	}

	storedLists := make([][]c11Stored, len(c11Msts))
	for mi := range stored {
		for st := range stored[mi] {
			storedLists[mi] = append(storedLists[mi], st)
		}
		l := storedLists[mi]
		sort.Slice(l, func(i, j int) bool {
			if l[i].pid != l[j].pid {
				return l[i].pid < l[j].pid
			}
			return l[i].shard < l[j].shard
		})
	}

	// read side
	for ci, cc := range conds {
		if !mine(ci) {
			continue
		}
		if rep.Expired() {
			return
		}
		c11CheckCond(rep, w, cfg, tier, 0, points, storedLists[0], cc)
		// the programmatic tree differs from the parsed one only where the text needs parentheses
		if !cc.plain && cc.tree.atoms() == 3 {
			c11CheckDirect(rep, w, cfg, tier, points, storedLists[0], cc)
		}
		// the other measurements: conditions of one and two atoms
		if cc.tree.atoms() <= 2 {
			for mi := 1; mi < len(c11Msts); mi++ {
				c11CheckCond(rep, w, cfg, tier, mi, points, storedLists[mi], cc)
			}
		}
	}
}

func c11CheckCond(rep *kit.Report, w *c11World, cfg c11Config, tier string, mi int, points []c11Point, stored []c11Stored, cc c11CondCase) {
	text := cc.text(cfg)
	name := cc.name()
	mst := c11Msts[mi]
	from := ""
	if mi > 0 {
		from = fmt.Sprintf("FROM %s (shard key %v) ", mst, w.keys[mi])
	}
	shards, tmin, tmax, condStr, err := w.mapQuery(mst, text)
	if err != nil {
		rep.Count("queries_rejected_by_planner", 1)
		rep.Sample(3, map[string]string{"rejected": text, "err": err.Error()})
		return
	}
	rep.Count("queries_mapped", 1)
	// all shards of the groups that overlap the mapped time range (what "no pruning" would consult)
	groups, _ := w.data.ShardGroupsByTimeRange(c11DB, c11RP, time.Unix(0, tmin), time.Unix(0, tmax))
	all := 0
	for i := range groups {
		all += len(groups[i].Shards)
	}
	nMatch, nMiss := 0, 0
	reported := false
	mt := cc.tree.matcher(cfg)
	rep.Eval(int64(len(stored)))
	for _, s := range stored {
		p := points[s.pid]
		if !mt.matches(s.pid, p) {
			nMiss++
			continue
		}
		nMatch++
		if shards[s.shard] {
			continue
		}
		if reported {
			rep.Count("further_matching_points_in_skipped_shards", 1)
			continue
		}
		reported = true
		if !cc.tree.matches(cfg, p) {
			panic("c11: tabulated matcher disagrees with direct evaluation")
		}
		kind := c11MissKind(cc, false)
		if g := w.groupOf(s.shard); g != nil {
			selected := false
			for i := range groups {
				selected = selected || groups[i].ID == g.ID
			}
			if !selected {
				kind = "group_with_match_not_selected"
			}
		}
		ids := make([]uint64, 0, len(shards))
		for id := range shards {
			ids = append(ids, id)
		}
		sort.Slice(ids, func(i, j int) bool { return ids[i] < ids[j] })
		rep.Violation(kind, cfg.String()+" | "+from+"WHERE "+name,
			fmt.Sprintf("point %s is stored in shard %d and satisfies WHERE %s, but the query consults only shards %v (of %d in range; mapped time range [%d,%d], condition passed to the mapper: %s)",
				p.String(), s.shard, text, ids, all, tmin, tmax, condStr),
			c11Case{Cfg: cfg, Where: name, Tier: tier, Mst: mst})
	}
	if nMatch > 0 && nMiss > 0 && len(shards) < all {
		if rep.DistinctNontrivial(kit.Hash(cfg.String(), mst, name)) {
			rep.Sample(8, map[string]interface{}{"config": cfg.String(), "where": text, "shards_consulted": len(shards), "shards_in_range": all, "points_matching": nMatch, "points_not_matching": nMiss})
		}
		rep.Count("pruned_nontrivial_pairs", 1)
	}
	if len(shards) < all {
		rep.Count("queries_pruned", 1)
	}
}

// ast builds the residual condition (time comparisons removed, as ConditionExpr does) as a programmatic tree:
// nested BinaryExpr nodes without ParenExpr, the form internal callers construct. nil = no residual condition.
func (n *c11Cond) ast() influxql.Expr {
	if n.Atom != nil {
		if n.Atom.Time != nil {
			return nil
		}
		return influxql.MustParseExpr(n.Atom.Text)
	}
	l, r := n.L.ast(), n.R.ast()
	if l == nil {
		return r
	}
	if r == nil {
		return l
	}
	var op influxql.Token = influxql.AND
	if n.Op == "OR" {
		op = influxql.OR
	}
	return &influxql.BinaryExpr{Op: op, LHS: l, RHS: r}
}

// c11CheckDirect: the seam below the planner. For every group overlapping the query's time range it calls
// ShardGroupInfo.TargetShards the way ClusterShardMapper.mapMstShards does (same measurement, shard key info and
// alive shard list), with the programmatic (ParenExpr-free) tree of the condition.
func c11CheckDirect(rep *kit.Report, w *c11World, cfg c11Config, tier string, points []c11Point, stored []c11Stored, cc c11CondCase) {
	ast := cc.tree.ast()
	if ast == nil {
		return
	}
	name := cc.name()
	tmin, tmax := cc.tree.timeRange(cfg)
	groups, err := w.mc.Client.ShardGroupsByTimeRange(c11DB, c11RP, time.Unix(0, tmin), time.Unix(0, tmax))
	c11Must(err)
	dbi, err := w.mc.Client.Database(c11DB)
	c11Must(err)
	msts, err := w.mc.Client.GetMeasurements(&influxql.Measurement{Database: c11DB, RetentionPolicy: c11RP, Name: c11Mst})
	c11Must(err)
	var ski *meta2.ShardKeyInfo
	if len(dbi.ShardKey.ShardKey) > 0 {
		ski = &dbi.ShardKey
	}
	shards := map[uint64]bool{}
	all := 0
	for i := range groups {
		if ski == nil {
			ski = msts[0].GetShardKey(groups[i].ID)
		}
		alive := w.mc.Client.GetAliveShards(c11DB, &groups[i], true)
		for _, sh := range groups[i].TargetShards(msts[0], ski, ast, alive) {
			shards[sh.ID] = true
		}
		all += len(groups[i].Shards)
	}
	rep.Count("direct_target_shards_queries", 1)
	reported := false
	mt := cc.tree.matcher(cfg)
	rep.Eval(int64(len(stored)))
	for _, s := range stored {
		p := points[s.pid]
		if !mt.matches(s.pid, p) || shards[s.shard] || reported {
			continue
		}
		reported = true
		ids := make([]uint64, 0, len(shards))
		for id := range shards {
			ids = append(ids, id)
		}
		sort.Slice(ids, func(i, j int) bool { return ids[i] < ids[j] })
		rep.Violation("direct_"+c11MissKind(cc, true), cfg.String()+" | TargetShards("+name+")",
			fmt.Sprintf("point %s is stored in shard %d and satisfies the condition tree %s (programmatic tree: %s), but TargetShards over the groups of [%d,%d] returns only shards %v (of %d)",
				p.String(), s.shard, cc.tree.name(false), ast.String(), tmin, tmax, ids, all),
			c11Case{Cfg: cfg, Where: name, Tier: tier, Direct: true})
	}
}

func TestVerifC11(t *testing.T) {
	// the repository's default logger writes below $HOME/.openGemini/logs; the harness logs nothing
	logger.SetLogger(zap.NewNop())
	rep := kit.NewReport("C11")
	defer rep.Save()
	if kit.ReplayPath() != "" {
		var c c11Case
		if err := kit.LoadReplay(&c); err != nil {
			t.Fatal(err)
		}
		thorough := c.Tier == "thorough"
		c11SetTier(thorough)
		var conds []c11CondCase
		for _, cc := range c11Conds(c11Atoms(thorough)) {
			if cc.name() == c.Where {
				conds = append(conds, cc)
				break
			}
		}
		c11RunConfig(rep, c.Cfg, thorough, true, conds, func(int) bool { return true })
		return
	}
	thorough := kit.Thorough()
	c11SetTier(thorough)
	cfgs := c11Configs(thorough)
	conds := c11Conds(c11Atoms(thorough))
	rep.Note("configurations=%d conditions=%d", len(cfgs), len(conds))
	if kit.Shard() == 0 {
		rep.Count("configurations", int64(len(cfgs)))
		rep.Count("conditions", int64(len(conds)))
	}
	for i, cfg := range cfgs {
		if rep.Expired() {
			return
		}
		base := i * len(conds)
		c11RunConfig(rep, cfg, thorough, kit.Mine(i), conds, func(ci int) bool { return kit.Mine(base + ci) })
	}
}
