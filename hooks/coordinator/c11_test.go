//go:build verif

package coordinator

// C11 — each point lands in one covering shard; queries skip no shard with matches.
//
// The harness drives the real write path (PointsWriter.RetryWritePointRows -> routeAndMapOriginRows ->
// updateShardGroupAndShardKey -> Row.UnmarshalShardKeyByTag -> ShardGroupInfo.ShardFor/DestShard) and the real
// read path (yacc parser -> query.Prepare -> ConditionExpr / RewriteRegexConditions -> ClusterShardMapper.MapShards
// -> metaclient.Client.ShardGroupsByTimeRange -> ShardGroupInfo.TargetShards -> getConditionTags) on a catalogue
// (meta.Data) that is built with the commands the meta server applies (CreateDataNode, CreateDatabase,
// CreateRetentionPolicy, CreateMeasurement, CreateShardGroup, ReSharding, UpdateSchema).
// The only replaced pieces are the network: the store behind the writer records (row -> shard id), and the two
// meta RPCs of the writer (create shard group, update schema) are applied to the catalogue directly.

import (
	"errors"
	"fmt"
	"regexp"
	"sort"
	"strings"
	"sync"
	"testing"
	"time"

	"github.com/openGemini/openGemini/lib/config"
	"github.com/openGemini/openGemini/lib/metaclient"
	"github.com/openGemini/openGemini/lib/netstorage"
	"github.com/openGemini/openGemini/lib/util/lifted/influx/influxql"
	meta2 "github.com/openGemini/openGemini/lib/util/lifted/influx/meta"
	proto2 "github.com/openGemini/openGemini/lib/util/lifted/influx/meta/proto"
	"github.com/openGemini/openGemini/lib/util/lifted/influx/query"
	"github.com/openGemini/openGemini/lib/util/lifted/protobuf/proto"
	"github.com/openGemini/openGemini/lib/util/lifted/vm/protoparser/influx"
	kit "github.com/openGemini/openGemini/lib/verifkit"
	"go.uber.org/zap"
)

const (
	c11DB  = "db0"
	c11RP  = "rp0"
	c11Mst = "m"
)

// c11Base is 2023-01-01T00:00:00Z: aligned to both group durations (1h, 24h).
const c11Base int64 = 1672531200 * 1e9

// ---------------------------------------------------------------------------------------------------------------
// configuration

type c11Config struct {
	Nodes       int      `json:"nodes"`         // data nodes
	PtPerNode   int      `json:"pt_per_node"`   // partitions per node; shards per group = Nodes*PtPerNode (hash)
	DurH        int      `json:"dur_h"`         // shard group duration in hours
	Sharding    string   `json:"sharding"`      // "hash" | "range"
	Key         []string `json:"key"`           // shard key (nil = none)
	KeyAtDB     bool     `json:"key_at_db"`     // shard key declared on the database instead of the measurement
	NumOfShards int      `json:"num_of_shards"` // hash only: CREATE MEASUREMENT ... SHARDS n (0 = default: all)
	Bounds      []string `json:"bounds"`        // range only: split points of the re-sharding (shards = len+1)
}

func (c c11Config) String() string {
	return fmt.Sprintf("nodes=%d ptpn=%d dur=%dh %s key=[%s] atdb=%v shards=%d bounds=%q",
		c.Nodes, c.PtPerNode, c.DurH, c.Sharding, strings.Join(c.Key, ","), c.KeyAtDB, c.NumOfShards, c.Bounds)
}

func (c c11Config) dur() int64 { return int64(c.DurH) * int64(time.Hour) }

// times: B0 = base, B1 = base+d, B2 = base+2d, S = split time of the re-sharding (inside [B1,B2)).
func (c c11Config) b(i int) int64  { return c11Base + int64(i)*c.dur() }
func (c c11Config) split() int64   { return c.b(1) + c.dur()/2 }
func (c c11Config) ptNum() int     { return c.Nodes * c.PtPerNode }
func (c c11Config) isRange() bool  { return c.Sharding == "range" }
func (c c11Config) hasKey(k string) bool {
	for _, x := range c.Key {
		if x == k {
			return true
		}
	}
	return false
}

// ---------------------------------------------------------------------------------------------------------------
// points

type c11Point struct {
	Host   string `json:"host"`   // "" = tag absent
	Region string `json:"region"` // "" = tag absent
	Usage  int    `json:"usage"`
	T      int64  `json:"t"`
}

func (p c11Point) String() string {
	return fmt.Sprintf("{host=%q region=%q usage=%d t=base%+d}", p.Host, p.Region, p.Usage, p.T-c11Base)
}

var c11TagCombos = [][2]string{{"a", "x"}, {"a", "y"}, {"b", "x"}, {"b", "y"}, {"a", ""}, {"", "x"}, {"", ""}}

// c11Times returns (phase-1 times, phase-2 times). Phase 1 is written before the re-sharding (range) and never
// touches B2.. nor ..B0-1, so that those groups are created after the re-sharding.
func c11Times(c c11Config, thorough bool) (p1, p2 []int64) {
	b0, b1, b2, s := c.b(0), c.b(1), c.b(2), c.split()
	p1 = []int64{b0, b0 + 1, b1 - 1, b1, b1 + 1, s, s + 1, s + 2, b2 - 1}
	p2 = append([]int64{b0 - 1}, p1...)
	p2 = append(p2, b2, b2+1)
	if thorough {
		p2 = append(p2, b0-c.dur()-1, b0-c.dur(), c.b(3)-1, c.b(3))
	}
	return
}

func c11Points(times []int64) []c11Point {
	var out []c11Point
	for _, t := range times {
		for _, tc := range c11TagCombos {
			for _, u := range []int{0, 2} {
				out = append(out, c11Point{Host: tc[0], Region: tc[1], Usage: u, T: t})
			}
		}
	}
	return out
}

func (p c11Point) row(pid int) influx.Row {
	r := influx.Row{Name: c11Mst, Timestamp: p.T}
	if p.Host != "" {
		r.Tags = append(r.Tags, influx.Tag{Key: "host", Value: p.Host})
	}
	if p.Region != "" {
		r.Tags = append(r.Tags, influx.Tag{Key: "region", Value: p.Region})
	}
	r.Fields = influx.Fields{
		{Key: "pid", NumValue: float64(pid), Type: influx.Field_Type_Float},
		{Key: "usage", NumValue: float64(p.Usage), Type: influx.Field_Type_Float},
	}
	return r
}

// accepted: the statement speaks about accepted points; a point lacking a shard-key tag is rejected by design.
func (p c11Point) hasKey(c c11Config) bool {
	for _, k := range c.Key {
		if (k == "host" && p.Host == "") || (k == "region" && p.Region == "") {
			return false
		}
	}
	return true
}

// ---------------------------------------------------------------------------------------------------------------
// catalogue + the two ends

type c11Meta struct {
	*metaclient.Client
	data *meta2.Data
}

// CreateShardGroup: what the meta server applies for the client's CreateShardGroupCommand (ApplyCreateShardGroup ->
// Data.CreateShardGroup), followed by the real client code, which now finds the group in its cache.
func (m *c11Meta) CreateShardGroup(database, policy string, timestamp time.Time, version uint32, engineType config.EngineType) (*meta2.ShardGroupInfo, error) {
	_, tier, err := m.data.GetTierOfShardGroup(database, policy, timestamp, m.Client.ShardTier, engineType)
	if err != nil {
		return nil, err
	}
	if err := m.data.CreateShardGroup(database, policy, timestamp, tier, engineType, version); err != nil {
		return nil, err
	}
	return m.Client.CreateShardGroup(database, policy, timestamp, version, engineType)
}

func (m *c11Meta) UpdateSchema(database string, retentionPolicy string, mst string, fieldToCreate []*proto2.FieldSchema) error {
	return m.data.UpdateSchema(database, retentionPolicy, mst, fieldToCreate)
}

func (m *c11Meta) UpdateSchemaByCmd(cmd *proto2.UpdateSchemaCommand) error {
	return m.data.UpdateSchema(cmd.GetDatabase(), cmd.GetRpName(), cmd.GetMeasurement(), cmd.GetFieldToCreate())
}

func (m *c11Meta) CreateMeasurement(database string, retentionPolicy string, mst string, shardKey *meta2.ShardKeyInfo, numOfShards int32, indexR *influxql.IndexRelation,
	engineType config.EngineType, colStoreInfo *meta2.ColStoreInfo, schemaInfo []*proto2.FieldSchema, options *meta2.Options) (*meta2.MeasurementInfo, error) {
	return nil, errors.New("c11: unexpected CreateMeasurement RPC")
}

// c11Store stands for the stores behind the writer: it records which shard every row was sent to.
type c11Store struct {
	mu   sync.Mutex
	sent map[int][]uint64 // pid -> shard ids
}

func (s *c11Store) WriteRows(ctx *netstorage.WriteContext, nodeID uint64, pt uint32, database, rp string, timeout time.Duration) error {
	s.mu.Lock()
	defer s.mu.Unlock()
	for i := range ctx.Rows {
		r := &ctx.Rows[i]
		pid := -1
		for j := range r.Fields {
			if r.Fields[j].Key == "pid" {
				pid = int(r.Fields[j].NumValue)
			}
		}
		s.sent[pid] = append(s.sent[pid], ctx.Shard.ID)
	}
	return nil
}

type c11World struct {
	cfg    c11Config
	data   *meta2.Data
	mc     *c11Meta
	pw     *PointsWriter
	store  *c11Store
	mapper *c11Mapper
}

func c11Must(err error) {
	if err != nil {
		panic("c11 setup: " + err.Error())
	}
}

func c11NewWorld(c c11Config) *c11World {
	meta2.DataLogger = zap.NewNop()
	data := &meta2.Data{PtNumPerNode: uint32(c.PtPerNode)}
	for i := 0; i < c.Nodes; i++ {
		_, err := data.CreateDataNode(fmt.Sprintf("127.0.0.%d:8400", i+1), fmt.Sprintf("127.0.0.%d:8401", i+1), "", "")
		c11Must(err)
	}
	typ := influxql.HASH
	if c.isRange() {
		typ = influxql.RANGE
	}
	var dbKey, mstKey *proto2.ShardKeyInfo
	if c.KeyAtDB {
		dbKey = &proto2.ShardKeyInfo{ShardKey: c.Key, Type: proto.String(typ)}
		mstKey = &proto2.ShardKeyInfo{ShardKey: c.Key, Type: proto.String(typ)}
	} else {
		mstKey = &proto2.ShardKeyInfo{ShardKey: c.Key, Type: proto.String(typ)}
	}
	c11Must(data.CreateDatabase(c11DB, nil, dbKey, false, 1, nil))
	rp := meta2.NewRetentionPolicyInfo(c11RP)
	rp.ShardGroupDuration = time.Duration(c.dur())
	rp.Duration = 0
	c11Must(data.CreateRetentionPolicy(c11DB, rp, true))
	_, err := data.CreateDBPtView(c11DB)
	c11Must(err)
	for i := range data.PtView[c11DB] {
		data.PtView[c11DB][i].Status = meta2.Online
	}
	c11Must(data.CreateMeasurement(c11DB, c11RP, c11Mst, mstKey, int32(c.NumOfShards), nil, config.TSSTORE, nil, nil, nil))

	w := &c11World{cfg: c, data: data}
	cl := &metaclient.Client{}
	cl.SetCacheData(data)
	w.mc = &c11Meta{Client: cl, data: data}
	w.store = &c11Store{sent: map[int][]uint64{}}
	w.pw = NewPointsWriter(5 * time.Second)
	w.pw.MetaClient = w.mc
	w.pw.TSDBStore = w.store
	w.mapper = &c11Mapper{csm: &ClusterShardMapper{MetaClient: cl, Logger: w.pw.logger}}
	return w
}

// write sends the points (in the given order, batch = all of them) through the real writer and returns pid -> shards.
func (w *c11World) write(points []c11Point, order []int) (map[int][]uint64, error) {
	rows := make([]influx.Row, 0, len(order))
	for _, pid := range order {
		rows = append(rows, points[pid].row(pid))
	}
	w.store.sent = map[int][]uint64{}
	err := w.pw.RetryWritePointRows(c11DB, c11RP, rows)
	return w.store.sent, err
}

// groupOf returns the shard group that owns shard id.
func (w *c11World) groupOf(shard uint64) *meta2.ShardGroupInfo {
	rp, _ := w.data.RetentionPolicy(c11DB, c11RP)
	for i := range rp.ShardGroups {
		for j := range rp.ShardGroups[i].Shards {
			if rp.ShardGroups[i].Shards[j].ID == shard {
				return &rp.ShardGroups[i]
			}
		}
	}
	return nil
}

// ---------------------------------------------------------------------------------------------------------------
// read side: the planner's own ShardMapper hook. It runs the real cluster mapper and stops the planner afterwards.

var errC11Stop = errors.New("c11: shard mapping captured")

type c11Mapper struct {
	csm    *ClusterShardMapper
	shards map[uint64]bool
	tmin   int64
	tmax   int64
	cond   string
	called int
}

func (m *c11Mapper) MapShards(stmt *influxql.SelectStatement, t influxql.TimeRange, opt query.SelectOptions, condition influxql.Expr) (query.ShardGroup, error) {
	m.called++
	sg, err := m.csm.MapShards(stmt, t, opt, condition)
	if err != nil {
		return nil, err
	}
	csming := sg.(*ClusterShardMapping)
	m.shards = map[uint64]bool{}
	for _, byPt := range csming.ShardMap {
		for _, shs := range byPt {
			for _, sh := range shs {
				m.shards[sh.ID] = true
			}
		}
	}
	m.tmin, m.tmax = t.MinTimeNano(), t.MaxTimeNano()
	if condition != nil {
		m.cond = condition.String()
	} else {
		m.cond = "<nil>"
	}
	return nil, errC11Stop
}

func (m *c11Mapper) Close() error { return nil }

// mapQuery: SELECT text -> production parser -> RewriteStatement -> query.Prepare -> MapShards.
func (w *c11World) mapQuery(where string) (shards map[uint64]bool, tmin, tmax int64, cond string, err error) {
	sql := fmt.Sprintf("SELECT usage FROM %s.%s.%s", c11DB, c11RP, c11Mst)
	if where != "" {
		sql += " WHERE " + where
	}
	parser := influxql.NewParser(strings.NewReader(sql))
	defer parser.Release()
	yy := influxql.NewYyParser(parser.GetScanner(), make(map[string]interface{}))
	yy.ParseTokens()
	q, err := yy.GetQuery()
	if err != nil {
		return nil, 0, 0, "", fmt.Errorf("parse %q: %v", sql, err)
	}
	stmt, err := query.RewriteStatement(q.Statements[0])
	if err != nil {
		return nil, 0, 0, "", fmt.Errorf("rewrite %q: %v", sql, err)
	}
	sel, ok := stmt.(*influxql.SelectStatement)
	if !ok {
		return nil, 0, 0, "", fmt.Errorf("not a select: %q", sql)
	}
	w.mapper.called = 0
	_, err = query.Prepare(sel, w.mapper, query.SelectOptions{})
	if err != errC11Stop {
		return nil, 0, 0, "", fmt.Errorf("prepare %q: mapper called %d times, err=%v", sql, w.mapper.called, err)
	}
	return w.mapper.shards, w.mapper.tmin, w.mapper.tmax, w.mapper.cond, nil
}

// ---------------------------------------------------------------------------------------------------------------
// conditions: own tree (the oracle evaluates this, never the parsed AST)

type c11Atom struct {
	Text string
	// eval on tags/fields; time atoms have Time != nil
	Eval func(p c11Point) bool
	Time func(c c11Config) (min, max int64, text string) // inclusive bounds
}

type c11Cond struct {
	Atom *c11Atom
	Op   string // "AND" | "OR"
	L, R *c11Cond
}

const (
	c11MinTime = influxql.MinTime
	c11MaxTime = influxql.MaxTime
)

func c11TagAtom(text string, f func(p c11Point) bool) *c11Atom { return &c11Atom{Text: text, Eval: f} }

var c11ReA = regexp.MustCompile("a")

func c11Atoms(thorough bool) []*c11Atom {
	at := []*c11Atom{
		c11TagAtom("host = 'a'", func(p c11Point) bool { return p.Host == "a" }),
		c11TagAtom("host = 'b'", func(p c11Point) bool { return p.Host == "b" }),
		c11TagAtom("region = 'x'", func(p c11Point) bool { return p.Region == "x" }),
		c11TagAtom("host != 'a'", func(p c11Point) bool { return p.Host != "a" }),
		c11TagAtom("host =~ /a/", func(p c11Point) bool { return c11ReA.MatchString(p.Host) }),
		c11TagAtom("usage > 1", func(p c11Point) bool { return p.Usage > 1 }),
		{Text: "time >= B1", Time: func(c c11Config) (int64, int64, string) {
			return c.b(1), c11MaxTime, fmt.Sprintf("time >= %d", c.b(1))
		}},
	}
	if thorough {
		at = append(at,
			c11TagAtom("region = 'y'", func(p c11Point) bool { return p.Region == "y" }),
			c11TagAtom("host = 'c'", func(p c11Point) bool { return p.Host == "c" }),
			c11TagAtom("'a' = host", func(p c11Point) bool { return p.Host == "a" }),
			c11TagAtom("host =~ /^a$/", func(p c11Point) bool { return p.Host == "a" }),
			c11TagAtom("region !~ /x/", func(p c11Point) bool { return !strings.Contains(p.Region, "x") }),
			c11TagAtom("usage = 0", func(p c11Point) bool { return p.Usage == 0 }),
			&c11Atom{Text: "time < B1", Time: func(c c11Config) (int64, int64, string) {
				return c11MinTime, c.b(1) - 1, fmt.Sprintf("time < %d", c.b(1))
			}},
			&c11Atom{Text: "time > S", Time: func(c c11Config) (int64, int64, string) {
				return c.split() + 1, c11MaxTime, fmt.Sprintf("time > %d", c.split())
			}},
			&c11Atom{Text: "time <= B2-1", Time: func(c c11Config) (int64, int64, string) {
				return c11MinTime, c.b(2) - 1, fmt.Sprintf("time <= %d", c.b(2)-1)
			}},
		)
	}
	return at
}

// render prints the tree with the given parenthesisation; time literals depend on the configuration.
func (n *c11Cond) render(c c11Config, paren bool) string {
	if n.Atom != nil {
		if n.Atom.Time != nil {
			_, _, s := n.Atom.Time(c)
			return s
		}
		return n.Atom.Text
	}
	s := n.L.render(c, true) + " " + n.Op + " " + n.R.render(c, true)
	if paren {
		return "(" + s + ")"
	}
	return s
}

// name is the configuration-independent text (used for keys and distinct counting).
func (n *c11Cond) name(paren bool) string {
	if n.Atom != nil {
		return n.Atom.Text
	}
	s := n.L.name(true) + " " + n.Op + " " + n.R.name(true)
	if paren {
		return "(" + s + ")"
	}
	return s
}

// timeRange: InfluxQL defines the query's time range as the intersection of all time comparisons of the WHERE
// clause, wherever they stand ("there is no such thing as using OR with a time range"); the remaining tree is the
// condition. The oracle follows the language here (that semantic belongs to C08), see notes.
func (n *c11Cond) timeRange(c c11Config) (min, max int64) {
	min, max = c11MinTime, c11MaxTime
	if n.Atom != nil {
		if n.Atom.Time != nil {
			min, max, _ = n.Atom.Time(c)
		}
		return
	}
	lmin, lmax := n.L.timeRange(c)
	rmin, rmax := n.R.timeRange(c)
	if lmin > min {
		min = lmin
	}
	if rmin > min {
		min = rmin
	}
	if lmax < max {
		max = lmax
	}
	if rmax < max {
		max = rmax
	}
	return
}

// eval3 evaluates the residual condition (time atoms removed): 1 true, 0 false, -1 "no condition" (subtree vanished).
func (n *c11Cond) eval3(p c11Point) int {
	if n.Atom != nil {
		if n.Atom.Time != nil {
			return -1
		}
		if n.Atom.Eval(p) {
			return 1
		}
		return 0
	}
	l, r := n.L.eval3(p), n.R.eval3(p)
	if l == -1 {
		return r
	}
	if r == -1 {
		return l
	}
	if n.Op == "AND" {
		if l == 1 && r == 1 {
			return 1
		}
		return 0
	}
	if l == 1 || r == 1 {
		return 1
	}
	return 0
}

func (n *c11Cond) matches(c c11Config, p c11Point) bool {
	min, max := n.timeRange(c)
	if p.T < min || p.T > max {
		return false
	}
	return n.eval3(p) != 0
}

func (n *c11Cond) atoms() int {
	if n.Atom != nil {
		return 1
	}
	return n.L.atoms() + n.R.atoms()
}

// c11Conds enumerates every tree of <= 3 atoms. Three texts exist for three atoms: "A o B p C" (the parser's
// precedence decides: AND binds tighter than OR, equal operators associate to the left), "(A o B) p C", "A o (B p C)".
// Each is generated as (tree, text-form); the tree for the unparenthesised text is built with that precedence.
type c11CondCase struct {
	tree  *c11Cond
	plain bool // render without the inner parentheses (A o B p C)
}

func c11Conds(atoms []*c11Atom) []c11CondCase {
	var out []c11CondCase
	leaf := func(a *c11Atom) *c11Cond { return &c11Cond{Atom: a} }
	ops := []string{"AND", "OR"}
	for _, a := range atoms {
		out = append(out, c11CondCase{tree: leaf(a)})
	}
	for _, a := range atoms {
		for _, o := range ops {
			for _, b := range atoms {
				out = append(out, c11CondCase{tree: &c11Cond{Op: o, L: leaf(a), R: leaf(b)}})
			}
		}
	}
	for _, a := range atoms {
		for _, o := range ops {
			for _, b := range atoms {
				for _, p := range ops {
					for _, c := range atoms {
						left := &c11Cond{Op: p, L: &c11Cond{Op: o, L: leaf(a), R: leaf(b)}, R: leaf(c)}
						right := &c11Cond{Op: o, L: leaf(a), R: &c11Cond{Op: p, L: leaf(b), R: leaf(c)}}
						out = append(out, c11CondCase{tree: left}, c11CondCase{tree: right})
						// plain text "a o b p c": right-nested only for "a OR b AND c"
						if o == "OR" && p == "AND" {
							out = append(out, c11CondCase{tree: right, plain: true})
						} else {
							out = append(out, c11CondCase{tree: left, plain: true})
						}
					}
				}
			}
		}
	}
	return out
}

func (cc c11CondCase) text(c c11Config) string {
	if cc.plain {
		return c11Plain(cc.tree, func(n *c11Cond) string { return n.render(c, false) })
	}
	return cc.tree.render(c, false)
}

func (cc c11CondCase) name() string {
	if cc.plain {
		return c11Plain(cc.tree, func(n *c11Cond) string { return n.name(false) })
	}
	return cc.tree.name(false)
}

// c11Plain prints a 3-atom tree as "a o b p c" without parentheses.
func c11Plain(n *c11Cond, leaf func(*c11Cond) string) string {
	var parts []string
	var walk func(x *c11Cond)
	walk = func(x *c11Cond) {
		if x.Atom != nil {
			parts = append(parts, leaf(x))
			return
		}
		walk(x.L)
		parts = append(parts, x.Op)
		walk(x.R)
	}
	walk(n)
	return strings.Join(parts, " ")
}

// ---------------------------------------------------------------------------------------------------------------
// configurations

func c11KeyStrings(key []string) []string {
	// candidate split points for range sharding: shard keys that the point set produces (what
	// ShardKeyIndex.GetSplitPoints returns) plus strings between / around them
	name := influx.GetNameWithVersion(c11Mst, 0)
	set := map[string]bool{}
	for _, tc := range c11TagCombos {
		s := name
		ok := true
		if len(key) == 0 {
			if tc[0] != "" {
				s += ",host=" + tc[0]
			}
			if tc[1] != "" {
				s += ",region=" + tc[1]
			}
		} else {
			for _, k := range key {
				v := tc[0]
				if k == "region" {
					v = tc[1]
				}
				if v == "" {
					ok = false
					break
				}
				s += "," + k + "=" + v
			}
		}
		if ok {
			set[s] = true
		}
	}
	set[name+",host=a!"] = true // between "host=a" and "host=a,region=..."
	set[name+",host=aa"] = true // between host=a,... and host=b
	var out []string
	for s := range set {
		out = append(out, s)
	}
	sort.Strings(out)
	return out
}

func c11Subsets(items []string, k int) [][]string {
	var out [][]string
	var rec func(start int, cur []string)
	rec = func(start int, cur []string) {
		if len(cur) == k {
			out = append(out, append([]string(nil), cur...))
			return
		}
		for i := start; i < len(items); i++ {
			rec(i+1, append(cur, items[i]))
		}
	}
	rec(0, nil)
	return out
}

func c11Configs(thorough bool) []c11Config {
	var out []c11Config
	keys := [][]string{nil, {"host"}, {"host", "region"}}
	type topo struct{ nodes, ptpn int }
	topos := []topo{{1, 1}, {2, 1}, {3, 1}, {4, 1}}
	if thorough {
		topos = append(topos, topo{1, 2}, topo{1, 3}, topo{2, 2}, topo{1, 4})
	}
	for _, tp := range topos {
		n := tp.nodes * tp.ptpn
		for _, durH := range []int{1, 24} {
			for _, key := range keys {
				for _, atDB := range []bool{false, true} {
					if atDB && len(key) == 0 {
						continue
					}
					// hash
					for nos := 0; nos < n; nos++ {
						out = append(out, c11Config{Nodes: tp.nodes, PtPerNode: tp.ptpn, DurH: durH, Sharding: "hash", Key: key, KeyAtDB: atDB, NumOfShards: nos})
					}
					// range: shards = len(bounds)+1 = n
					cands := c11KeyStrings(key)
					for _, bs := range c11Subsets(cands, n-1) {
						out = append(out, c11Config{Nodes: tp.nodes, PtPerNode: tp.ptpn, DurH: durH, Sharding: "range", Key: key, KeyAtDB: atDB, Bounds: bs})
					}
				}
			}
		}
	}
	return out
}

// ---------------------------------------------------------------------------------------------------------------

type c11Case struct {
	Cfg   c11Config `json:"cfg"`
	Where string    `json:"where"` // configuration-independent name of the condition ("" = write side only)
}

func TestVerifC11(t *testing.T) {
	rep := kit.NewReport("C11")
	defer rep.Save()
	thorough := kit.Thorough()
	cfgs := c11Configs(thorough)
	conds := c11Conds(c11Atoms(thorough))
	rep.Note("configs=%d conditions=%d", len(cfgs), len(conds))
	t.Logf("configs=%d conds=%d", len(cfgs), len(conds))
}
