import json,sys
# usage: markfixed.py diffname=commit ...
commits=dict(a.split('=') for a in sys.argv[1:])
out=[]
n=0
for line in open('/verif/KNOWN_FINDINGS.jsonl'):
    if not line.strip(): continue
    o=json.loads(line)
    pf=o.get("pending_fix")
    if pf in commits:
        o["status"]="fixed"; o["commit"]=commits[pf]; del o["pending_fix"]
        o["record"]="fixed: property=%s %s %s" % (o["property"], commits[pf], o["what"]); n+=1
    out.append(json.dumps(o, ensure_ascii=False))
open('/verif/KNOWN_FINDINGS.jsonl','w').write("\n".join(out)+"\n")
print("marked",n)
