# source me: Go environment for building /repo offline
export PATH=/root/go/pkg/mod/golang.org/toolchain@v0.0.1-go1.25.0.linux-amd64/bin:$PATH
export GOTOOLCHAIN=local GOFLAGS=-mod=mod GOPROXY=off GOSUMDB=off
export VERIF_ROOT=/verif
