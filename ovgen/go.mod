module ovgen

go 1.25.0
