// Package x holds one function per form of range-over-map statement; ovgen/maporder/selftest.sh rewrites it and
// checks the visiting order under each mode.
package x // trailing comment on the package clause

import (
	"fmt"
	"strings"
)

type Named map[string]int
type ID uint32
type Pt struct{ A, B int }

var calls int

func get(m map[string]int) map[string]int { calls++; return m }

// KV: k, v :=
func KV(m map[string]int) string {
	var sb strings.Builder
	for k, v := range m { // comment after the brace
		fmt.Fprintf(&sb, "%s=%d ", k, v)
	}
	return sb.String()
}

// K: k := over a named map type with a named integer key
func K(m map[ID]bool) string {
	var sb strings.Builder
	for k := range m {
		fmt.Fprintf(&sb, "%d ", k)
	}
	return sb.String()
}

// V: _, v := over a named map type
func V(m Named) string {
	var sb strings.Builder
	for _, v := range m {
		fmt.Fprintf(&sb, "%d ", v)
	}
	return sb.String()
}

// None: for range m, operand evaluated exactly once
func None(m map[string]int) (n int, evaluations int) {
	calls = 0
	for range get(m) {
		n++
	}
	return n, calls
}

// Assign: = instead of :=, into arbitrary addressable operands
func Assign(m map[string]int) string {
	var k string
	var s struct{ v [2]int }
	var sb strings.Builder
	for k, s.v[1] = range m {
		fmt.Fprintf(&sb, "%s=%d ", k, s.v[1])
	}
	return sb.String() + "last=" + k
}

// AssignK: k = only; blank forms
func AssignK(m map[string]int) string {
	var k string
	n := 0
	for k = range m {
		n++
	}
	for _ = range m {
		n++
	}
	for _, _ = range m {
		n++
	}
	for k, _ = range m {
		n++
	}
	for k, _ := range m {
		_ = k
		n++
	}
	return fmt.Sprint(k, n)
}

// Labelled: continue / break with labels through nested rewritten loops, single-line body
func Labelled(m map[string]map[int]string) string {
	var sb strings.Builder
outer:
	for k, inner := range m {
		for i, s := range inner { if i == 0 { continue }; if i == 9 { continue outer }; if i == 99 { break outer }; fmt.Fprintf(&sb, "%s.%d=%s ", k, i, s) }
	}
	return sb.String()
}

// Delete: entries deleted during the iteration are not produced; added ones are not visited
func Delete(m map[int]int) string {
	var sb strings.Builder
	for k := range m {
		fmt.Fprintf(&sb, "%d ", k)
		delete(m, k+1)
		delete(m, k-1)
		m[k+100] = 1
	}
	return sb.String()
}

// First: the classic order-dependent pick
func First(m map[string]int) string {
	for k := range m {
		return k
	}
	return ""
}

// Closure: per-iteration variables captured by closures; operand with a function literal (no range inside)
func Closure(m map[string]int) string {
	var fs []func() string
	for k, v := range func() map[string]int { return m }() {
		fs = append(fs, func() string { return fmt.Sprintf("%s=%d ", k, v) })
	}
	var sb strings.Builder
	for _, f := range fs {
		sb.WriteString(f())
	}
	return sb.String()
}

// Untouched: key types that are not ordered stay as they are
func Untouched(a map[Pt]int, b map[*int]int, c map[bool]int, d map[any]int, e map[[2]int]int) int {
	n := 0
	for range a {
		n++
	}
	for k := range b {
		_ = k
		n++
	}
	for _, v := range c {
		n += v
	}
	for k, v := range d {
		_, _ = k, v
		n++
	}
	for range e {
		n++
	}
	return n
}

// Generic: a map type parameter is left alone; a map with a type-parameter key too
func Generic[M ~map[string]int, K comparable](m M, g map[K]int) int {
	n := 0
	for range m {
		n++
	}
	for range g {
		n++
	}
	return n
}

// Floats and strings of other kinds
func Float(m map[float64]string) string {
	var sb strings.Builder
	for k, v := range m {
		fmt.Fprintf(&sb, "%g=%s ", k, v)
	}
	return sb.String()
}

// NestedOperand: a range statement inside the operand of another one is left alone (outer), inner is rewritten
func NestedOperand(m map[string]int) int {
	n := 0
	for range func() map[string]int {
		for range m {
			n++
		}
		return m
	}() {
		n++
	}
	return n
}
