package main

import (
	"fmt"
	"os"

	kit "github.com/openGemini/openGemini/lib/verifkit"
	"github.com/openGemini/openGemini/x"
)

var bad = 0

func eq(what string, got, want any) {
	if fmt.Sprint(got) != fmt.Sprint(want) {
		bad++
		fmt.Printf("FAIL %s: got %q want %q\n", what, fmt.Sprint(got), fmt.Sprint(want))
	}
}

func main() {
	m := func() map[string]int { return map[string]int{"b": 2, "a": 1, "c": 3} }
	for _, mode := range []int32{kit.MapOrderAscending, kit.MapOrderDescending} {
		kit.SetMapOrder(mode)
		asc := mode == kit.MapOrderAscending
		pick := func(a, d string) string {
			if asc {
				return a
			}
			return d
		}
		eq("KV", x.KV(m()), pick("a=1 b=2 c=3 ", "c=3 b=2 a=1 "))
		eq("K", x.K(map[x.ID]bool{3: true, 1: true, 2: false}), pick("1 2 3 ", "3 2 1 "))
		eq("V", x.V(x.Named{"b": 2, "a": 1, "c": 3}), pick("1 2 3 ", "3 2 1 "))
		n, ev := x.None(m())
		eq("None", fmt.Sprint(n, ev), "3 1")
		eq("Assign", x.Assign(m()), pick("a=1 b=2 c=3 last=c", "c=3 b=2 a=1 last=a"))
		eq("AssignK", x.AssignK(m()), pick("c15", "a15"))
		lm := map[string]map[int]string{
			"p": {0: "skip", 1: "one", 2: "two"},
			"q": {1: "one", 9: "next", 10: "ten"},
			"r": {5: "five", 99: "stop", 100: "hundred"},
			"s": {1: "never"},
		}
		eq("Labelled", x.Labelled(lm), pick("p.1=one p.2=two q.1=one r.5=five ", "s.1=never r.100=hundred "))
		eq("Delete", x.Delete(map[int]int{1: 0, 2: 0, 3: 0, 4: 0, 5: 0}), pick("1 3 5 ", "5 3 1 "))
		eq("First", x.First(m()), pick("a", "c"))
		eq("Closure", x.Closure(m()), pick("a=1 b=2 c=3 ", "c=3 b=2 a=1 "))
		one := 1
		eq("Untouched", x.Untouched(map[x.Pt]int{}, map[*int]int{&one: 1}, map[bool]int{true: 5}, map[any]int{"x": 1}, map[[2]int]int{{1, 2}: 1}), 8)
		eq("Generic", x.Generic(m(), map[int]int{1: 1}), 4)
		eq("Float", x.Float(map[float64]string{2.5: "b", -1: "a"}), pick("-1=a 2.5=b ", "2.5=b -1=a "))
		eq("NestedOperand", x.NestedOperand(m()), 6)
	}
	// native mode: same multiset, some order
	kit.SetMapOrder(kit.MapOrderNative)
	seen := map[string]bool{}
	for i := 0; i < 200; i++ {
		seen[x.First(m())] = true
	}
	eq("native order varies", len(seen) > 1, true)
	eq("nil map", x.KV(nil), "")
	r := kit.MapOrderRanges()
	eq("counters", r[kit.MapOrderAscending] > 0 && r[kit.MapOrderDescending] > 0 && r[kit.MapOrderNative] > 0, true)
	if bad > 0 {
		os.Exit(1)
	}
	fmt.Println("selftest ok")
}
