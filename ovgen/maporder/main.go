// maporder rewrites every `for ... := range <map>` of the given repository packages (non-test files)
// whose map key type is ordered (string / integer / float kinds) so that the iteration order is
// chosen at run time by the harness (lib/verifkit: MapIter, SetMapOrder):
//
//	L: for k, v := range X { body }
//	  ->
//	L: for verifItN := verifkit.MapIter(X); verifItN.Next(); { k, v := verifItN.KV(); body }
//
// X is evaluated once; the label keeps labelling a for statement (break L / continue L stay valid);
// `continue` needs no post statement (Next advances); entries deleted during the iteration are
// skipped, entries added are not visited (both legal behaviours of Go's range over a map); `=`
// instead of `:=`, `k` only, `_, v`, and `for range X` are handled.  Maps with non-ordered key types
// (structs, pointers, interfaces, arrays, bool ...) are left untouched and listed.
//
// The rewrite is a text splice of the loop header only (line numbers of the file do not change), the
// operand types come from go/types; dependencies are imported from the compiler's export data that
// `go list -export -deps` names (standard library only, about 1 s when the build cache is warm).
//
// Usage: maporder -repo /repo -out DIR [-nocache] pkgdir...
// Output (stdout): JSON {"key":..., "dir": DIR/<key>, "cached": bool, "files": {relative path: rewritten copy},
// "stats": {...}}.  The result is cached in DIR/<key>/ where key = sha256 over the generator's version, the Go
// version, the non-test .go files of the packages and of the in-module packages they import directly.
package main

import (
	"bytes"
	"crypto/sha256"
	"encoding/hex"
	"encoding/json"
	"flag"
	"fmt"
	"go/ast"
	"go/importer"
	"go/parser"
	"go/token"
	"go/types"
	"io"
	"os"
	"os/exec"
	"path/filepath"
	"runtime"
	"sort"
	"strconv"
	"strings"
	"time"
)

const (
	mod     = "github.com/openGemini/openGemini"
	kitPath = mod + "/lib/verifkit"
	version = "maporder-5" // bump when the rewrite changes: invalidates every cached result
)

type site struct {
	Pos    string `json:"pos"`              // file:line (relative to the repository root)
	Func   string `json:"func"`             // enclosing function
	Map    string `json:"map"`              // type of the range operand
	Form   string `json:"form"`             // "k,v:=" ...
	Reason string `json:"reason,omitempty"` // why it was left untouched
}

type pkgStats struct {
	Files          int            `json:"files"`
	FilesRewritten int            `json:"files_rewritten"`
	RangeStmts     int            `json:"range_statements"`
	RangeByOperand map[string]int `json:"range_by_operand_kind"`
	Rewritten      int            `json:"map_range_sites_rewritten"`
	Untouched      int            `json:"map_range_sites_untouched"`
	RewrittenSites []site         `json:"rewritten_sites"`
	UntouchedSites []site         `json:"untouched_sites"`
	TypeErrors     []string       `json:"type_errors,omitempty"`
}

type result struct {
	Key    string               `json:"key"`
	Dir    string               `json:"dir"`
	Cached bool                 `json:"cached"`
	Files  map[string]string    `json:"files"`
	Stats  map[string]*pkgStats `json:"stats"`
	WallS  float64              `json:"gen_wall_s"`
}

func die(f string, a ...any) {
	fmt.Fprintf(os.Stderr, "maporder: "+f+"\n", a...)
	os.Exit(1)
}

func main() {
	repo := flag.String("repo", "/repo", "repository root")
	out := flag.String("out", "", "cache directory for rewritten copies")
	nocache := flag.Bool("nocache", false, "regenerate even if a cached result exists")
	flag.Parse()
	if *out == "" || flag.NArg() == 0 {
		die("usage: maporder -repo ROOT -out DIR pkgdir...")
	}
	root, err := filepath.Abs(*repo)
	if err != nil {
		die("%v", err)
	}
	pkgs := flag.Args()
	key := cacheKey(root, pkgs)
	dir := filepath.Join(*out, key)
	resPath := filepath.Join(dir, "result.json")
	if !*nocache {
		if b, err := os.ReadFile(resPath); err == nil {
			var r result
			if json.Unmarshal(b, &r) == nil && r.Key == key {
				r.Cached = true
				r.Dir = dir
				now := time.Now()
				_ = os.Chtimes(resPath, now, now) // recently used
				emit(&r)
				return
			}
		}
	}
	t0 := time.Now()
	tmp, err := os.MkdirTemp(*out, "tmp-"+key[:8]+"-")
	if err != nil {
		if err = os.MkdirAll(*out, 0o755); err == nil {
			tmp, err = os.MkdirTemp(*out, "tmp-"+key[:8]+"-")
		}
		if err != nil {
			die("%v", err)
		}
	}
	defer os.RemoveAll(tmp)
	r := generate(root, pkgs, tmp)
	r.Key = key
	r.WallS = time.Now().Sub(t0).Seconds()
	b, _ := json.MarshalIndent(r, "", " ")
	if err := os.WriteFile(filepath.Join(tmp, "result.json"), b, 0o644); err != nil {
		die("%v", err)
	}
	// publish atomically; a concurrent generator with the same key may have won: its result is identical
	if err := os.Rename(tmp, dir); err != nil {
		if _, e2 := os.Stat(resPath); e2 != nil || *nocache {
			os.RemoveAll(dir)
			if err = os.Rename(tmp, dir); err != nil {
				die("publish %s: %v", dir, err)
			}
		}
	}
	r.Dir = dir
	emit(r)
}

func emit(r *result) {
	// file values are stored relative to the cache entry
	abs := map[string]string{}
	for rel, f := range r.Files {
		abs[rel] = filepath.Join(r.Dir, f)
	}
	r.Files = abs
	b, _ := json.Marshal(r)
	fmt.Println(string(b))
}

// ---------------------------------------------------------------- cache key

func goFilesOf(dir string) []string {
	ents, err := os.ReadDir(dir)
	if err != nil {
		die("%v", err)
	}
	var out []string
	for _, e := range ents {
		n := e.Name()
		if e.IsDir() || !strings.HasSuffix(n, ".go") || strings.HasSuffix(n, "_test.go") {
			continue
		}
		out = append(out, n)
	}
	sort.Strings(out)
	return out
}

func cacheKey(root string, pkgs []string) string {
	h := sha256.New()
	fmt.Fprintf(h, "%s\n%s\n", version, runtime.Version())
	if b, err := os.ReadFile(filepath.Join(root, "go.mod")); err == nil {
		h.Write(b)
	}
	dirs := map[string]bool{}
	for _, p := range pkgs {
		dirs[p] = true
	}
	// in-module packages imported directly: a changed type there can turn a range operand into / out of a map
	fset := token.NewFileSet()
	for _, p := range pkgs {
		for _, n := range goFilesOf(filepath.Join(root, p)) {
			f, err := parser.ParseFile(fset, filepath.Join(root, p, n), nil, parser.ImportsOnly)
			if err != nil {
				die("%v", err)
			}
			for _, imp := range f.Imports {
				ip, _ := strconv.Unquote(imp.Path.Value)
				if strings.HasPrefix(ip, mod+"/") {
					rel := strings.TrimPrefix(ip, mod+"/")
					if st, err := os.Stat(filepath.Join(root, rel)); err == nil && st.IsDir() {
						dirs[rel] = true
					}
				}
			}
		}
	}
	ds := make([]string, 0, len(dirs))
	for d := range dirs {
		ds = append(ds, d)
	}
	sort.Strings(ds)
	for _, d := range ds {
		for _, n := range goFilesOf(filepath.Join(root, d)) {
			b, err := os.ReadFile(filepath.Join(root, d, n))
			if err != nil {
				die("%v", err)
			}
			fmt.Fprintf(h, "%s/%s %d\n", d, n, len(b))
			h.Write(b)
		}
	}
	return hex.EncodeToString(h.Sum(nil))[:24]
}

// ---------------------------------------------------------------- type information

type listPkg struct {
	ImportPath string
	Dir        string
	Export     string
	GoFiles    []string
	CgoFiles   []string
	Error      *struct{ Err string }
}

func goList(root string, pkgs []string) map[string]*listPkg {
	args := []string{"list", "-export", "-deps", "-json=ImportPath,Dir,Export,GoFiles,CgoFiles,Error"}
	for _, p := range pkgs {
		args = append(args, "./"+p)
	}
	cmd := exec.Command("go", args...)
	cmd.Dir = root
	var stderr bytes.Buffer
	cmd.Stderr = &stderr
	outb, err := cmd.Output()
	if err != nil {
		die("go list failed: %v\n%s", err, stderr.String())
	}
	m := map[string]*listPkg{}
	dec := json.NewDecoder(bytes.NewReader(outb))
	for {
		var p listPkg
		if err := dec.Decode(&p); err == io.EOF {
			break
		} else if err != nil {
			die("go list output: %v", err)
		}
		q := p
		m[p.ImportPath] = &q
	}
	return m
}

// ---------------------------------------------------------------- rewrite

type splice struct {
	from, to int // byte offsets [from, to)
	text     string
}

func generate(root string, pkgs []string, outDir string) *result {
	listed := goList(root, pkgs)
	fset := token.NewFileSet()
	imp := importer.ForCompiler(fset, "gc", func(path string) (io.ReadCloser, error) {
		p := listed[path]
		if p == nil || p.Export == "" {
			return nil, fmt.Errorf("no export data for %q", path)
		}
		return os.Open(p.Export)
	})
	res := &result{Files: map[string]string{}, Stats: map[string]*pkgStats{}}
	for _, rel := range pkgs {
		ip := mod + "/" + rel
		lp := listed[ip]
		if lp == nil {
			die("go list did not report %s", ip)
		}
		if len(lp.CgoFiles) > 0 {
			die("%s has cgo files; not supported", rel)
		}
		st := &pkgStats{RangeByOperand: map[string]int{}, RewrittenSites: []site{}, UntouchedSites: []site{}}
		res.Stats[rel] = st
		var files []*ast.File
		srcs := map[*ast.File][]byte{}
		names := map[*ast.File]string{}
		for _, n := range lp.GoFiles {
			p := filepath.Join(root, rel, n)
			b, err := os.ReadFile(p)
			if err != nil {
				die("%v", err)
			}
			f, err := parser.ParseFile(fset, p, b, parser.SkipObjectResolution)
			if err != nil {
				die("%v", err)
			}
			files = append(files, f)
			srcs[f] = b
			names[f] = n
		}
		st.Files = len(files)
		info := &types.Info{Types: map[ast.Expr]types.TypeAndValue{}}
		conf := types.Config{Importer: imp, Error: func(err error) {
			if len(st.TypeErrors) < 20 {
				st.TypeErrors = append(st.TypeErrors, err.Error())
			}
		}}
		_, _ = conf.Check(ip, fset, files, info)
		if len(st.TypeErrors) > 0 {
			die("type errors in %s (the tree under test does not compile?):\n  %s", rel, strings.Join(st.TypeErrors, "\n  "))
		}
		nsite := 0
		for _, f := range files {
			src := srcs[f]
			tf := fset.File(f.Pos())
			off := func(p token.Pos) int { return tf.Offset(p) }
			var sp []splice
			// names declared or used anywhere in the file: the iterator variables and the import name must be fresh
			used := map[string]bool{}
			ast.Inspect(f, func(n ast.Node) bool {
				if id, ok := n.(*ast.Ident); ok {
					used[id.Name] = true
				}
				return true
			})
			if used["verifkit"] {
				die("%s/%s already uses the identifier verifkit", rel, names[f])
			}
			var funcStack []string
			var visit func(n ast.Node) bool
			visit = func(n ast.Node) bool {
				switch x := n.(type) {
				case *ast.FuncDecl:
					name := x.Name.Name
					if x.Recv != nil && len(x.Recv.List) > 0 {
						name = types.ExprString(x.Recv.List[0].Type) + "." + name
					}
					funcStack = append(funcStack, name)
					if x.Body != nil {
						ast.Inspect(x.Body, visit)
					}
					funcStack = funcStack[:len(funcStack)-1]
					return false
				case *ast.RangeStmt:
					st.RangeStmts++
					tv, ok := info.Types[x.X]
					if !ok || tv.Type == nil {
						die("%s: no type for range operand", fset.Position(x.Pos()))
					}
					kind := operandKind(tv.Type)
					st.RangeByOperand[kind]++
					if kind != "map" && kind != "type parameter" {
						return true
					}
					fn := "(package level)"
					if len(funcStack) > 0 {
						fn = funcStack[len(funcStack)-1]
					}
					pos := fset.Position(x.Pos())
					s := site{Pos: fmt.Sprintf("%s/%s:%d", rel, names[f], pos.Line), Func: fn,
						Map: types.TypeString(tv.Type, func(p *types.Package) string { return p.Name() }), Form: form(x)}
					reason := "operand type is a type parameter (may be instantiated with a map)"
					if kind == "map" {
						reason = notRewritable(tv.Type, x)
					}
					if reason != "" {
						s.Reason = reason
						st.Untouched++
						st.UntouchedSites = append(st.UntouchedSites, s)
						return true
					}
					nsite++
					it := fmt.Sprintf("verifIt%d", nsite)
					for used[it] {
						nsite++
						it = fmt.Sprintf("verifIt%d", nsite)
					}
					xt := string(src[off(x.X.Pos()):off(x.X.End())])
					hdr := "for " + it + " := verifkit.MapIter(" + xt + "); " + it + ".Next(); {"
					if a := assign(x, it, src, off); a != "" {
						hdr += " " + a + ";"
					}
					sp = append(sp, splice{off(x.For), off(x.Body.Lbrace) + 1, hdr})
					st.Rewritten++
					st.RewrittenSites = append(st.RewrittenSites, s)
					return true
				}
				return true
			}
			ast.Inspect(f, visit)
			if len(sp) == 0 {
				continue
			}
			// import on the line of the package clause (line numbers stay as they are)
			pe := off(f.Name.End())
			sp = append(sp, splice{pe, pe, "; import verifkit " + strconv.Quote(kitPath)})
			sort.Slice(sp, func(i, j int) bool { return sp[i].from < sp[j].from })
			var buf bytes.Buffer
			last := 0
			for _, s := range sp {
				if s.from < last {
					die("%s/%s: overlapping rewrites (a map range inside the operand of another one)", rel, names[f])
				}
				buf.Write(src[last:s.from])
				buf.WriteString(s.text)
				last = s.to
			}
			buf.Write(src[last:])
			// the result must parse and must have as many lines as the original
			if _, err := parser.ParseFile(token.NewFileSet(), names[f], buf.Bytes(), 0); err != nil {
				die("rewritten %s/%s does not parse: %v", rel, names[f], err)
			}
			if bytes.Count(buf.Bytes(), []byte("\n")) != bytes.Count(src, []byte("\n")) {
				die("rewritten %s/%s changed the number of lines", rel, names[f])
			}
			dst := filepath.Join(outDir, rel, names[f])
			if err := os.MkdirAll(filepath.Dir(dst), 0o755); err != nil {
				die("%v", err)
			}
			if err := os.WriteFile(dst, buf.Bytes(), 0o644); err != nil {
				die("%v", err)
			}
			res.Files[filepath.Join(rel, names[f])] = filepath.Join(rel, names[f])
			st.FilesRewritten++
		}
	}
	return res
}

func operandKind(t types.Type) string {
	if _, ok := t.(*types.TypeParam); ok {
		return "type parameter"
	}
	switch u := t.Underlying().(type) {
	case *types.Map:
		return "map"
	case *types.Slice:
		return "slice"
	case *types.Array:
		return "array"
	case *types.Pointer:
		return "pointer to array"
	case *types.Chan:
		return "channel"
	case *types.Signature:
		return "function iterator"
	case *types.Basic:
		if u.Info()&types.IsString != 0 {
			return "string"
		}
		return "integer"
	}
	return "other"
}

// notRewritable returns the reason why a range over a map is left as it is ("" = rewrite it).
func notRewritable(t types.Type, rs *ast.RangeStmt) string {
	m := t.Underlying().(*types.Map)
	kt := m.Key()
	if _, ok := kt.(*types.TypeParam); ok {
		return "key type is a type parameter"
	}
	b, ok := kt.Underlying().(*types.Basic)
	if !ok {
		return "key type " + kt.String() + " is not ordered (" + strings.ToLower(strings.TrimPrefix(fmt.Sprintf("%T", kt.Underlying()), "*types.")) + ")"
	}
	if b.Info()&(types.IsInteger|types.IsFloat|types.IsString) == 0 {
		return "key type " + kt.String() + " is not ordered (" + b.Name() + ")"
	}
	// a map range inside the operand itself (function literal) would overlap with this splice
	nested := false
	ast.Inspect(rs.X, func(n ast.Node) bool {
		if _, ok := n.(*ast.RangeStmt); ok {
			nested = true
		}
		return !nested
	})
	if nested {
		return "operand contains a range statement"
	}
	return ""
}

func blank(e ast.Expr) bool {
	if e == nil {
		return true
	}
	id, ok := e.(*ast.Ident)
	return ok && id.Name == "_"
}

func form(rs *ast.RangeStmt) string {
	tok := rs.Tok.String()
	switch {
	case rs.Key == nil && rs.Value == nil:
		return "for range m"
	case rs.Value == nil:
		if blank(rs.Key) {
			return "_ " + tok
		}
		return "k " + tok
	case blank(rs.Key) && blank(rs.Value):
		return "_, _ " + tok
	case blank(rs.Key):
		return "_, v " + tok
	case blank(rs.Value):
		return "k, _ " + tok
	}
	return "k, v " + tok
}

// assign renders the statement that binds the loop variables at the top of the body.
func assign(rs *ast.RangeStmt, it string, src []byte, off func(token.Pos) int) string {
	text := func(e ast.Expr) string { return string(src[off(e.Pos()):off(e.End())]) }
	tok := rs.Tok.String() // := or =
	k, v := !blank(rs.Key), !blank(rs.Value)
	switch {
	case k && v:
		return text(rs.Key) + ", " + text(rs.Value) + " " + tok + " " + it + ".KV()"
	case k:
		return text(rs.Key) + " " + tok + " " + it + ".Key()"
	case v:
		return text(rs.Value) + " " + tok + " " + it + ".Value()"
	}
	return ""
}
