#!/bin/bash
# Self-test of the map-order rewriter: a synthetic package with every form of range-over-map statement is
# rewritten, compiled with the overlay, and the visiting order is checked under each mode.
#   /verif/ovgen/maporder/selftest.sh        -> "selftest ok", exit 0
set -eu
. /verif/bin/env.sh
here=$(cd "$(dirname "$0")" && pwd)
w=$(mktemp -d /tmp/maporder-selftest.XXXXXX); trap 'rm -rf "$w"' EXIT
mkdir -p "$w/mod/lib/verifkit" "$w/mod/x" "$w/mod/cmd/selftest" "$w/out"
printf 'module github.com/openGemini/openGemini\n\ngo 1.25.0\n' > "$w/mod/go.mod"
cp /verif/kit/maporder.go "$w/mod/lib/verifkit/"
cp "$here/testdata/x/x.go" "$w/mod/x/"
cp "$here/testdata/cmd/selftest/main.go" "$w/mod/cmd/selftest/"
(cd "$here/.." && go build -o "$w/gen" ./maporder)
(cd "$w/mod" && GOFLAGS=-tags=verif "$w/gen" -repo "$w/mod" -out "$w/out" x > "$w/res.json")
python3 - "$w" <<'P'
import json, sys
w = sys.argv[1]
r = json.load(open(w + "/res.json"))
st = r["stats"]["x"]
print("rewritten %d, untouched %d" % (st["map_range_sites_rewritten"], st["map_range_sites_untouched"]))
for u in st["untouched_sites"]:
    print("  untouched %s %s: %s" % (u["pos"], u["map"], u["reason"]))
forms = sorted(set(u["form"] for u in st["rewritten_sites"]))
print("  forms rewritten:", forms)
assert st["map_range_sites_untouched"] == 8, st["map_range_sites_untouched"]
assert st["map_range_sites_rewritten"] == 17, st["map_range_sites_rewritten"]
json.dump({"Replace": {w + "/mod/" + rel: f for rel, f in r["files"].items()}}, open(w + "/overlay.json", "w"))
P
(cd "$w/mod" && go vet -tags verif -overlay "$w/overlay.json" ./x && go run -tags verif -overlay "$w/overlay.json" ./cmd/selftest)
