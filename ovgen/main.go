// ovgen rewrites the Go files of the given repository packages for the controlled scheduler:
//   import "sync"  ->  import sync ".../lib/verifkit/vsync"
//   go f(a, b)     ->  { t0, t1 := a, b; sched.Go(func() { f(t0, t1) }) }
// and prints an overlay fragment {original path: rewritten copy}. Usage:
//   ovgen -repo /repo -out DIR pkgdir...
package main

import (
	"bytes"
	"encoding/json"
	"flag"
	"fmt"
	"go/ast"
	"go/format"
	"go/parser"
	"go/token"
	"os"
	"path/filepath"
	"strconv"
	"strings"
)

const mod = "github.com/openGemini/openGemini"

func main() {
	repo := flag.String("repo", "/repo", "repository root")
	out := flag.String("out", "", "output directory for rewritten copies")
	noGo := flag.Bool("nogo", false, "do not rewrite go statements")
	flag.Parse()
	if *out == "" {
		fmt.Fprintln(os.Stderr, "need -out")
		os.Exit(2)
	}
	overlay := map[string]string{}
	stats := map[string]int{}
	for _, pkg := range flag.Args() {
		dir := filepath.Join(*repo, pkg)
		ents, err := os.ReadDir(dir)
		if err != nil {
			fmt.Fprintln(os.Stderr, err)
			os.Exit(1)
		}
		for _, e := range ents {
			if e.IsDir() || !strings.HasSuffix(e.Name(), ".go") {
				continue
			}
			src := filepath.Join(dir, e.Name())
			b, changed, err := rewrite(src, !*noGo, stats)
			if err != nil {
				fmt.Fprintf(os.Stderr, "%s: %v\n", src, err)
				os.Exit(1)
			}
			if !changed {
				continue
			}
			dst := filepath.Join(*out, pkg, e.Name())
			if err := os.MkdirAll(filepath.Dir(dst), 0o755); err != nil {
				panic(err)
			}
			if err := os.WriteFile(dst, b, 0o644); err != nil {
				panic(err)
			}
			overlay[src] = dst
		}
	}
	js, _ := json.Marshal(map[string]any{"replace": overlay, "stats": stats})
	fmt.Println(string(js))
}

func rewrite(path string, rewriteGo bool, stats map[string]int) ([]byte, bool, error) {
	fset := token.NewFileSet()
	f, err := parser.ParseFile(fset, path, nil, parser.ParseComments)
	if err != nil {
		return nil, false, err
	}
	changed := false
	for _, imp := range f.Imports {
		p, _ := strconv.Unquote(imp.Path.Value)
		if p == "sync" {
			if imp.Name != nil && imp.Name.Name != "sync" {
				// keep the alias the file uses
			} else {
				imp.Name = ast.NewIdent("sync")
			}
			imp.Path.Value = strconv.Quote(mod + "/lib/verifkit/vsync")
			changed = true
			stats["sync_imports"]++
		}
	}
	needSched := false
	if rewriteGo {
		ast.Inspect(f, func(n ast.Node) bool {
			var lists []*[]ast.Stmt
			switch b := n.(type) {
			case *ast.BlockStmt:
				lists = append(lists, &b.List)
			case *ast.CaseClause:
				lists = append(lists, &b.Body)
			case *ast.CommClause:
				lists = append(lists, &b.Body)
			}
			for _, lp := range lists {
				for i, st := range *lp {
					gs, ok := st.(*ast.GoStmt)
					if !ok {
						continue
					}
					(*lp)[i] = goToSched(gs, importNames(f))
					needSched = true
					changed = true
					stats["go_statements"]++
				}
			}
			return true
		})
		// a go statement that is the direct body of a labeled statement or if/else without block cannot occur in gofmt'ed code
	}
	if needSched {
		addImport(f, "verifsched", mod+"/lib/verifkit/sched")
	}
	if !changed {
		return nil, false, nil
	}
	var buf bytes.Buffer
	if err := format.Node(&buf, fset, f); err != nil {
		return nil, false, err
	}
	return buf.Bytes(), true, nil
}

func addImport(f *ast.File, name, path string) {
	spec := &ast.ImportSpec{Name: ast.NewIdent(name), Path: &ast.BasicLit{Kind: token.STRING, Value: strconv.Quote(path)}}
	decl := &ast.GenDecl{Tok: token.IMPORT, Specs: []ast.Spec{spec}}
	f.Decls = append([]ast.Decl{decl}, f.Decls...)
	f.Imports = append(f.Imports, spec)
}

// goToSched turns `go f(a, b)` into `{ t0, t1 := a, b; verifsched.Go(func() { f(t0, t1) }) }`.
// Arguments are bound to temporaries first so that they are evaluated at the go statement, as in the
// original; literals and function literals stay in place (untyped constants keep their type inference).
func importNames(f *ast.File) map[string]bool {
	m := map[string]bool{}
	for _, imp := range f.Imports {
		if imp.Name != nil {
			m[imp.Name.Name] = true
			continue
		}
		p, _ := strconv.Unquote(imp.Path.Value)
		m[p[strings.LastIndex(p, "/")+1:]] = true
	}
	return m
}

func goToSched(gs *ast.GoStmt, imports map[string]bool) ast.Stmt {
	call := gs.Call
	var lhs, rhs []ast.Expr
	args := make([]ast.Expr, len(call.Args))
	for i, a := range call.Args {
		switch a.(type) {
		case *ast.BasicLit, *ast.FuncLit:
			args[i] = a
			continue
		}
		if id, ok := a.(*ast.Ident); ok && (id.Name == "nil" || id.Name == "true" || id.Name == "false") {
			args[i] = a
			continue
		}
		// pkg.Name: a package-level constant or variable (untyped constants must keep their inference)
		if sel, ok := a.(*ast.SelectorExpr); ok {
			if id, ok := sel.X.(*ast.Ident); ok && imports[id.Name] && id.Obj == nil {
				args[i] = a
				continue
			}
		}
		t := ast.NewIdent(fmt.Sprintf("verifArg%d", i))
		lhs = append(lhs, t)
		rhs = append(rhs, a)
		args[i] = t
	}
	fun := call.Fun
	// x.M(...): a go statement evaluates the function value - here the METHOD VALUE x.M, which fixes the receiver - in the
	// calling goroutine. Bind it to a temporary first (and before the arguments, as the language does), so that a receiver
	// that is re-assigned before the new goroutine first runs (a package-level variable such as nodeTableStoreGC, replaced
	// by the harness after package initialisation) is not picked up late. A method value of an addressable struct with a
	// pointer receiver binds its address, so nothing is copied. pkg.F stays in place.
	if sel, ok := fun.(*ast.SelectorExpr); ok {
		isPkg := false
		if id, ok := sel.X.(*ast.Ident); ok && imports[id.Name] && id.Obj == nil {
			isPkg = true
		}
		if !isPkg {
			t := ast.NewIdent("verifFn")
			lhs = append([]ast.Expr{t}, lhs...)
			rhs = append([]ast.Expr{fun}, rhs...)
			fun = t
		}
	}
	inner := &ast.CallExpr{Fun: fun, Args: args, Ellipsis: call.Ellipsis}
	lit := &ast.FuncLit{Type: &ast.FuncType{Params: &ast.FieldList{}}, Body: &ast.BlockStmt{List: []ast.Stmt{&ast.ExprStmt{X: inner}}}}
	schedCall := &ast.ExprStmt{X: &ast.CallExpr{Fun: &ast.SelectorExpr{X: ast.NewIdent("verifsched"), Sel: ast.NewIdent("Go")}, Args: []ast.Expr{lit}}}
	blk := &ast.BlockStmt{}
	if len(lhs) > 0 {
		blk.List = append(blk.List, &ast.AssignStmt{Lhs: lhs, Tok: token.DEFINE, Rhs: rhs})
	}
	blk.List = append(blk.List, schedCall)
	return blk
}
