"""C19, privilege state machine — explicit-state model checking of GRANT / REVOKE on the real server.

Property sentence: "Granting and revoking a privilege changes what that user may do on exactly that database."

State      = what SHOW GRANTS lists for ONE non-admin user on the databases of the stage, per database one of
             absent | NO PRIVILEGES | READ | WRITE | ALL PRIVILEGES  (the *concrete* state as the server shows it; "absent" and
             "NO PRIVILEGES" both abstract to the model value none, so the 5^n concrete states cover the 4^n model states).
Transition = every statement of {GRANT, REVOKE} x {READ, WRITE, ALL [PRIVILEGES]} x database, sent by the administrator
             over HTTP /query.
Exploration= breadth first from the state of a freshly created user.  Every (state, transition) pair runs on a user of
             its own: CREATE USER, the shortest statement path that reached the state, the transition, the observation.  States
             are discovered from what the server answers, nothing is assumed about which states exist.
Model      = bit algebra (READ=1, WRITE=2, ALL=3): GRANT ors the named bits in, REVOKE clears exactly the named bits, the
             other databases keep their value.
Observation= (a) SHOW GRANTS FOR u with administrator credentials, (b) per database a SELECT of a seeded value and a /write
             of a point that carries the probe id, both with u's credentials; at the end, after a visibility barrier, the
             administrator reads the probe measurement of every database: exactly the ids of the probes the model allows are stored.
The module is driven by lib/checks/c19.py (World, credentials, report)."""
import http.client, json, threading, time, urllib.parse
from concurrent.futures import ThreadPoolExecutor

PW = "Pm-user#pw19X"
BITS = {"READ": 1, "WRITE": 2, "ALL": 3}
NAME = {0: "none", 1: "READ", 2: "WRITE", 3: "ALL"}
LISTING = {"NO PRIVILEGES": 0, "READ": 1, "WRITE": 2, "ALL PRIVILEGES": 3}  # what SHOW GRANTS prints
ABSENT = "absent"
# one database name is a prefix of the next: a lookup by prefix instead of by name would cross databases
DBNAMES = ["c19pdb", "c19pdb1", "c19pdb10"]
SEED_M, SEED_V = "c19seed", "4242.5"
PROBE_M = "c19pw"
TRANSPORTS = ("basic", "url", "bearer")
SLOTS = 16  # probe ids per job


class Explorer:
    def __init__(self, api, world, rep, tier, deadline_at, threads=16):
        self.api, self.W, self.rep, self.tier, self.deadline_at = api, world, rep, tier, deadline_at
        self.port = world.srv.ports[3]
        self.lock = threading.Lock()
        self.cnt = {}
        self.threads = threads
        self.probe_info = {}   # probe id -> (db, accepted, allowed by the model, key of the job)
        self.job_seq = 0
        self.samples = []
        self.reported = set()
        self.verified = set()
        self.reported_keys = set()

    # ------------------------------------------------------------------ plumbing
    def count(self, name, n=1):
        with self.lock:
            self.cnt[name] = self.cnt.get(name, 0) + n

    def http(self, method, path, params=None, body=None, headers=None, timeout=180):
        q = urllib.parse.urlencode(params or {}, doseq=True)
        target = path + ("?" + q if q else "")
        self.count("privsm_http_requests")
        try:
            conn = http.client.HTTPConnection("127.0.0.1", self.port, timeout=timeout)
            conn.request(method, target, body=body, headers=headers or {})
            r = conn.getresponse()
            data = r.read()
            conn.close()
            return r.status, data
        except (OSError, http.client.HTTPException) as e:
            raise self.api.ToolError("privilege machine: request %s %s failed: %s (server alive: %s)" % (method, target[:200], e, self.W.srv.alive()))

    def admin(self, q, db=None):
        """one statement (or a read-only list) with administrator credentials -> (status, parsed json or None, raw body)."""
        p = {"q": q, "epoch": "ns"}
        if db:
            p["db"] = db
        _, hd = self.api._basic(*self.api.ADMIN)
        st, body, js = 0, b"", None
        for attempt in range(40):
            st, body = self.http("POST", "/query", params=p, headers=hd)
            try:
                js = json.loads(body)
            except ValueError:
                js = None
            if js is not None or st in (401, 403):
                break
            time.sleep(0.25)  # an empty answer right after start under load: ask again
        return st, js, body

    @staticmethod
    def result_error(st, js):
        if st != 200 or js is None:
            return "HTTP %s" % st
        if isinstance(js, dict) and js.get("error"):
            return str(js["error"])
        for r in js.get("results") or []:
            if "error" in r:
                return str(r["error"])
        return None

    def setup(self, q):
        """a statement of the set-up (CREATE USER, the path to a state that was already observed): must succeed."""
        err = None
        for attempt in range(20):
            st, js, body = self.admin(q)
            err = self.result_error(st, js)
            if err is None:
                self.count("privsm_setup_statements")
                return
            if err == "internal error" and q.startswith("CREATE USER"):
                # a panic caught by the query executor: metaclient.Client.CreateUser clones the catalogue copy without holding
                # the client's lock while another CREATE USER is being applied to it (index out of range in Data.CloneUsers);
                # seen about once in 1000-2500 concurrent CREATE USER statements.  Outside this property; the set-up asks again
                # (CREATE USER of an existing user with the same password answers ok).
                self.count("privsm_create_user_internal_error_retried")
                time.sleep(0.05)
                continue
            if "user not found" not in err:
                break
            time.sleep(0.25)  # the catalogue copy of the sql node lags the acknowledgement of CREATE USER
        raise self.api.ToolError("privilege machine set-up statement %r answered: %s" % (q, err))

    def cred(self, user, transport):
        if transport == "basic":
            return self.api._basic(user, PW)
        if transport == "url":
            return self.api._url(user, PW)
        return self.api._bearer(self.api.jwt(user, self.api.SECRET))

    # ------------------------------------------------------------------ statements and model
    def transitions(self, ndb):
        """GRANT/REVOKE x READ/WRITE/ALL x database; ALL is spelled `ALL` on even and `ALL PRIVILEGES` on odd databases in quick,
        both spellings everywhere in thorough."""
        out = []
        for dbi in range(ndb):
            for op in ("GRANT", "REVOKE"):
                for priv in ("READ", "WRITE", "ALL"):
                    spellings = [priv]
                    if priv == "ALL":
                        spellings = ["ALL", "ALL PRIVILEGES"] if self.tier == "thorough" else [("ALL", "ALL PRIVILEGES")[dbi % 2]]
                    for sp in spellings:
                        out.append((op, priv, dbi, sp))
        return out

    def stmt(self, tr, user):
        op, priv, dbi, sp = tr
        return "%s %s ON %s %s %s" % (op, sp, self.dbs[dbi], "TO" if op == "GRANT" else "FROM", user)

    @staticmethod
    def model(bits, tr):
        op, priv, dbi, _ = tr
        out = list(bits)
        out[dbi] = (out[dbi] | BITS[priv]) if op == "GRANT" else (out[dbi] & ~BITS[priv])
        return tuple(out)

    @staticmethod
    def alpha(cs):
        """concrete (listed) state -> model bits; None for a value SHOW GRANTS is not known to print."""
        return tuple(0 if x == ABSENT else LISTING.get(x) for x in cs)

    def show(self, cs):
        return " ".join("%s=%s" % (d, x) for d, x in zip(self.dbs, cs))

    def showbits(self, bits):
        return " ".join("%s=%s" % (d, "?" if b is None else NAME[b]) for d, b in zip(self.dbs, bits))

    # ------------------------------------------------------------------ observation
    def listing(self, user):
        for attempt in range(8):
            st, js, body = self.admin("SHOW GRANTS FOR %s" % user)
            err = self.result_error(st, js)
            if err is None or "user not found" not in err:
                break
            time.sleep(0.25)
        self.count("privsm_show_grants")
        if err is not None:
            return None, [], "SHOW GRANTS FOR %s answered: %s" % (user, err)
        rows = []
        for r in js.get("results") or []:
            for s in r.get("series") or []:
                for v in s.get("values") or []:
                    rows.append((str(v[0]), str(v[1])))
        by = {}
        odd = []
        for d, p in rows:
            if d in by:
                odd.append("database %s listed twice" % d)
            by[d] = p
        cs = tuple(by.get(d, ABSENT) for d in self.dbs)
        for d, p in sorted(by.items()):
            if d not in self.dbs:
                odd.append("entry for another database: %s %s" % (d, p))
        return cs, odd, None

    def can_read(self, user, transport, db):
        pa, hd = self.cred(user, transport)
        p = {"db": db, "q": "select v from %s" % SEED_M}
        p.update(pa)
        st, body = self.http("GET", "/query", params=p, headers=hd)
        self.count("privsm_read_probes")
        allowed = st == 200 and not self.api.only_errors(body)
        disclosed = SEED_V.encode() in body
        if st == 401:
            self.count("privsm_status_401_for_a_valid_user")
        return allowed, disclosed, "%s %s" % (st, body[:110].decode("latin1").strip())

    def can_write(self, user, transport, db, pid):
        pa, hd = self.cred(user, transport)
        hd = dict(hd)
        hd.update(self.api.TEXT)
        p = {"db": db}
        p.update(pa)
        line = ("%s v=%di %d000000000" % (PROBE_M, pid, self.api.T0 + pid)).encode()
        st, body = 0, b""
        for attempt in range(60):
            st, body = self.http("POST", "/write", params=p, body=line, headers=hd)
            if st < 500:
                break
            time.sleep(0.25)  # the shard group of the probe measurement is being created
        self.count("privsm_write_probes")
        if st >= 500:
            raise self.api.ToolError("privilege machine: write probe answered %s %r" % (st, body[:200]))
        if st == 401:
            self.count("privsm_status_401_for_a_valid_user")
        return 200 <= st < 300, "%s %s" % (st, body[:110].decode("latin1").strip())

    def observe(self, user, job, transports=("basic",), slot_base=0):
        """-> dict(cs, odd, err, abil {transport: bits per db}, leak, raw, writes)"""
        cs, odd, err = self.listing(user)
        abil, raw, writes = {}, [], []
        disclosed_without_read = []
        for ti, tr in enumerate(transports):
            bits = []
            for dbi, db in enumerate(self.dbs):
                r, disclosed, rtxt = self.can_read(user, tr, db)
                pid = job * SLOTS + slot_base + TRANSPORTS.index(tr) * len(self.dbs) + dbi
                w, wtxt = self.can_write(user, tr, db, pid)
                writes.append((pid, db, w))
                bits.append((1 if r else 0) | (2 if w else 0))
                if disclosed and not r:
                    disclosed_without_read.append("%s via %s" % (db, tr))
                raw.append("%s/%s: SELECT -> %s; /write -> %s" % (db, tr, rtxt, wtxt))
            abil[tr] = tuple(bits)
        return dict(cs=cs, odd=odd, err=err, abil=abil, leak=disclosed_without_read, raw=raw, writes=writes)

    def judge(self, pre, tr, expected, o):
        """-> None if the observation equals the expectation, else (kind, text)."""
        if o["err"]:
            return "privilege_machine_mismatch", o["err"]
        lb = self.alpha(o["cs"])
        ab = o["abil"]["basic"]
        bad = []
        if lb != expected:
            bad.append("SHOW GRANTS lists %s" % self.show(o["cs"]))
        for t, bits in o["abil"].items():
            if bits != expected:
                bad.append("with the user's credentials over %s the user can %s" % (t, self.showabil(bits)))
        if o["odd"]:
            bad.append("; ".join(o["odd"]))
        if o["leak"]:
            bad.append("a refused SELECT still carried the stored value: %s" % ", ".join(o["leak"]))
        if not bad:
            return None
        if tr is not None and pre is not None and tr[0] == "GRANT" and not o["odd"] and not o["leak"]:
            # Statement silent: "granting ... a privilege changes what that user may do on exactly that database" does not say
            # whether GRANT READ|WRITE adds to or replaces the privilege held on that database. This server (like InfluxDB 1.x:
            # SetPrivilege) replaces it. Both readings are accepted as long as catalogue and behaviour agree with one of them on
            # every transport and no other database changes; everything else (REVOKE clears exactly the named bits, scope) is strict.
            alt = list(pre)
            alt[tr[2]] = BITS[tr[1]]
            alt = tuple(alt)
            if lb == alt and all(b == alt for b in o["abil"].values()):
                self.count("privsm_lenient_grant_replaces_held_privilege")
                return None
        text = "expected %s (%s); %s" % (self.showbits(expected), self.showabil(expected), "; ".join(bad))
        kind = "privilege_machine_mismatch"
        same_everywhere = all(b == ab for b in o["abil"].values())
        if lb == expected and not o["odd"]:
            # the catalogue is what the model says; what the user can do is not
            kind = "catalogue_and_behaviour_disagree" if same_everywhere else "credential_transports_disagree"
        elif tr is not None and pre is not None:
            op, priv, dbi, _ = tr
            t = BITS[priv]
            others = [j for j in range(len(self.dbs)) if j != dbi and lb[j] != pre[j]]
            if others or any("another database" in x for x in o["odd"]):
                kind = "grant_revoke_wrong_scope"
            elif op == "REVOKE" and ((lb[dbi] or 0) | ab[dbi]) & ~pre[dbi]:
                kind = "revoke_granted_privilege"
            elif op == "GRANT" and (pre[dbi] & ~t) and lb[dbi] == t and all(b[dbi] == t for b in o["abil"].values()):
                kind = "grant_replaces_held_privilege"
            elif lb != ab:
                kind = "catalogue_and_behaviour_disagree"
        elif lb != ab:
            kind = "catalogue_and_behaviour_disagree"
        return kind, text

    def showabil(self, bits):
        out = []
        for d, b in zip(self.dbs, bits):
            out.append("%s:%s" % (d, {0: "nothing", 1: "read", 2: "write", 3: "read+write"}[b]))
        return " ".join(out)

    def record_writes(self, o, expected, key, replay=None):
        with self.lock:
            for pid, db, accepted in o["writes"]:
                dbi = self.dbs.index(db)
                self.probe_info[pid] = (db, accepted, bool(expected[dbi] & 2), key, replay)

    def violation(self, kind, key, detail, replay):
        with self.lock:
            if (kind, key) in self.reported:
                return
            self.reported.add((kind, key))
            self.reported_keys.add(key)
        self.api.violation(self.rep, kind, key, detail, replay)

    # ------------------------------------------------------------------ jobs (each on a user of its own)
    def prepare(self, job, path):
        user = "c19pu%05d" % job
        self.setup("CREATE USER %s WITH PASSWORD '%s'" % (user, PW))
        for tr in path:
            self.setup(self.stmt(tr, user))
        return user

    def expired(self):
        return time.time() > self.deadline_at

    def job_state(self, job, cs, path):
        """reference observation of a state over every credential transport (fresh user, shortest path, no transition)."""
        if self.expired():
            return dict(skipped=True)
        user = self.prepare(job, path)
        expected = self.alpha(cs)
        key = "privilege machine: state %s reached by [%s]" % (self.show(cs), "; ".join(self.stmt(t, "u") for t in path))
        o = self.observe(user, job, TRANSPORTS)
        v = self.judge(None, None, expected, o) if o["cs"] == cs else ("privilege_state_not_reproducible", "SHOW GRANTS lists %s" % (self.show(o["cs"]) if o["cs"] else o["err"]))
        if v:
            time.sleep(0.5)
            o2 = self.observe(user, job, TRANSPORTS)
            v2 = self.judge(None, None, expected, o2) if o2["cs"] == cs else ("privilege_state_not_reproducible", "SHOW GRANTS lists %s" % (self.show(o2["cs"]) if o2["cs"] else o2["err"]))
            if v2 is None:
                self.count("privsm_observations_settled_on_second_look")
            o, v = o2, v2
        self.record_writes(o, expected, key, dict(kind="privsm", product="basic", ndb=len(self.dbs), state=list(cs), path=[list(t) for t in path]))
        return dict(kind="state", cs=cs, obs=o, verdict=v, key=key, user=user, path=path)

    def job_transition(self, job, cs, path, tr, second=None):
        """state cs (already observed, reached by `path`) --tr--> ?   With `second`: cs --tr--> --second--> ?, observed at the end."""
        if self.expired():
            return dict(skipped=True)
        user = self.prepare(job, path)
        pre = self.alpha(cs)
        steps = [tr] + ([second] if second else [])
        key = "privilege machine: %s in state %s" % (" ; ".join(self.stmt(t, "u") for t in steps), self.show(cs))
        before, _, berr = self.listing(user)
        if before != cs:
            v = ("privilege_state_not_reproducible", "the path [%s] on a fresh user gave %s, the same path gave %s before" % (
                "; ".join(self.stmt(t, "u") for t in path), self.show(before) if before else berr, self.show(cs)))
            return dict(kind="transition", cs=cs, tr=tr, second=second, obs=None, verdict=v, key=key, user=user, path=path, refused=None, expected=None)
        refused = []
        for t in steps:
            st, js, body = self.admin(self.stmt(t, user))
            self.count("privsm_transition_statements")
            refused.append(self.result_error(st, js))
        return dict(kind="transition", cs=cs, tr=tr, second=second, user=user, path=path, key=key, refused=refused, pre=pre, job=job)

    def finish_transition(self, r, expected):
        """observation + verdict of a transition job once the expectation is known (single step: the model; pair: see pairs())."""
        o = self.observe(r["user"], r["job"])
        tr1 = r["tr"] if not r["second"] else None
        v = self.judge(r["pre"] if tr1 else None, tr1, expected, o)
        if v:
            time.sleep(0.5)
            o2 = self.observe(r["user"], r["job"])
            v2 = self.judge(r["pre"] if tr1 else None, tr1, expected, o2)
            if v2 is None:
                self.count("privsm_observations_settled_on_second_look")
            o, v = o2, v2
        self.record_writes(o, expected, r["key"], self.replay_obj(r))
        r["obs"], r["verdict"], r["expected"] = o, v, expected
        return r

    def run_single(self, args):
        job, cs, path, tr = args
        r = self.job_transition(job, cs, path, tr)
        if r.get("skipped") or r.get("verdict"):
            return r
        pre = r["pre"]
        if r["refused"][0] is not None:
            # a refused statement must change nothing; refusing is acceptable only where the model changes nothing either
            r = self.finish_transition(r, pre)
            if r["verdict"] is None and self.model(pre, tr) != pre:
                r["verdict"] = ("privilege_statement_refused", "the administrator's statement answered: %s" % r["refused"][0])
            elif r["verdict"] is not None:
                r["verdict"] = (r["verdict"][0], "the statement answered the error %r, yet: %s" % (r["refused"][0], r["verdict"][1]))
            else:
                self.count("privsm_noop_statements_refused")
            return r
        return self.finish_transition(r, self.model(pre, tr))

    def replay_obj(self, r):
        return dict(kind="privsm", product="basic", ndb=len(self.dbs), state=list(r["cs"]), path=[list(t) for t in r["path"]],
                    transition=list(r["tr"]) if r.get("tr") else None, second=list(r["second"]) if r.get("second") else None)

    def report(self, r):
        kind, text = r["verdict"]
        o = r.get("obs")
        detail = "%s | pre-state %s reached on a fresh user by [%s]" % (text, self.show(r["cs"]), "; ".join(self.stmt(t, r["user"]) for t in r["path"]))
        if r.get("tr"):
            detail += " | statement under test: %s" % " ; ".join(self.stmt(t, r["user"]) for t in [r["tr"]] + ([r["second"]] if r.get("second") else []))
        if o:
            detail += " | SHOW GRANTS FOR %s: %s | probes: %s" % (r["user"], self.show(o["cs"]) if o["cs"] else o["err"], " | ".join(o["raw"]))
        self.violation(kind, r["key"], detail[:1800], self.replay_obj(r))

    # ------------------------------------------------------------------ fixture
    def fixture(self, ndb):
        self.dbs = DBNAMES[:ndb]
        for db in self.dbs:
            self.setup("CREATE DATABASE %s" % db)
        for db in self.dbs:
            st, body = self.W.admin_write(db, "%s v=%s %d000000000" % (SEED_M, SEED_V, self.api.T0))
            if st != 204:
                raise self.api.ToolError("privilege machine: seed write to %s: %s %r" % (db, st, body[:200]))
            st, body = self.W.admin_write(db, "%s v=-1i %d000000000" % (PROBE_M, self.api.T0 - 10))
            if st != 204:
                raise self.api.ToolError("privilege machine: probe measurement write to %s: %s %r" % (db, st, body[:200]))
        t0 = time.time()
        while True:
            ok = True
            for db in self.dbs:
                st, js, body = self.admin("select v from %s" % SEED_M, db=db)
                if SEED_V.encode() not in body:
                    ok = False
            if ok:
                return
            if time.time() - t0 > 120:
                raise self.api.ToolError("privilege machine: the seeded value did not become readable")
            time.sleep(0.1)

    def stored_ids(self, barrier_id):
        """visibility barrier (a point written now by the administrator is readable), then the stored probe ids per database."""
        out = {}
        for db in self.dbs:
            st, body = self.W.admin_write(db, "%s v=%di %d000000000" % (PROBE_M, barrier_id, self.api.T0 - 20 - (barrier_id % 1000)))
            if st != 204:
                raise self.api.ToolError("privilege machine: barrier write to %s: %s %r" % (db, st, body[:200]))
        t0 = time.time()
        for db in self.dbs:
            while True:
                st, js, body = self.admin("select v from %s" % PROBE_M, db=db)
                ids = set()
                if js:
                    for r in js.get("results") or []:
                        for s in r.get("series") or []:
                            for v in s.get("values") or []:
                                ids.add(int(v[1]))
                if barrier_id in ids:
                    out[db] = ids
                    break
                if time.time() - t0 > 120:
                    raise self.api.ToolError("privilege machine: the barrier point did not become readable in %s" % db)
                time.sleep(0.1)
        return out

    def check_stored(self):
        """exactly the probe points the model allows are stored."""
        self.barrier_seq = getattr(self, "barrier_seq", 0) + 1
        stored = self.stored_ids(-1000 - self.barrier_seq)
        n_ok = n_missing = 0
        for pid, (db, accepted, allowed, key, replay) in sorted(self.probe_info.items()):
            if db not in stored or pid in self.verified:
                continue
            self.verified.add(pid)
            present = pid in stored[db]
            if present and not allowed:
                self.count("privsm_probe_points_stored_without_privilege")
                if key in self.reported_keys:
                    continue  # the same job is already reported with its status and listing
                self.violation("write_stored_without_privilege", key,
                               "the point of write probe %d is stored in %s although the model gives the user no WRITE there (the request was answered %s)" % (
                                   pid, db, "2xx" if accepted else "with a refusal"), replay or dict(kind="privsm-none", product="basic"))
            elif accepted and allowed and not present:
                n_missing += 1
            elif present == allowed:
                n_ok += 1
        self.count("privsm_probe_points_verified_stored_iff_allowed", n_ok)
        if n_missing:
            self.count("privsm_acknowledged_probe_points_not_found", n_missing)
            self.rep["notes"].append("privilege machine: %d acknowledged probe points were not readable after the barrier (outside this property, not a verdict)" % n_missing)
        for db in self.dbs:
            extra = [i for i in stored[db] if i >= 0 and i not in self.probe_info]
            if extra:
                raise self.api.ToolError("privilege machine: unknown probe ids stored in %s: %r" % (db, extra[:10]))

    # ------------------------------------------------------------------ exploration
    def explore(self, ndb, pairs=False):
        rep = self.rep
        self.fixture(ndb)
        trans = self.transitions(ndb)
        init = tuple([ABSENT] * ndb)
        known = {init: []}     # concrete state -> shortest path
        succ = {}              # (state, transition) -> observed successor state
        ref = {}               # state -> reference observation
        frontier = [init]
        cap = 2 * 5 ** ndb
        model_states, model_trans = set(), set()
        noop_revoke = []
        level = 0
        cut = False
        with ThreadPoolExecutor(self.threads) as pool:
            while frontier and not cut:
                sjobs, tjobs = [], []
                for cs in frontier:
                    sjobs.append((self.job_seq, cs, known[cs]))
                    self.job_seq += 1
                    for tr in trans:
                        tjobs.append((self.job_seq, cs, known[cs], tr))
                        self.job_seq += 1
                fs = [pool.submit(self.job_state, *a) for a in sjobs]
                ft = [pool.submit(self.run_single, a) for a in tjobs]
                new = []
                for a, f in zip(sjobs, fs):
                    r = f.result()
                    if r.get("skipped"):
                        cut = True
                        continue
                    rep["evaluations"] += 1
                    self.count("privsm_state_observations")
                    ref[a[1]] = r["obs"]
                    if r["verdict"]:
                        self.report(r)
                for a, f in zip(tjobs, ft):
                    r = f.result()
                    if r.get("skipped"):
                        cut = True
                        continue
                    job, cs, path, tr = a
                    rep["evaluations"] += 1
                    self.count("transitions")
                    rep["_distinct"].add(self.api.h64("privsm", str(ndb), repr(cs), repr(tr)))
                    pre = self.alpha(cs)
                    model_states.add(pre)
                    model_trans.add((pre, tr[0], tr[1], tr[2]))
                    if r["verdict"]:
                        self.report(r)
                    o = r.get("obs")
                    if o is None or o["cs"] is None:
                        continue
                    post = o["cs"]
                    succ[(cs, tr)] = post
                    if tr[0] == "REVOKE" and self.model(pre, tr) == pre:
                        noop_revoke.append((cs, tr, r))
                    if len(self.samples) < 4 and (job % 7 == 3 or tr[0] == "REVOKE" and self.model(pre, tr) == pre):
                        self.samples.append(dict(stage="privilege machine", state=self.show(cs), path=[self.stmt(t, "u") for t in path],
                                                 statement=self.stmt(tr, "u"), model_after=self.showbits(r["expected"]),
                                                 show_grants_after=self.show(post), user_can=self.showabil(o["abil"]["basic"]), probes=o["raw"]))
                    if None in self.alpha(post) or o["odd"]:
                        continue  # not a state of the machine (already reported), not expanded
                    if post not in known:
                        if len(known) >= cap:
                            cut = True
                            rep["notes"].append("privilege machine: more than %d concrete states, exploration cut" % cap)
                            continue
                        known[post] = path + [tr]
                        new.append(post)
                frontier = new
                level += 1
            # differential: a REVOKE of privileges the user does not hold leaves the behaviour of the state it was issued in
            for cs, tr, r in noop_revoke:
                o, base = r["obs"], ref.get(cs)
                if base is None or base.get("cs") is None:
                    continue
                rep["evaluations"] += 1
                self.count("privsm_differential_revoke_of_unheld_checks")
                if (self.alpha(o["cs"]), o["abil"]["basic"]) != (self.alpha(base["cs"]), base["abil"]["basic"]) and not r["verdict"]:
                    r["verdict"] = ("revoke_of_unheld_privilege_changed_behaviour", "without the REVOKE: %s / %s; with it: %s / %s" % (
                        self.show(base["cs"]), self.showabil(base["abil"]["basic"]), self.show(o["cs"]), self.showabil(o["abil"]["basic"])))
                    self.report(r)
            self.count("states", len(known))
            self.count("privsm_%ddb_concrete_states" % ndb, len(known))
            self.count("privsm_%ddb_model_states" % ndb, len(model_states))
            self.count("privsm_%ddb_transitions" % ndb, len(succ))
            self.count("privsm_%ddb_model_transitions" % ndb, len(model_trans))
            self.cnt["max_privsm_bfs_depth"] = max(self.cnt.get("max_privsm_bfs_depth", 0), max(len(p) for p in known.values()))
            if cut:
                rep["exhaustive"] = False
                if self.expired():
                    rep["notes"].append("privilege machine: deadline reached at BFS level %d (%d databases)" % (level, ndb))
            # sequences of two transitions from every state: the pair must end where the two single steps of the table end
            if pairs and not cut:
                pj = []
                for cs in sorted(known, key=lambda c: (len(known[c]), c)):
                    for t1 in trans:
                        mid = succ.get((cs, t1))
                        if mid is None:
                            continue
                        for t2 in trans:
                            end = succ.get((mid, t2))
                            if end is None:
                                continue
                            pj.append((self.job_seq, cs, known[cs], t1, t2, end))
                            self.job_seq += 1
                fs = [pool.submit(self.run_pair, a) for a in pj]
                for a, f in zip(pj, fs):
                    r = f.result()
                    if r.get("skipped"):
                        rep["exhaustive"] = False
                        if "privilege machine: deadline reached in the two-step sequences" not in rep["notes"]:
                            rep["notes"].append("privilege machine: deadline reached in the two-step sequences")
                        continue
                    rep["evaluations"] += 1
                    self.count("privsm_two_step_sequences")
                    rep["_distinct"].add(self.api.h64("privsm2", str(ndb), repr(a[1]), repr(a[3]), repr(a[4])))
                    if r["verdict"]:
                        self.report(r)
        self.check_stored()
        return known, succ

    def run_pair(self, args):
        job, cs, path, t1, t2, end = args
        r = self.job_transition(job, cs, path, t1, second=t2)
        if r.get("skipped") or r.get("verdict"):
            return r
        r = self.finish_transition(r, self.alpha(end))
        if r["verdict"]:
            r["verdict"] = ("privilege_history_dependence", "the two statements in sequence end differently from the two single steps "
                            "(each from a fresh user in the same listed state): " + r["verdict"][1])
        return r

    # ------------------------------------------------------------------ administrator flag
    def admin_flag_of(self, user):
        st, js, body = self.admin("SHOW USERS")
        for r in (js or {}).get("results") or []:
            for s in r.get("series") or []:
                cols = s.get("columns") or []
                for v in s.get("values") or []:
                    if v[cols.index("user")] == user:
                        return bool(v[cols.index("admin")])
        return None

    def acts_as_admin(self, user):
        _, hd = self.api._basic(user, PW)
        st, body = self.http("GET", "/query", params={"q": "SHOW USERS"}, headers=hd)
        self.count("privsm_admin_probes")
        return st == 200 and not self.api.only_errors(body), "%s %s" % (st, body[:90].decode("latin1").strip())

    def job_admin_flag(self, job, bits):
        """GRANT ALL PRIVILEGES TO u / REVOKE ALL PRIVILEGES FROM u in a database state: the database privileges survive,
        the user acts as administrator exactly while SHOW USERS says so, and a non-admin is under the per-database rules."""
        if self.expired():
            return dict(skipped=True)
        path = [("GRANT", NAME[b], i, NAME[b]) for i, b in enumerate(bits) if b]
        user = self.prepare(job, path)
        out = []
        all3 = tuple([3] * len(self.dbs))

        def look(step, may_be_admin, k):
            o = self.observe(user, job, slot_base=k * len(self.dbs))
            flag = self.admin_flag_of(user)
            acts, atxt = self.acts_as_admin(user)
            bad = []
            if self.alpha(o["cs"] or ()) != bits or o["odd"]:
                bad.append("database privileges did not survive: SHOW GRANTS lists %s" % (self.show(o["cs"]) if o["cs"] else o["err"]))
            if flag is None:
                bad.append("SHOW USERS does not list the user")
            if flag and not may_be_admin:
                bad.append("SHOW USERS says admin")
            if bool(flag) != acts:
                bad.append("SHOW USERS says admin=%s but SHOW USERS sent by the user answered %s" % (flag, atxt))
            want = all3 if flag else bits
            if o["abil"]["basic"] != want:
                bad.append("the user (admin=%s) can %s, expected %s" % (flag, self.showabil(o["abil"]["basic"]), self.showabil(want)))
            self.record_writes(o, want, "privilege machine admin flag: %s in state %s" % (step, self.showbits(bits)),
                               dict(kind="privsm-admin", product="basic", ndb=len(self.dbs), bits=list(bits)))
            return flag, bad, o

        key0 = "privilege machine admin flag: %%s in state %s" % self.showbits(bits)
        flag, bad, o = look("before", False, 0)
        if bad:
            out.append((key0 % "before", bad, o))
        st, js, body = self.admin("GRANT ALL PRIVILEGES TO %s" % user)
        e1 = self.result_error(st, js)
        flag, bad, o = look("GRANT ALL PRIVILEGES TO u", e1 is None, 1)
        if e1 is None and not flag:
            bad.append("the statement was accepted but the user is not an administrator")
        if bad:
            out.append((key0 % "GRANT ALL PRIVILEGES TO u", ["statement answered %s" % (e1 or "ok")] + bad, o))
        self.count("privsm_admin_grant_refused" if e1 else "privsm_admin_grant_accepted")
        st, js, body = self.admin("REVOKE ALL PRIVILEGES FROM %s" % user)
        e2 = self.result_error(st, js)
        flag, bad, o = look("REVOKE ALL PRIVILEGES FROM u", False, 2)
        if bad:
            out.append((key0 % "REVOKE ALL PRIVILEGES FROM u", ["statement answered %s" % (e2 or "ok")] + bad, o))
        return dict(kind="admin", bits=bits, user=user, problems=out)

    def admin_flags(self, states):
        jobs = []
        for bits in states:
            jobs.append((self.job_seq, bits))
            self.job_seq += 1
        with ThreadPoolExecutor(self.threads) as pool:
            fs = [pool.submit(self.job_admin_flag, *a) for a in jobs]
            for a, f in zip(jobs, fs):
                r = f.result()
                if r.get("skipped"):
                    self.rep["exhaustive"] = False
                    continue
                self.rep["evaluations"] += 3
                self.count("privsm_admin_flag_steps", 3)
                self.rep["_distinct"].add(self.api.h64("privsm-admin", repr(a[1])))
                for key, bad, o in r["problems"]:
                    self.violation("admin_flag_transition_mismatch", key, ("; ".join(bad) + " | user %s | probes: %s" % (r["user"], " | ".join(o["raw"])))[:1800],
                                   dict(kind="privsm-admin", product="basic", ndb=len(self.dbs), bits=list(a[1])))
        self.check_stored()


def run(api, world, rep, tier, deadline_at, threads=16, replay=None):
    """the whole stage on a started server without fixture.  replay: the replay object of one violation."""
    ex = Explorer(api, world, rep, tier, deadline_at, threads)
    t0 = time.time()
    if replay:
        ex.fixture(replay.get("ndb", 2))
        if replay.get("kind") == "privsm-admin":
            ex.admin_flags([tuple(replay["bits"])])
        elif replay.get("transition"):
            cs, path = tuple(replay["state"]), [tuple(t) for t in replay["path"]]
            tr = tuple(replay["transition"])
            if replay.get("second"):
                # the expectation of a pair is the end of the two single steps: run them first
                r1 = ex.run_single((0, cs, path, tr))
                mid = r1["obs"]["cs"] if r1.get("obs") else None
                r2 = ex.run_single((1, mid, path + [tr], tuple(replay["second"]))) if mid else None
                if r2 and r2.get("obs") and r2["obs"]["cs"]:
                    r = ex.run_pair((2, cs, path, tr, tuple(replay["second"]), r2["obs"]["cs"]))
                    if r.get("verdict"):
                        ex.report(r)
            else:
                r = ex.run_single((0, cs, path, tr))
                if r.get("verdict"):
                    ex.report(r)
            ex.check_stored()
        else:
            r = ex.job_state(0, tuple(replay["state"]), [tuple(t) for t in replay["path"]])
            if r.get("verdict"):
                ex.report(r)
        return ex
    ex.explore(2, pairs=(tier == "thorough"))
    if tier == "thorough":
        flags = [(a, b) for a in range(4) for b in range(4)]
    else:
        flags = [(0, 0), (1, 2), (3, 0)]
    ex.admin_flags(flags)
    if tier == "thorough":
        ex.explore(3)
    ex.cnt["privsm_users_created"] = ex.job_seq
    ex.cnt["privsm_probes"] = ex.cnt.get("privsm_read_probes", 0) + ex.cnt.get("privsm_write_probes", 0) + ex.cnt.get("privsm_show_grants", 0) + ex.cnt.get("privsm_admin_probes", 0)
    ex.cnt["privsm_wall_ms"] = int((time.time() - t0) * 1000)
    for k, v in ex.cnt.items():
        rep["counters"][k] += v
    rep["samples"] = ex.samples + rep["samples"]
    return ex
