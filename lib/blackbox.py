"""Black-box driver (DESIGN.md §2.5): builds ts-server from the CURRENT tree of the repo, starts it on free
loopback ports with scratch directories, drives it over HTTP, kills/restarts it.

    srv = Server(cid, scratch_dir, name="a", ptnum=1, auth=False, extra={"data": {...}})
    srv.build()            # go build ./app/ts-server (once per check run; cached by Go)
    srv.start(); srv.query("create database d"); srv.write("d", "m,host=a v=1 1"); srv.kill9(); srv.start()
    srv.stop()
A failed start / barrier timeout raises ToolError (exit code 3 in the front end), never a verdict."""
import base64, json, os, signal, socket, subprocess, time, urllib.error, urllib.parse, urllib.request

import checklib


class ToolError(Exception):
    pass


def free_ports(n):
    socks, ports = [], []
    for _ in range(n):
        s = socket.socket()
        s.bind(("127.0.0.1", 0))
        socks.append(s)
        ports.append(s.getsockname()[1])
    for s in socks:
        s.close()
    return ports


_built = {}


def build_server(cid, overlay=None):
    """Build ts-server from checklib.REPO's working tree; returns the binary path."""
    key = (checklib.REPO, overlay)
    if key in _built:
        return _built[key]
    out = os.path.join(checklib.build_dir(cid), "ts-server")
    checklib.go_build(cid, "./app/ts-server", overlay, out, tags="verif" if overlay else "")
    _built[key] = out
    return out


class Server:
    def __init__(self, cid, scratch, name="s", ptnum=1, auth=False, extra=None, overlay=None):
        self.cid, self.name, self.ptnum, self.auth = cid, name, ptnum, auth
        self.dir = os.path.join(scratch, "srv-" + name)
        os.makedirs(self.dir, exist_ok=True)
        self.extra = extra or {}
        self.overlay = overlay
        self.proc = None
        self.bin = None
        self.ports = None
        self.user = None  # (user, password) used by default for requests when auth is on
        self.starts = 0

    # ---- life cycle ----
    def build(self):
        self.bin = build_server(self.cid, self.overlay)
        return self.bin

    def _conf(self):
        if self.ports is None:
            self.ports = free_ports(12)
        p = self.ports
        d = self.dir
        sec = {
            "common": {"meta-join": ["127.0.0.1:%d" % p[2]], "ha-policy": "write-available-first",
                       "ignore-empty-tag": True},
            "meta": {"bind-address": "127.0.0.1:%d" % p[0], "http-bind-address": "127.0.0.1:%d" % p[1],
                     "rpc-bind-address": "127.0.0.1:%d" % p[2], "dir": d + "/meta", "ptnum-pernode": self.ptnum},
            "http": {"bind-address": "127.0.0.1:%d" % p[3], "flight-address": "127.0.0.1:%d" % p[4],
                     "flight-enabled": False, "auth-enabled": self.auth},
            "data": {"store-ingest-addr": "127.0.0.1:%d" % p[5], "store-select-addr": "127.0.0.1:%d" % p[6],
                     "store-data-dir": d + "/data", "store-wal-dir": d + "/data", "store-meta-dir": d + "/meta",
                     "enable-mmap-read": False},
            "coordinator": {"query-timeout": "0s"},
            "logging": {"path": d + "/logs/"},
            "gossip": {"enabled": False},
            "monitor": {"store-enabled": False, "pushers": ""},
            "record-write": {"enabled": False, "rpc-address": "127.0.0.1:%d" % p[7]},
            "hierarchical_storage": {"enabled": False},
        }
        for k, v in self.extra.items():
            sec.setdefault(k, {}).update(v)

        def tv(v):
            if isinstance(v, bool):
                return "true" if v else "false"
            if isinstance(v, (int, float)):
                return str(v)
            if isinstance(v, list):
                return "[" + ", ".join(tv(x) for x in v) + "]"
            return json.dumps(v)

        lines = []
        for s, kv in sec.items():
            lines.append("[%s]" % s)
            for k, v in kv.items():
                lines.append("  %s = %s" % (k, tv(v)))
            lines.append("")
        path = os.path.join(d, "server.conf")
        with open(path, "w") as fh:
            fh.write("\n".join(lines))
        return path

    @property
    def url(self):
        return "http://127.0.0.1:%d" % self.ports[3]

    def start(self, wait_s=60, _retry=2):
        """Starts the server. The ports are probed free before the server binds them, so with several servers starting at
        once a bind can still fail: a first start that dies is retried with fresh ports (a restart keeps its ports)."""
        if self.bin is None:
            self.build()
        first_start = self.starts == 0
        try:
            return self._start_once(wait_s)
        except ToolError:
            if not first_start or _retry <= 0:
                raise
            self.kill9()
            self.ports = None
            self.starts = 0
            return self.start(wait_s, _retry - 1)

    def _start_once(self, wait_s):
        conf = self._conf()
        self.starts += 1
        logf = open(os.path.join(self.dir, "stdout-%d.log" % self.starts), "w")
        env = dict(os.environ)
        env["HOME"] = self.dir  # keeps ~/.openGemini logs inside scratch
        self.proc = subprocess.Popen([self.bin, "-config", conf], cwd=self.dir, stdout=logf, stderr=subprocess.STDOUT,
                                     env=env, start_new_session=True)
        t0 = time.time()
        while time.time() - t0 < wait_s:
            if self.proc.poll() is not None:
                raise ToolError("ts-server %s exited %s during start (see %s)" % (self.name, self.proc.returncode, logf.name))
            try:
                with urllib.request.urlopen(self.url + "/ping", timeout=1) as r:
                    if r.status in (200, 204):
                        return
            except Exception:
                time.sleep(0.1)
        raise ToolError("ts-server %s did not answer /ping within %ds" % (self.name, wait_s))

    def alive(self):
        return self.proc is not None and self.proc.poll() is None

    def kill9(self):
        if self.proc is not None:
            try:
                os.killpg(self.proc.pid, signal.SIGKILL)
            except ProcessLookupError:
                pass
            self.proc.wait()
            self.proc = None

    def stop(self):
        if self.proc is not None:
            try:
                os.killpg(self.proc.pid, signal.SIGTERM)
                self.proc.wait(timeout=20)
            except Exception:
                self.kill9()
            self.proc = None

    # ---- HTTP ----
    def request(self, method, path, params=None, body=None, headers=None, auth="default", timeout=60):
        """Returns (status, body_bytes, headers). auth: "default" (self.user if set), None, or (user, pw)."""
        q = urllib.parse.urlencode(params or {})
        url = self.url + path + ("?" + q if q else "")
        req = urllib.request.Request(url, data=body, method=method)
        for k, v in (headers or {}).items():
            req.add_header(k, v)
        cred = self.user if auth == "default" else auth
        if cred:
            req.add_header("Authorization", "Basic " + base64.b64encode(("%s:%s" % cred).encode()).decode())
        try:
            with urllib.request.urlopen(req, timeout=timeout) as r:
                return r.status, r.read(), dict(r.headers)
        except urllib.error.HTTPError as e:
            return e.code, e.read(), dict(e.headers)
        except (urllib.error.URLError, ConnectionError, socket.timeout) as e:
            raise ToolError("request %s %s failed: %s%s" % (method, path, e, self.diagnose()))

    def diagnose(self):
        """Process state and the tail of the server's output, for tool-error messages (a server that panicked says so there)."""
        out = "\n  server %s: %s" % (self.name, "alive" if self.alive() else "NOT running (exit %s)" % (self.proc.returncode if self.proc else "?"))
        try:
            import glob
            for f in sorted(glob.glob(os.path.join(self.dir, "stdout-*.log")))[-1:]:
                txt = open(f, errors="replace").read()
                i = txt.find("panic:")
                j = txt.find("fatal error:")
                k = min([x for x in (i, j) if x >= 0] or [-1])
                tail = txt[k:k + 3000] if k >= 0 else txt[-1500:]
                out += "\n  %s: %s" % (os.path.basename(f), tail.replace("\n", "\n    "))
        except OSError:
            pass
        return out

    def query(self, q, db=None, params=None, method="GET", **kw):
        p = {"q": q, "epoch": "ns"}
        if db:
            p["db"] = db
        p.update(params or {})
        if method == "POST":
            st, body, _ = self.request("POST", "/query", params=p, **kw)
        else:
            st, body, _ = self.request("GET", "/query", params=p, **kw)
        try:
            js = json.loads(body) if body else None
        except ValueError:
            js = None  # chunked answers are several JSON documents; use query_raw for those
        return st, js

    def query_raw(self, q, db=None, params=None, **kw):
        p = {"q": q, "epoch": "ns"}
        if db:
            p["db"] = db
        p.update(params or {})
        st, body, _ = self.request("GET", "/query", params=p, **kw)
        return st, body

    def write(self, db, lines, precision=None, rp=None, **kw):
        p = {"db": db}
        if precision:
            p["precision"] = precision
        if rp:
            p["rp"] = rp
        data = lines if isinstance(lines, bytes) else lines.encode()
        st, body, _ = self.request("POST", "/write", params=p, body=data, **kw)
        return st, body

    def ctrl(self, mod, **params):
        p = {"mod": mod}
        p.update(params)
        st, body, _ = self.request("POST", "/debug/ctrl", params=p)
        return st, body

    def flush(self):
        """Force-flush all memtables (ts-store sysctrl)."""
        return self.ctrl("flush")

    # ---- result helpers ----
    @staticmethod
    def series(js):
        """Flattens a /query JSON answer to [(name, tags-tuple, columns, values)] of the first statement."""
        out = []
        if not js:
            return out
        for res in js.get("results", []):
            if "error" in res:
                raise QueryError(res["error"])
            for s in res.get("series", []) or []:
                out.append((s.get("name"), tuple(sorted((s.get("tags") or {}).items())), s.get("columns"), s.get("values")))
        return out

    def barrier(self, db, mst, expect_series, timeout_s=30):
        """Visibility barrier (DESIGN.md §1): wait until `show series from mst` lists expect_series series.
        A time-out is a tool error, never a verdict."""
        t0 = time.time()
        n = -1
        while time.time() - t0 < timeout_s:
            st, js = self.query('show series from "%s"' % mst, db=db)
            if st == 200:
                try:
                    n = sum(len(s[3] or []) for s in self.series(js))
                except QueryError:
                    n = -1
                if n >= expect_series:
                    return
            time.sleep(0.05)
        raise ToolError("visibility barrier: %s.%s shows %d series, expected %d" % (db, mst, n, expect_series))


class QueryError(Exception):
    pass
