"""C08 - query answers follow the language and ignore chunking and parallelism (pure black box).

Two ts-server instances built from the current tree (1 and 3 partitions per node).  Bounded exhaustive
enumeration (odometer, no randomness) of
  data sets   (lib/c08_model.py) f/g family: 3 series x 4 timestamps x {absent, f+g, f only, g only}, <= 6 points;
              typed family: 3 series x 10 timestamps, fields f float, s string, i integer, b boolean, one series of 9-10 rows
  layouts     memory | flushed | flushed + late (out-of-order / row-completing) points | late points flushed too
  statements  f/g:   SELECT (f | f,g | agg(f)) FROM m [WHERE ..] [GROUP BY tag | time(w) [fill(..)]] [ORDER BY time DESC] [LIMIT n OFFSET k]
              typed: SELECT (s | f,s | s,i,b | * | f,host | b | calls on s, b, i | several calls) with filters on s, i, b
  configs     chunk size n in {1, 2, default} (inner_chunk_size=n, and chunk_size=n when chunked) x chunked {off, on}
              (+ n=1 with chunk_size=3 in thorough) x chunk_reader_parallel {1, default} x server {1 partition, 3 partitions}
Oracle: every answer must be one the reference evaluator (documented InfluxQL semantics evaluated directly over the
logical contents) allows; a DESC answer is compared reversed; limit/offset on grouped queries is only compared across
configurations.  Because every configuration, layout and server is compared with the same expected answer, configuration /
layout / partition invariance and DESC = reverse(ASC) are implied; a mismatch is classified by the dimension it depends on.
"""
import hashlib, json, multiprocessing, os, shutil, signal, sys, threading, time, http.client, urllib.parse

sys.path.insert(0, os.path.dirname(os.path.abspath(__file__)))
import checklib, blackbox
import c08_model as M

CID = "C08"
LEVEL = "exploration"
DB = "c08"
GROUP_SIZE = {"quick": 3, "thorough": 3}
DEADLINE = {"quick": 200, "thorough": 2100}   # seconds of query time; expiry => exhaustive:false, exit 0
NPROC = int(os.environ.get("VERIF_C08_PROCS", "12"))
KEEP_PER_KIND = int(os.environ.get("VERIF_C08_KEEP", "40"))
BATCH = 40                                    # statements per HTTP request (each is confirmed singly on mismatch)
RULE = ("odometer over data sets (f/g family and typed family) x layouts x statements of the family's grammar x (chunk size, "
        "chunked, reader parallelism, server); one evaluation = one statement answer compared with the reference evaluator; "
        "distinct_nontrivial = distinct (data set, statement) pairs whose expected (for limit-on-grouped statements: actual) "
        "answer is non-empty")
ASSUMPTIONS = [
    "reference evaluator = InfluxQL 1.x semantics as documented: rows by time; absent field = null, rows whose selected fields are all "
    "null are dropped; a comparison with a null field is false; aggregate row time = lower bound of the time range (epoch 0 if none), "
    "selectors alone return the time of the selected point; buckets are epoch aligned and labelled by their start; fill(null) is the "
    "default and count() of an empty bucket is 0; fill(previous) leaves leading empty buckets null; groups without any point are absent",
    "lenient where the language is silent: order of series in the answer, order of rows with equal timestamps, which rows of equal "
    "timestamp a LIMIT/OFFSET cut keeps, which of several equal extremes (or equal-time first/last points) a selector returns, floats "
    "compared with 1e-9 relative tolerance, label of an exclusive lower bound (T or T+1ns), count() over no value in a statement "
    "with several calls and no time buckets (0 or null)",
    "typed family: strings, booleans and integers are compared exactly (integer sum/min/max/first/last/count are the exact results "
    "of integer arithmetic, also beyond 2^53; mean of integers is a float); SELECT * returns fields and tags in name order, grouped "
    "tags left out; a tag next to a field is a column, tags alone give an empty answer; a row is dropped when all selected FIELDS "
    "are null; only calls the language defines for the type (count/first/last on strings and booleans), fill(0) only on integer "
    "results, several calls in one statement only without selectors and with the default fill",
    "server settings that answers must not depend on: 2-row segments (max-rows-per-segment=2), no memtable auto-flush, background "
    "compaction and out-of-order merge switched off (debug/ctrl allshards=false, repeated after every load)",
    "limit/offset on grouped queries is compared only across configurations/layouts/servers (skipped when the unlimited answer has ties)",
    "visibility barrier after loading (poll until every written value is returned); barrier time-out = tool error",
    "several statements share one HTTP request; every mismatch is re-executed as a single-statement request before it is reported",
]

# (n, chunked): n = 0 -> server defaults; chunked = False | True (chunk_size = n) | m (an int > 1: chunk_size = m, so that the
# HTTP sender keeps m rows buffered while m batches of n rows pass)
CONFIGS = [(n, ch) for n in (1, 2, 0) for ch in (False, True)] + [(1, 3)]
QUICK_CONFIGS = [(1, False), (1, True), (2, True), (0, False)]
PARS = [1, 0]                                                    # chunk_reader_parallel limit; 0 = default (cpu count)


def cfg_params(n, chunked):
    p = {}
    if n:
        p["inner_chunk_size"] = str(n)
    if chunked:
        p["chunked"] = "true"
        if chunked is not True:
            p["chunk_size"] = str(int(chunked))
        elif n:
            p["chunk_size"] = str(n)
    return p


def mst_name(ds, family):
    return "%s%d" % (family, ds.idx)


# layout -> (measurement family, phase in which it exists)
#   a: everything written at once             b: late (out-of-order / row-completing) points written after the first flush
#   c: the two newest timestamps written after the first flush (newer in-order data)
LAYOUTS = {"memory": ("a", 0), "flushed": ("a", 1), "late": ("b", 1), "seq_mem": ("c", 1),
           "late_flushed": ("b", 2), "seq_files": ("c", 2)}
TIER_LAYOUTS = {"quick": ["memory", "flushed", "late", "late_flushed", "seq_files"],
                "thorough": ["memory", "flushed", "late", "seq_mem", "late_flushed", "seq_files"]}


def family_of(layout):
    return LAYOUTS[layout][0]


def applicable(ds, layout):
    fam = family_of(layout)
    return fam == "a" or (fam == "b" and ds.has_late()) or (fam == "c" and ds.has_seq())


# ---- worker side (forked; read-only globals) ---------------------------------------------------------------------
G = {}


class Conn:
    def __init__(self, url):
        self.host = url[len("http://"):]
        self.c = None

    def get(self, params):
        path = "/query?" + urllib.parse.urlencode(params)
        for attempt in (0, 1, 2):
            try:
                if self.c is None:
                    self.c = http.client.HTTPConnection(self.host, timeout=120)
                self.c.request("GET", path)
                r = self.c.getresponse()
                body = r.read()
                return r.status, body
            except (OSError, http.client.HTTPException) as e:
                err = e
                try:
                    self.c.close()
                except Exception:
                    pass
                self.c = None
                time.sleep(0.2)
        raise blackbox.ToolError("query request failed: %r" % (err,))

    def close(self):
        if self.c is not None:
            self.c.close()
            self.c = None


def run_statement_batch(conn, ds, mst, sts, n, chunked):
    q = ";".join(M.render(st, ds, mst) for st in sts)
    p = {"db": DB, "q": q, "epoch": "ns"}
    p.update(cfg_params(n, chunked))
    status, body = conn.get(p)
    try:
        res = M.merge_docs(body)
    except ValueError:
        raise blackbox.ToolError("unparsable /query answer (status %s): %r" % (status, body[:300]))
    if -1 in res:
        raise blackbox.ToolError("query request rejected (status %s): %s" % (status, res[-1].get("error")))
    return [res.get(i) for i in range(len(sts))]


def judge(ds, st, exp, ans, mst):
    """-> None | reason. exp is None for the 'meta' class."""
    if exp is None:
        if ans is None:
            return "no result for the statement"
        if "error" in ans:
            return "error: %s" % ans["error"]
        return None
    return M.match(ans, exp, st["desc"], mst)


def task(t):
    """One (server, data set, layout, par, n, chunked): all statements. Returns a small result dict."""
    try:
        return _task(t)
    except blackbox.ToolError as e:
        return {"tool_error": str(e), "task": t}
    except Exception as e:  # harness bug -> tool error, never a verdict
        import traceback
        return {"tool_error": "harness exception: %s\n%s" % (e, traceback.format_exc()), "task": t}


def _task(t):
    srv, di, layout, par, n, chunked = t
    ds = G["datasets"][di]
    sts = G["stmts"][di]
    exps = G["expected"][di]
    mst = mst_name(ds, family_of(layout))
    conn = Conn(G["urls"][srv])
    out = {"task": t, "evals": 0, "mism": [], "meta": {}, "sample": None}
    try:
        for b0 in range(0, len(sts), BATCH):
            idxs = list(range(b0, min(b0 + BATCH, len(sts))))
            answers = run_statement_batch(conn, ds, mst, [sts[i] for i in idxs], n, chunked)
            for i, ans in zip(idxs, answers):
                st = sts[i]
                exp = exps[i]
                out["evals"] += 1
                why = judge(ds, st, exp, ans, mst)
                if why is not None:
                    # confirm with a single-statement request (same configuration)
                    ans1 = run_statement_batch(conn, ds, mst, [st], n, chunked)[0]
                    why1 = judge(ds, st, exp, ans1, mst)
                    if why1 is None:
                        # not reproduced alone: still a wrong answer that was returned; kept with a marker so that the verdict
                        # step can tell a known (timing-dependent) defect from anything else
                        out["mism"].append((i, why, M.canon(ans, st["desc"]), True))
                        ans = ans1
                    else:
                        out["mism"].append((i, why1, M.canon(ans1, st["desc"]), False))
                        continue
                if exp is None and not G["meta_skip"][di].get(i):
                    c = M.canon(ans, st["desc"])
                    out["meta"][i] = c
                if out["sample"] is None and ans and ans.get("series") and i % 37 == (di * 7 + n) % 37:
                    out["sample"] = {"dataset": ds.key(), "layout": layout, "server": G["names"][srv],
                                     "config": {"n": n or "default", "chunked": chunked, "par": par or "default"},
                                     "query": M.render(st, ds, mst), "answer": ans["series"]}
    finally:
        conn.close()
    return out


# ---- main side ------------------------------------------------------------------------------------------------------
def start_servers(scratch):
    extra = {"data.memtable": {"write-cold-duration": "2h", "force-snapShot-duration": "2h"},
             "data": {"max-rows-per-segment": 2},   # 3-row chunks span two segments
             "logging": {"level": "error"}}
    a = blackbox.Server(CID, scratch, name="p1", ptnum=1, extra=extra)
    b = blackbox.Server(CID, scratch, name="p3", ptnum=3, extra=extra)
    a.build()
    b.bin = a.bin
    errs = []

    def go(s):
        try:
            s.start(wait_s=120)
        except Exception as e:
            errs.append(e)
    th = [threading.Thread(target=go, args=(s,)) for s in (a, b)]
    [x.start() for x in th]
    [x.join() for x in th]
    if errs:
        a.stop(); b.stop()
        raise blackbox.ToolError(str(errs[0]))
    for s in (a, b):
        for attempt in range(3):     # a freshly started meta service can take long to answer on a loaded machine
            try:
                st, js = s.query("create database %s" % DB, method="POST", timeout=120)
                break
            except blackbox.ToolError:
                if attempt == 2:
                    raise
        if st != 200 or (js and any("error" in r for r in js.get("results", []))):
            raise blackbox.ToolError("create database failed on %s: %s %s" % (s.name, st, js))
    freeze((a, b))
    return a, b


def freeze(servers):
    """Keep the layouts as written: no background compaction / out-of-order merge.  The value of `allshards` IS the switch
    (engine/sysctrl.go: SetAllShardsCompactionSwitch(allshards)); the merge switch is global, the compaction switch only
    reaches the shards that exist, so this is repeated after every load (new shards are born with compaction enabled)."""
    for s in servers:
        for mod in ("compen", "merge"):
            st, body = s.ctrl(mod, allshards="false")
            if st != 200 or b"success" not in body:
                raise blackbox.ToolError("%s allshards=false on %s: %s %r" % (mod, s.name, st, body[:200]))


def set_par(servers, par):
    for s in servers:
        st, body = s.ctrl("chunk_reader_parallel", limit=str(par))
        if st != 200 or b"success" not in body:
            raise blackbox.ToolError("chunk_reader_parallel=%s on %s: %s %r" % (par, s.name, st, body[:200]))


def flush(servers):
    for s in servers:
        st, body = s.flush()
        if st != 200:
            raise blackbox.ToolError("flush on %s: %s %r" % (s.name, st, body[:200]))


def write(s, lines):
    st, body = s.write(DB, "\n".join(lines))
    if st != 204:
        raise blackbox.ToolError("write on %s failed: %s %r" % (s.name, st, body[:300]))


def barrier(s, ds, mst, want, timeout_s=60):
    """Poll until the measurement returns exactly the written number of values of every field (DESIGN.md section 1).
    want = {field: number of non-null values}.  Two independent readings are polled in turn - the rows of
    `select <fields>` and `select count(<field>), ..` - and either one agreeing with `want` ends the wait, so that a defect in
    one of the two query paths shows up as a verdict of the enumeration and not as a barrier time-out."""
    t0 = time.time()
    got = got2 = None
    q = 'select %s from "%s"' % (",".join(ds.fields), mst)
    q2 = 'select %s from "%s"' % (",".join("count(%s)" % k for k in ds.fields), mst)
    while time.time() - t0 < timeout_s:
        st, js = s.query(q, db=DB)
        got = {k: 0 for k in ds.fields}
        if st == 200 and js:
            try:
                for x in blackbox.Server.series(js):
                    for k in ds.fields:
                        if k in x[2]:
                            j = x[2].index(k)
                            got[k] += sum(1 for r in (x[3] or []) if r[j] is not None)
            except blackbox.QueryError:
                got = None
        if got == want:
            return
        st, js = s.query(q2, db=DB)
        got2 = {k: 0 for k in ds.fields}
        if st == 200 and js:
            try:
                for x in blackbox.Server.series(js):
                    for r in (x[3] or []):
                        for k, v in zip(ds.fields, r[1:]):
                            got2[k] += v or 0
            except blackbox.QueryError:
                got2 = None
        if got2 == want:
            return
        time.sleep(0.05)
    raise blackbox.ToolError("visibility barrier: %s on %s shows %s / counts %s, expected %s" % (mst, s.name, got, got2, want))


FAMILIES = ("a", "b", "c")


def load_phase1(servers, dss):
    for s in servers:
        lines = []
        for ds in dss:
            for fam in FAMILIES:
                if fam != "c" or ds.has_seq():
                    lines += ds.lines(mst_name(ds, fam), ds.batches(fam)[0])
        write(s, lines)
    for s in servers:
        for ds in dss:
            for fam in FAMILIES:
                if fam != "c" or ds.has_seq():
                    barrier(s, ds, mst_name(ds, fam), ds.counts(ds.batches(fam)[0]))
    freeze(servers)


def load_phase2(servers, dss):
    for s in servers:
        lines = []
        for ds in dss:
            for fam in ("b", "c"):
                if fam != "c" or ds.has_seq():
                    lines += ds.lines(mst_name(ds, fam), ds.batches(fam)[1])
        if lines:
            write(s, lines)
    for s in servers:
        for ds in dss:
            for fam in ("b", "c"):
                if fam != "c" or ds.has_seq():
                    barrier(s, ds, mst_name(ds, fam), ds.counts(*ds.batches(fam)))
    freeze(servers)


def precompute(dss, stmts_of):
    expected, meta_skip = [], []
    for ds, sts in zip(dss, stmts_of):
        row, skip = [], {}
        for i, st in enumerate(sts):
            if M.klass(st) == "ref":
                row.append(M.evaluate(ds, st))
            else:
                row.append(None)
                st0 = dict(st)
                st0["limit"] = None
                skip[i] = M.ambiguous(M.evaluate(ds, st0))
        expected.append(row)
        meta_skip.append(skip)
    return expected, meta_skip


def h64(*parts):
    return int.from_bytes(hashlib.sha1("|".join(str(p) for p in parts).encode()).digest()[:8], "big")


K_DESC_FILL = "desc_fill_previous_takes_later_bucket"
K_FILL_TAGS = "fill_previous_wrong_fill_value_with_tag_groups"
K_DESC_SEL = "desc_first_last_wrong_point"
K_NULLROW = "all_null_row_kept_when_filter_is_on_another_field"
K_SPLIT = "field_filter_applied_to_halves_of_row_completed_after_flush"
K_NULLAGG = "aggregate_wrong_when_null_f_row_passes_filter_on_another_field"
K_LAST_SEG = "last_reports_time_of_newer_row_of_multi_segment_file"
K_GLIMIT = "limit_on_grouped_aggregate_changes_bucket_values"
K_GLIMIT_SEL = "limit_on_tag_and_time_grouped_aggregate_selects_other_rows"
K_FILL_STR = "fill_previous_forgets_string_of_single_value_chunk"
K_FILL_STR_ALIAS = "fill_previous_string_overwritten_when_chunk_buffer_is_reused"
K_DESC_TAG_LOST = "desc_tag_group_time_bucket_value_lost_at_chunk_boundary"
K_COUNT_NULL = "count_null_instead_of_zero_next_to_other_calls"
K_GAP_BATCH = "time_bucket_value_moves_to_the_bucket_of_the_previous_value_with_file_and_memtable_rows"


def defect_model_kind(ds, st, layout, ans, n=None):
    """Kind of a mismatching answer if it is what a model of one known defect predicts (exact models first, then the relaxed
    ones that only pin down everything outside the defect), else None.  The models live in c08_model; they are not part of
    the reference semantics."""
    def fits(exp):
        return M.match(ans, exp, False) is None
    if "error" in ans:
        return None
    agg = M.is_agg(st)
    late = layout in ("late", "late_flushed") and ds.split_point() is not None
    fprev = bool(st["w"]) and st["fill"] == "previous"
    fieldpred = M.is_field_pred(st)
    selector = M.single_selector(st)
    if st["desc"] and fprev and not st["gbtag"] and fits(M.evaluate(ds, st, fill_prev_iteration_order=True)):
        return K_DESC_FILL
    dsel = st["desc"] and selector in ("first", "last") and not st["w"]
    if dsel and fits(M.evaluate(ds, st, swap_first_last=True)):
        return K_DESC_SEL
    if st["desc"] and selector in ("first", "last") and st["w"] and st["fill"] != "previous" and \
            fits(M.evaluate(ds, st, bucket_selector_any=True)):
        return K_DESC_SEL          # the same positional first/last, inside a time bucket that holds several points of a series
    if fieldpred:
        if not agg and fits(M.evaluate(ds, st, keep_null_rows=True)):
            return K_NULLROW
        if late:
            if fits(M.evaluate(ds, st, split_row=True)):
                return K_SPLIT
            if not agg and fits(M.evaluate(ds, st, split_row=True, keep_null_rows=True)):
                return K_SPLIT + "+all_null_row_kept"
    if agg and fieldpred and M.null_f_row_passes_filter(ds, st, split_row=late):
        return K_NULLAGG if not (late and not M.null_f_row_passes_filter(ds, st)) else K_SPLIT + "+null_f_row_reaches_aggregate"
    if dsel and fits(M.relaxed_desc_selector_expectation(ds, st)):
        return K_DESC_SEL
    if fprev and selector in ("first", "last") and not st["gbtag"] and M.call_field_type(ds, st) == "string" and \
            fits(M.relaxed_fill_expectation(ds, st, or_null=True, fill_prev_iteration_order=bool(st["desc"]))):
        return K_FILL_STR          # a filled cell is the right string or null; every non-empty bucket is right
    if fprev and selector in ("first", "last") and not st["gbtag"] and M.call_field_type(ds, st) == "string" and \
            fits(M.relaxed_fill_expectation(ds, st, fill_prev_iteration_order=bool(st["desc"]))):
        return K_FILL_STR_ALIAS    # a filled cell holds bytes of a later string (same length as the right one); the rest is right
    if fprev and st["gbtag"] and fits(M.relaxed_fill_expectation(ds, st)):
        return K_FILL_TAGS
    if fprev and st["gbtag"] and st["desc"] and selector in ("first", "last") and \
            fits(M.relaxed_fill_expectation(ds, st, bucket_selector_any=True)):
        return K_FILL_TAGS + "+" + K_DESC_SEL
    if agg and st["w"] and len(M.agg_items(st)) > 1 and fits(M.evaluate(ds, st, count_cell_null=True)):
        return K_COUNT_NULL        # several calls per time bucket: a count() cell without values is null instead of 0
    if agg and st["w"] and st["desc"] and st["gbtag"] and st["fill"] in (None, "0") and \
            fits(M.evaluate(ds, st, lossy=True, count_cell_null=True)):
        return K_DESC_TAG_LOST     # every cell is right or shows the empty-bucket value (a value was lost), nothing else
    if agg and st["w"] and n in (1, 2) and (layout in ("late", "late_flushed") or (layout == "seq_mem" and st["desc"])) and \
            M.field_null_between_values(ds, st):
        return K_GAP_BATCH         # classified by its trigger (data partly in a file and partly in the memtable, a small batch
        #                            in which the aggregated field is null in every row)
    if selector == "last" and not st["w"] and layout != "memory" and fits(M.relaxed_selector_expectation(ds, st, any_row_time=True)):
        return K_LAST_SEG
    return None


def meta_trigger_kind(ds, st, minority, major_canon=None, minor_canons=()):
    """limit/offset on grouped queries (only compared across executions): name the known defect whose trigger is present."""
    if M.is_agg(st) and st["w"] and major_canon is not None:
        major_clean = not M.rows_not_in_unlimited_answer(_uncanon(major_canon), ds, st)
        partly_in_memtable = all(x[0] not in ("memory", "flushed") for x in minority)   # several sources per series
        if major_clean and any(M.rows_not_in_unlimited_answer(_uncanon(c), ds, st) for c in minor_canons) and \
                (partly_in_memtable or all(M.rows_not_in_unlimited_answer(_uncanon(c), ds, st) for c in minor_canons)):
            return K_GLIMIT        # some execution returns a row that is no row of the unlimited answer (a bucket misses points)
        if major_clean and (st["gbtag"] or partly_in_memtable):
            return K_GLIMIT_SEL    # all rows are rows of the unlimited answer, the limit selected other ones
    if M.is_field_pred(st) and ds.split_point() is not None and \
            all(x[0] in ("late", "late_flushed") for x in minority):
        return K_SPLIT
    if not M.is_agg(st) and M.is_field_pred(st):
        st0 = dict(st)
        st0["limit"] = None
        if json.dumps(M.evaluate(ds, st0, keep_null_rows=True)) != json.dumps(M.evaluate(ds, st0)):
            return K_NULLROW       # a row whose selected fields are all null passes the filter and takes part in LIMIT/OFFSET;
            #                        where it lands among rows of equal time differs between executions
    return None


def dimension_kind(recs, executed, others):
    """Generic classification of the mismatching executions `recs` of one (data set, statement) by the dimension the
    mismatch depends on. executed = all executions of the data set; others = mismatches classified otherwise."""
    bad = set(r[:5] for r in recs)
    good = set(executed) - bad - set(r[:5] for r in others)
    if not good:
        return "answer_differs_from_reference"
    dims = ["layout", "server", "par", "chunk_size", "chunked"]
    dep = []
    for d in range(5):
        bv, gv = set(x[d] for x in bad), set(x[d] for x in good)
        if not (bv & gv):   # projected on d, failing and passing executions use disjoint values
            dep.append(dims[d])
    single = {"server": "partition_count_changes_answer", "layout": "layout_changes_answer",
              "par": "reader_parallelism_changes_answer", "chunk_size": "chunk_size_changes_answer",
              "chunked": "response_chunking_changes_answer"}
    if len(dep) == 1:
        return single[dep[0]]
    return "configuration_changes_answer"


def _uncanon(c):
    o = json.loads(c)
    if isinstance(o, dict):
        return o
    return {"series": [{"name": None, "tags": dict(tg), "columns": cols, "values": vals} for tg, cols, vals in o]}


def cfg_label(x):
    layout, srv, par, n, chunked = x
    return "%s/%s/par=%s/n=%s/%s" % (layout, srv, par or "default", n or "default", "chunked" if chunked else "plain")


def _sigterm(signum, frame):
    raise SystemExit(143)


def run(tier, replay):
    t0 = time.time()
    scratch = checklib.scratch_root(CID)
    servers = []
    signal.signal(signal.SIGTERM, _sigterm)
    try:
        try:
            if replay:
                return do_replay(replay, scratch, servers)
            return do_run(tier, scratch, servers, t0)
        except blackbox.ToolError as e:
            checklib.tool_error(str(e))
    finally:
        for s in servers:
            try:
                s.kill9()
            except Exception:
                pass
        shutil.rmtree(scratch, ignore_errors=True)


PHASES = [[l for l, (_, ph) in LAYOUTS.items() if ph == k] for k in range(3)]


def do_run(tier, scratch, servers, t0):
    dsgroups = M.groups(tier)
    fam_only = os.environ.get("VERIF_C08_FAMILY")          # experiments only: "typed" | "fg"
    if fam_only:
        dsgroups = [g for g in ([d for d in g if d.family == fam_only] for g in dsgroups) if g]
    seed = int(os.environ.get("VERIF_SEED", "0") or 0)
    if seed:  # rotates the order only
        k = seed % len(dsgroups)
        dsgroups = dsgroups[k:] + dsgroups[:k]
        dsgroups = [g[seed % len(g):] + g[:seed % len(g)] for g in dsgroups]
    if os.environ.get("VERIF_C08_GROUPS"):                  # experiments only: "n" = the first n groups, "a:b" = groups a..b-1
        lo, _, hi = os.environ["VERIF_C08_GROUPS"].rpartition(":")
        dsgroups = dsgroups[int(lo or 0):int(hi)]
    dss, groups = [], []
    for g in dsgroups:
        groups.append(list(range(len(dss), len(dss) + len(g))))
        dss += g
    by_family = {}
    for ds in dss:
        if ds.family not in by_family:
            by_family[ds.family] = M.statements_for(tier, ds)
    stmts_of = [by_family[ds.family] for ds in dss]
    checklib.log("C08 %s: %d data sets in %d groups; statements: %s" % (
        tier, len(dss), len(groups), ", ".join("%s %d" % (k, len(v)) for k, v in sorted(by_family.items()))))
    expected, meta_skip = precompute(dss, stmts_of)
    a, b = start_servers(scratch)
    servers += [a, b]
    names = ["p1", "p3"]
    G.update(datasets=dss, stmts=stmts_of, expected=expected, meta_skip=meta_skip, urls=[a.url, b.url], names=names)
    configs = CONFIGS if tier == "thorough" else QUICK_CONFIGS
    layouts = TIER_LAYOUTS[tier]
    deadline = time.time() + int(os.environ.get("VERIF_DEADLINE_S", DEADLINE[tier]))   # counted from the first request

    evals = 0
    executed = {}            # di -> [(layout, srvname, par, n, chunked)]
    mism = {}                # (di, si) -> [(layout, srv, par, n, chunked, why, canon)]
    meta = {}                # (di, si) -> {canon: [cfg]}
    samples = []
    notes = []
    cut = False
    counters = {"evaluations_layout_" + l: 0 for l in LAYOUTS}
    counters["data_set_groups_completed"] = 0
    pool = multiprocessing.get_context("fork").Pool(NPROC)
    try:
        for gi, group in enumerate(groups):
            if time.time() > deadline:
                cut = True
                break
            gds = [dss[di] for di in group]
            tl = time.time()
            load_phase1(servers, gds)
            for phase, phase_layouts in enumerate(PHASES):
                phase_layouts = [l for l in phase_layouts if l in layouts]
                if not phase_layouts:
                    continue
                if phase == 1:
                    flush(servers)
                    load_phase2(servers, gds)
                elif phase == 2:
                    flush(servers)
                for par in PARS:
                    set_par(servers, par)
                    tasks = []
                    for di in group:
                        for layout in phase_layouts:
                            if not applicable(dss[di], layout):
                                continue
                            for (n, ch) in configs:
                                for srv in (0, 1):
                                    tasks.append((srv, di, layout, par, n, ch))

                    def feed():
                        for t in tasks:
                            if time.time() > deadline:
                                return
                            yield t
                    ndone = 0
                    for r in pool.imap_unordered(task, feed()):
                        if "tool_error" in r:
                            raise blackbox.ToolError("%s (task %s)%s" % (r["tool_error"], r["task"], servers[r["task"][0]].diagnose()))
                        ndone += 1
                        srv, di, layout, par_, n, ch = r["task"]
                        x = (layout, names[srv], par_, n, ch)
                        executed.setdefault(di, []).append(x)
                        evals += r["evals"]
                        counters["evaluations_layout_" + layout] += r["evals"]
                        for i, why, c, fl in r["mism"]:
                            mism.setdefault((di, i), []).append(x + (why, c, fl))
                        for i, c in r["meta"].items():
                            meta.setdefault((di, i), {}).setdefault(c, []).append(x)
                        if r["sample"] and len(samples) < 12 and all(s["query"] != r["sample"]["query"] for s in samples):
                            samples.append(r["sample"])
                    if ndone < len(tasks):
                        cut = True
                        break
                if cut:
                    break
            checklib.log("group %d/%d (%s): %d evaluations so far, %.0fs%s" % (
                gi + 1, len(groups), ",".join(str(dss[di].idx) for di in group), evals, time.time() - t0,
                " (cut by deadline)" if cut else ""))
            if cut:
                break
            counters["data_set_groups_completed"] += 1
    finally:
        pool.terminate()
        pool.join()
    if cut:
        notes.append("deadline reached after %d of %d data-set groups: later groups were not executed (the interrupted group only "
                     "partly); everything executed was fully compared" % (counters["data_set_groups_completed"], len(groups)))
    for s in servers:
        if not s.alive():
            raise blackbox.ToolError("ts-server %s died during the run" % s.name)

    # ---- verdicts ----
    violations = []
    nvio = 0
    per_kind = {}

    def add(kind, key, detail, rp):
        nonlocal nvio
        nvio += 1
        per_kind[kind] = per_kind.get(kind, 0) + 1
        if per_kind[kind] <= KEEP_PER_KIND:
            violations.append({"kind": kind, "key": key, "detail": detail, "replay": rp})

    def cfgs_json(recs, k=6):
        return [{"layout": r[0], "server": r[1], "par": r[2], "n": r[3], "chunked": r[4]} for r in recs[:k]]

    for (di, i), recs in sorted(mism.items()):
        ds, st = dss[di], stmts_of[di][i]
        exp = expected[di][i]
        bykind, rest = {}, []
        cache = {}
        for r in recs:
            ck = (r[0], r[3], r[6])
            if ck not in cache:
                cache[ck] = defect_model_kind(ds, st, r[0], _uncanon(r[6]), r[3])
            k = cache[ck]
            if k:
                bykind.setdefault(k, []).append(r)
            elif r[7]:
                bykind.setdefault("answer_changes_on_reexecution", []).append(r)
            else:
                rest.append(r)
        if rest:
            bykind[dimension_kind(rest, executed[di], [r for r in recs if r not in rest])] = rest
        for kind, rs in sorted(bykind.items()):
            first = rs[0]
            detail = "%s on data set %s: %s; got %s; expected %s; %d of %d executions (e.g. %s)%s" % (
                M.render(st, ds, "m"), ds.key(), first[5], first[6][:400], json.dumps(exp)[:400], len(rs), len(executed[di]),
                ", ".join(cfg_label(r[:5]) for r in rs[:4]),
                "; %d of them only inside a multi-statement request, not when re-executed alone" % sum(1 for r in rs if r[7])
                if any(r[7] for r in rs) else "")
            rp = {"dataset": ds.to_json(), "layout": first[0], "query": st, "configs": cfgs_json(rs)}
            add(kind, "%s :: %s" % (M.shape(st, ds), ds.key()), detail, rp)
    for (di, i), by in sorted(meta.items()):
        if len(by) > 1:
            ds, st = dss[di], stmts_of[di][i]
            groups_ = sorted(by.items(), key=lambda kv: (-len(kv[1]), kv[0]))
            major = groups_[0]
            recs = [x + ("differs from the majority answer", c, False) for c, xs in groups_[1:] for x in xs]
            kind = meta_trigger_kind(ds, st, [r[:5] for r in recs], major[0], [c for c, _ in groups_[1:]]) or \
                dimension_kind(recs, [x for _, xs in groups_ for x in xs], [])
            detail = "%s on data set %s: %d different answers across configurations; majority (%d) %s; others: %s" % (
                M.render(st, ds, "m"), ds.key(), len(by), len(major[1]), major[0][:300],
                "; ".join("%s -> %s" % (cfg_label(xs[0]), c[:200]) for c, xs in groups_[1:4]))
            rp = {"dataset": ds.to_json(), "layout": groups_[1][1][0][0], "query": st,
                  "configs": cfgs_json([major[1][0]] + [xs[0] for _, xs in groups_[1:5]])}
            add(kind, "%s :: %s" % (M.shape(st, ds), ds.key()), detail, rp)
    distinct = set()
    for di, ds in enumerate(dss):
        if di not in executed:
            continue
        for i, st in enumerate(stmts_of[di]):
            e = expected[di][i]
            if e is not None:
                if e:
                    distinct.add(h64(ds.key(), M.shape(st, ds)))
            else:
                cs = meta.get((di, i))
                if cs and any(c != "[]" for c in cs):
                    distinct.add(h64(ds.key(), M.shape(st, ds)))
    all_sts = [s for v in by_family.values() for s in v]
    counters.update({"data_sets": len(executed), "statements": len(all_sts),
                     "data_sets_typed_family": sum(1 for di in executed if dss[di].family == "typed"),
                     "statements_typed_family": len(by_family.get("typed", [])),
                     "max_rows_of_one_series": max([0] + [len(dss[di].series_rows(si)) for di in executed for si in range(3)]),
                     "statements_reference_class": sum(1 for s in all_sts if M.klass(s) == "ref"),
                     "statements_config_invariance_only": sum(1 for s in all_sts if M.klass(s) == "meta"),
                     "meta_pairs_skipped_for_ties": sum(1 for di in executed for v in meta_skip[di].values() if v),
                     "mismatching_pairs": len(mism), "tasks": sum(len(v) for v in executed.values())})
    for k, v in per_kind.items():
        counters["violations_" + k] = v
    notes.append("configurations: chunk size n in {1,2,default} sets inner_chunk_size=n and (when chunked) chunk_size=n; "
                 "chunk_reader_parallel in {1, default(0 = cpu count)}; quick uses %s" % (QUICK_CONFIGS,))
    if os.environ.get("VERIF_C08_DUMP"):
        with open(os.environ["VERIF_C08_DUMP"], "w") as fh:
            json.dump(violations, fh, indent=1)
    rep = {"evaluations": evals, "samples": samples, "violations": violations, "n_violations": nvio, "counters": counters,
           "exhaustive": not cut, "notes": notes, "_distinct": distinct}
    return checklib.finish(CID, tier, LEVEL, RULE, [rep], t0, ASSUMPTIONS)


def do_replay(path, scratch, servers):
    o = json.load(open(path))
    rp = o.get("replay") or o
    ds = M.DataSet.from_json(rp["dataset"])
    st = rp["query"]
    cfgs = rp["configs"]
    a, b = start_servers(scratch)
    servers += [a, b]
    byname = {"p1": a, "p3": b}
    G.update(urls=[a.url, b.url], names=["p1", "p3"])
    load_phase1([a, b], [ds])
    want_layouts = set(c.get("layout", rp.get("layout", "memory")) for c in cfgs)
    exp = M.evaluate(ds, st) if M.klass(st) == "ref" else None
    fails = 0
    answers = {}
    print("query: %s   (data set %s)" % (M.render(st, ds, "m"), ds.key()))
    if exp is not None:
        print("expected (ascending orientation): %s" % json.dumps(exp))
    phase = 0
    for phase_layouts in PHASES:
        if phase == 1:
            flush([a, b]); load_phase2([a, b], [ds])
        elif phase == 2:
            flush([a, b])
        phase += 1
        for c in cfgs:
            layout = c.get("layout", rp.get("layout", "memory"))
            if layout not in phase_layouts:
                continue
            s = byname[c["server"]]
            set_par([s], c["par"])
            mst = mst_name(ds, family_of(layout))
            conn = Conn(s.url)
            ans = run_statement_batch(conn, ds, mst, [st], c["n"], c["chunked"])[0]
            conn.close()
            why = judge(ds, st, exp, ans, mst)
            cn = M.canon(ans, st["desc"])
            answers.setdefault(cn, []).append(c)
            lab = cfg_label((layout, c["server"], c["par"], c["n"], c["chunked"]))
            if why is not None:
                fails += 1
                print("REPLAY-VIOLATION %s: %s\n  answer %s" % (lab, why, cn[:1500]))
            else:
                print("ok %s: %s" % (lab, cn[:300]))
        want_layouts -= set(phase_layouts)
        if not want_layouts:
            break
    if exp is None and len(answers) > 1:
        fails += 1
        print("REPLAY-VIOLATION %d different answers across the configurations" % len(answers))
    print("replay: %s" % ("still fails" if fails else "passes"))
    return 1 if fails else 0
