SPEC = dict(
    pkg="engine/index/tsi",
    test="TestVerifC10",
    level="exploration",
    workers=16,
    deadline={"quick": 150, "thorough": 2100},
    rule="TODO",
    assumptions=[],
)

CLAIMED = False
MANIFEST = dict(level="exploration", engine="seqx", technique="TODO", text="TODO", note="TODO")
