SPEC = dict(
    pkg="engine/index/tsi",
    test="TestVerifC10",
    level="exploration",
    workers=16,
    deadline={"quick": 240, "thorough": 2100},
    # every worker is a single-threaded explorer; 2 Ps keep the index's own helper goroutines cheap
    # (the persisted index caches are written with one file per P on every close)
    env={"GOMAXPROCS": "2"},
    rule="(a) histories: every no-op-pruned sequence over {insert k (8 series keys), flush, clear caches, restart, reopen} "
         "of length 4 (quick) / 5 on all keys + 6 on 5 keys (thorough), each on a fresh index, id+listing oracle after every step, "
         "one-atom predicate sweep on every state (quick) / every final state (thorough); non-trivial = contains an insert followed "
         "by a flush/clear/restart/reopen; (b) predicates: every tree of <=2 (quick) / <=3 (thorough) atoms over "
         "{host,region}x{=,!=,=~,!~}x{a,b,'',/a/,/^a$/,/a|b/,/[ab]/,/a.*/,/.*/,/^$/} (+5 extension atoms in <=2-atom trees) with AND/OR/"
         "parentheses on 5 fixed index states x 2 measurements through SearchSeriesByTableAndCond, SearchSeriesIterator, "
         "SearchTagValues, SearchSeriesKeys, SeriesCardinality; non-trivial = expected result is a proper non-empty subset "
         "of the visible series; distinct_nontrivial counts distinct (visible set, tree) pairs plus distinct non-trivial histories",
    assumptions=[
        "background raw-item flusher and part mergers of the mergeset table are stopped after every open (Table.StopMergeAndFlusher), "
        "so visibility and part layout are decided by the explored operations only",
        "index cache sizes set to 32 MB by config.SetIndexConfig (sizes only; persistence, compression, bloom filter = defaults)",
        "conditions reach the index as SHOW statements send them (as parsed) for SearchSeriesKeys/SearchTagValues/SeriesCardinality/"
        "SearchSeriesByTableAndCond and as SELECT sends them (after SelectStatement.RewriteRegexConditions) for SearchSeriesIterator",
        "a restart gives the index a logical clock one higher and re-seeds the sequence counter; a reopen keeps both",
        "series are inserted as influx.Row values (sorted tags, UnmarshalIndexKeys); the line-protocol parser drops empty-valued tags, "
        "so an empty tag value is represented by the series lacking the tag",
    ],
)

# Set CLAIMED = True once the check is clean on the unchanged tree (exit 0, KNOWN-FINDING lines allowed).
CLAIMED = False
MANIFEST = dict(level="exploration", engine="seqx", technique="TODO", text="TODO", note="TODO")
