SPEC = dict(
    pkg="engine/index/tsi",
    test="TestVerifC10",
    level="exploration",
    workers=16,
    deadline={"quick": 240, "thorough": 2100},
    # every worker is a single-threaded explorer; one P keeps the index's own helper goroutines cheap
    # (the persisted index caches are written with one file per P on every close: 110 -> 26 ms CPU per history)
    env={"GOMAXPROCS": "1"},
    rule="(a) histories: every no-op-pruned sequence over {insert k (8 series keys), flush, clear caches, restart, reopen} "
         "of length 4 (quick) / 5 on all keys + 6 on 5 keys (thorough), each on a fresh index, id+listing oracle after every step, "
         "one-atom predicate sweep on every state (quick) / every final state (thorough); non-trivial = contains an insert followed "
         "by a flush/clear/restart/reopen; (b) predicates: every tree of <=2 (quick) / <=3 (thorough) atoms over "
         "{host,region}x{=,!=,=~,!~}x{a,b,'',/a/,/^a$/,/a|b/,/[ab]/,/a.*/,/.*/,/^$/} (+5 extension atoms in <=2-atom trees) with AND/OR/"
         "parentheses on 5 fixed index states x 2 measurements through SearchSeriesByTableAndCond, SearchSeriesIterator, "
         "SearchTagValues, SearchSeriesKeys, SeriesCardinality; non-trivial = expected result is a proper non-empty subset "
         "of the visible series; distinct_nontrivial counts distinct (visible set, tree) pairs plus distinct non-trivial histories",
    assumptions=[
        "background raw-item flusher and part mergers of the mergeset table are stopped after every open (Table.StopMergeAndFlusher), "
        "so visibility and part layout are decided by the explored operations only",
        "index cache sizes set to 32 MB by config.SetIndexConfig (sizes only; persistence, compression, bloom filter = defaults)",
        "conditions reach the index as SHOW statements send them (as parsed) for SearchSeriesKeys/SearchTagValues/SeriesCardinality/"
        "SearchSeriesByTableAndCond and as SELECT sends them (after SelectStatement.RewriteRegexConditions) for SearchSeriesIterator",
        "a restart gives the index a logical clock one higher and re-seeds the sequence counter; a reopen keeps both",
        "series are inserted as influx.Row values (sorted tags, UnmarshalIndexKeys); the line-protocol parser drops empty-valued tags, "
        "so an empty tag value is represented by the series lacking the tag",
    ],
)

# Set CLAIMED = True once the check is clean on the unchanged tree (exit 0, KNOWN-FINDING lines allowed).
CLAIMED = True
MANIFEST = dict(
    level="exploration",
    engine="seqx+enumx",
    technique="bounded exhaustive history exploration (prefix replay on a fresh real index per sequence, no-op pruning, id and listing "
              "oracle after every step) plus exhaustive enumeration of predicate trees over a finite atom grammar, both against a "
              "brute-force reference (Go regexp, unanchored, absent tag = empty string) on the real engine/index/tsi code",
    text="Every operation sequence over {insert one of 8 series keys, index flush, cache clear, restart, reopen} up to length 4 (quick) / "
         "5, and 6 on a 5-key subset (thorough) is executed on a fresh MergeSetIndex; after every step each key's id is looked up "
         "(defined iff inserted, pairwise distinct, unchanged since first assignment) and the unconditional series, tag-value and "
         "cardinality listings are compared with the model. Every predicate tree with up to 2 (quick) / 3 (thorough) atoms over "
         "{host,region} x {=,!=,=~,!~} x 10 values with AND/OR/parentheses is evaluated through five search entry points on five fixed "
         "index states and compared with brute force over the visible series; every one-atom predicate on every explored state. "
         "Exhaustive within these bounds. Four genuine regex defects and one duplicate-id defect are reported as known findings "
         "(three small fixes proposed).",
    note="Trusts: Go runtime and regexp; the harness's brute-force evaluator; influxql parser for the tree shape. The table's "
         "background flusher/mergers are stopped (visibility and layout are driven by the explored ops only); cache sizes 32 MB; "
         "tag arrays, bloom filter, Perl-regex mode, deletes and concurrent writers are out of scope; keys/values outside the 8-key "
         "alphabet and histories longer than the bound are not covered.",
)
