import os


def _overlay_extra(cid, tier):
    """engine/immutable/task.go and merge_out_of_order.go of the tree under test with the two calls that are meant to
    recover a panic of a compaction / out-of-order merge made effective (in the tree as it is `recover()` sits one call too
    deep, inside CompactRecovery / MergeRecovery, and recovers nothing: the panic ends the process). One line each is
    rewritten; nothing else changes. Without the rewrite a panicking reorganisation kills the worker (tool error) instead
    of being reported as a violation of the history that caused it. If a line is not found (e.g. the recovery was
    repaired in the tree) the file is left alone."""
    import checklib
    out = {}
    for rel, old, new in (
        ("engine/immutable/task.go", "\t\t\tCompactRecovery(m.path, group)\n",
         "\t\t\tif verifErr := recover(); verifErr != nil {\n\t\t\t\tVerifC02Recovered(\"Compact\", verifErr, m.path)\n\t\t\t}\n"),
        ("engine/immutable/merge_out_of_order.go", "\t\t\tMergeRecovery(m.path, ctx.mst, ctx)\n",
         "\t\t\tif verifErr := recover(); verifErr != nil {\n\t\t\t\tVerifC02Recovered(\"Merge\", verifErr, m.path)\n\t\t\t}\n"),
    ):
        src = os.path.join(checklib.REPO, rel)
        text = open(src).read()
        if text.count(old) != 1:
            checklib.log("C02: recovery call line not found in %s; file not rewritten" % rel)
            continue
        dst = os.path.join(checklib.build_dir(cid), "ov_" + os.path.basename(rel))
        with open(dst, "w") as fh:
            fh.write(text.replace(old, new))
        out[src] = dst
    return out


SPEC = dict(
    pkg="engine",
    hooks=["engine", "engine/immutable", "lib/fileops"],
    overlay_extra=_overlay_extra,
    test="TestVerifC02",
    level="exploration",
    workers=16,
    # the narrow stage needs ~35 s idle / ~200 s on a loaded machine, the wide stage ~75 s idle / several minutes loaded
    deadline={"quick": 1500, "thorough": 3000},
    rule="two stages, both bounded exhaustive enumeration of histories on a fresh real shard with the last-write-wins reference compared "
         "after every step. NARROW (2 series, 4 timestamps): every sequence over {8 write batches, a 16-write burst, flush, level compaction, "
         "full compaction, out-of-order merge, close+reopen} up to the depth bound; every read shape (2 measurements x asc/desc x 4 time "
         "ranges x 7 field subsets) after every step. WIDE (3 series, 32 timestamps, 8-row segments, range batches of 6..48 rows, values that "
         "name write, series, timestamp): histories are depth-first trees per plan {files: write-then-flush letters + LC/FC/MO/MS/RO; "
         "self: three flushed batches of one series then merges of out-of-order files; mem: unflushed batches + F/RO; over: unflushed over "
         "flushed batches}, children = every letter applicable in the end state of the parent, every history compared in full at its last "
         "letter (prefixes are histories of their own), under every knob setting of the plan (segments per chunk {65535, 2} x output file "
         "size {8 GiB, 1 byte} x chunk metas per index item {512, 1} x compaction {record, streaming}; thorough adds out-of-order files "
         "per merge, streaming self-merge, compressed chunk metas); reads per compared step: unbounded range x 7 field subsets x asc/desc x "
         "record size {1000, 5}, plus, for every first/last timestamp b of every segment of every file, ranges starting and ending at b-1s, b, "
         "b+1s and between neighbouring boundaries, each with all fields and one rotating proper subset, asc and desc; plus two volume cases "
         "under product defaults (max-rows-per-segment=8, > 65535 segments of one series in one full compaction). evaluations = compared "
         "steps (narrow) + compared histories (wide); distinct_nontrivial = distinct (knobs, logical content, layout shape incl. per-chunk "
         "segment counts per file and meta-index item)",
    assumptions=["one shard, TSSTORE engine; narrow: 2 series, 4 timestamps, 3 typed fields; wide: 3 series, 32 timestamps, 3 typed fields with nulls",
                 "level compaction group size set to 2 and 8-row segments (smallest legal segment size) so that short histories reach every layout",
                 "background compaction worker and time-based flush disabled for determinism (their effects are explicit ops)",
                 "wide: segment limit 2 through the product's setter (never called by the product itself: a deployed store has 65535, crossed "
                 "by the two volume cases); file size limit and chunk metas per index item through accessors (no setter reaches small values; "
                 "equivalent layouts arise with large chunks / chunk metas); MS = the merge scheduler's 'full' plan, i.e. merge-self-only stores",
                 "wide: the two calls meant to recover a panic of a compaction / merge are made effective by an overlay (as the tree stands they "
                 "recover nothing and the panic would end the worker)",
                 "wide: field subsets on bounded ranges are a rotating representative (all fields + 1 of the 6 proper subsets per range and order)"],
)
CLAIMED = True
MANIFEST = dict(
    level="exploration", engine="seqx",
    technique="bounded exhaustive exploration of operation histories on the real shard with a last-write-wins reference model compared after every step, "
              "in a 4-timestamp universe and in a universe wide enough to cross the engine's size thresholds under an enumerated set of knob settings",
    text="All histories up to the depth bounds over writes (fresh, partial-field, overwrite, late, duplicate-in-batch, two measurements; in the wide stage "
         "range batches of 6..48 rows over 3 series with nulls, descending and shuffled batches) and reorganisations (flush, level / full compaction in "
         "record and streaming mode, out-of-order merge, merge of out-of-order files among themselves, reopen) are run on a real shard; every read shape "
         "(time ranges ending before / on / after every segment and file boundary, field subsets, both orders, two record sizes) is compared with the reference.",
    note="Trusts the harness' reference map and dump routine; bounded universes; single shard; no concurrency (see C04); thresholds crossed: rows per "
         "segment, segments per chunk, files per chunk, chunk metas per index item, record vs streaming compaction, rows per returned record, memtable "
         "buffers of 20..48 unsorted rows; not crossed: 8 GiB / 1 MiB file size by volume, 128 MiB streaming threshold, memtable size limit.",
)
