SPEC = dict(
    pkg="engine",
    hooks=["engine", "engine/immutable", "lib/fileops"],
    test="TestVerifC02",
    level="exploration",
    workers=16,
    deadline={"quick": 240, "thorough": 2400},
    rule="every sequence over the alphabet {8 write batches, flush, level compaction, full compaction, out-of-order merge "
         "(normal/full), close+reopen} up to the depth bound is executed on a fresh real shard; after every step every read "
         "shape (2 measurements x asc/desc x 4 time ranges x 7 field subsets) is compared with the last-write-wins reference; "
         "evaluations = executed steps, distinct_nontrivial = distinct (logical content, physical layout shape) states reached",
    assumptions=["one shard, TSSTORE engine, 2 series, 4 timestamps, 3 typed fields",
                 "level compaction group size set to 2 and 2-row segments so that short histories reach every layout",
                 "background compaction worker and time-based flush disabled for determinism (their effects are explicit ops)"],
)
CLAIMED = True
MANIFEST = dict(
    level="exploration", engine="seqx",
    technique="bounded exhaustive exploration of operation histories on the real shard with a last-write-wins reference model compared after every step",
    text="All histories up to the depth bound over writes (fresh, partial-field, overwrite, late, duplicate-in-batch, two measurements) "
         "and reorganisations are run on a real shard; every read shape is compared with the reference after each step.",
    note="Trusts the harness' reference map and dump routine; bounded universe; single shard; no concurrency (see C04).",
)
