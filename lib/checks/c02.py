import os


def _overlay_extra(cid, tier):
    """engine/immutable/task.go and merge_out_of_order.go of the tree under test with the two calls that are meant to
    recover a panic of a compaction / out-of-order merge made effective (in the tree as it is `recover()` sits one call too
    deep, inside CompactRecovery / MergeRecovery, and recovers nothing: the panic ends the process). One line each is
    rewritten; nothing else changes. Without the rewrite a panicking reorganisation kills the worker (tool error) instead
    of being reported as a violation of the history that caused it. If a line is not found (e.g. the recovery was
    repaired in the tree) the file is left alone."""
    import checklib
    out = {}
    for rel, old, new in (
        ("engine/immutable/task.go", "\t\t\tCompactRecovery(m.path, group)\n",
         "\t\t\tif verifErr := recover(); verifErr != nil {\n\t\t\t\tVerifC02Recovered(\"Compact\", verifErr, m.path)\n\t\t\t}\n"),
        ("engine/immutable/merge_out_of_order.go", "\t\t\tMergeRecovery(m.path, ctx.mst, ctx)\n",
         "\t\t\tif verifErr := recover(); verifErr != nil {\n\t\t\t\tVerifC02Recovered(\"Merge\", verifErr, m.path)\n\t\t\t}\n"),
    ):
        src = os.path.join(checklib.REPO, rel)
        text = open(src).read()
        if text.count(old) != 1:
            checklib.log("C02: recovery call line not found in %s; file not rewritten" % rel)
            continue
        dst = os.path.join(checklib.build_dir(cid), "ov_" + os.path.basename(rel))
        with open(dst, "w") as fh:
            fh.write(text.replace(old, new))
        out[src] = dst
    return out


SPEC = dict(
    pkg="engine",
    hooks=["engine", "engine/immutable", "lib/fileops"],
    overlay_extra=_overlay_extra,
    test="TestVerifC02",
    level="exploration",
    workers=16,
    deadline={"quick": 240, "thorough": 2400},
    rule="every sequence over the alphabet {8 write batches, flush, level compaction, full compaction, out-of-order merge "
         "(normal/full), close+reopen} up to the depth bound is executed on a fresh real shard; after every step every read "
         "shape (2 measurements x asc/desc x 4 time ranges x 7 field subsets) is compared with the last-write-wins reference; "
         "evaluations = executed steps, distinct_nontrivial = distinct (logical content, physical layout shape) states reached",
    assumptions=["one shard, TSSTORE engine, 2 series, 4 timestamps, 3 typed fields",
                 "level compaction group size set to 2 and 2-row segments so that short histories reach every layout",
                 "background compaction worker and time-based flush disabled for determinism (their effects are explicit ops)"],
)
CLAIMED = True
MANIFEST = dict(
    level="exploration", engine="seqx",
    technique="bounded exhaustive exploration of operation histories on the real shard with a last-write-wins reference model compared after every step",
    text="All histories up to the depth bound over writes (fresh, partial-field, overwrite, late, duplicate-in-batch, two measurements) "
         "and reorganisations are run on a real shard; every read shape is compared with the reference after each step.",
    note="Trusts the harness' reference map and dump routine; bounded universe; single shard; no concurrency (see C04).",
)
