"""C09 - aggregates served from stored statistics equal aggregates over the rows.

In-package overlay harness hooks/engine/c09_test.go (TestVerifC09) on top of the shared engine base (vbase_test.go).
Every history over the C09 alphabet up to the depth bound is executed on a fresh real shard; in every state reached,
every aggregate statement of the query grammar is run through the real statement path of a single-process server
(yacc parser -> query.Prepare -> executor.Select -> planner / push-down rules -> pipeline executor -> IndexScanTransform ->
shard.CreateLogicalPlan -> cursors incl. the pre-aggregation shortcut -> aggregate transforms -> row sender) and compared
with the same function applied by the harness to the rows of the plain read (cursor-level dump; the engine's own plain
statement with the same filter for the field-filter variants).
"""

SPEC = dict(
    pkg="engine",
    hooks=["engine", "engine/immutable", "lib/fileops"],
    test="TestVerifC09",
    level="exploration",
    workers=16,
    deadline={"quick": 420, "thorough": 2700},
    rule="a case = (history, statement, call): every op sequence over the alphabet {write batches into the memtable, "
         "'write + flush' macro ops, level compaction (record-based and forced streaming), full compaction, out-of-order merge, "
         "flush + clean reopen} up to the depth bound (quick: 12 ops, length <= 3; thorough: 25 ops, length <= 3, plus the quick "
         "alphabet to length 4; no-op steps pruned) is run on a fresh shard; in every state every statement "
         "{count,sum,mean,min,max,first,last} x "
         "{f float, i int, s string (count/first/last)} x time range {unbounded, every [t_a,t_b] over the 4 stored timestamps "
         "(+ before/after in the full set)} x variant {plain, exact_statistic_query hint, field filter f>0, GROUP BY host, "
         "GROUP BY time(2s), ORDER BY time DESC, all calls of a field in one statement, GROUP BY host DESC, filter + GROUP BY host, "
         "GROUP BY time DESC, filter + GROUP BY time (reduced set, 11 variants); + hint/filter DESC, GROUP BY time(1s|3s), hint + host "
         "(+ DESC), time + host, hint + filter + time, multi + hint, multi DESC (full set, 21 variants)} "
         "is executed through executor.Select and compared, group by group, with the function applied to the rows of the plain "
         "read for the same range and filter; without hint / filter / bucket the comparison is made only for histories in which "
         "no (series,timestamp) was written in two flush generations (counter excluded_cross_generation otherwise); "
         "evaluations = compared (statement, call) pairs; distinct_nontrivial = distinct (physical layout shape incl. per-chunk "
         "segment spans, chunk coverage pattern of the time range, call, field, variant, memtable present) among cases where at "
         "least one stored chunk (series x file: the unit whose statistics the shortcut uses) is fully inside the range AND at "
         "least one chunk is only partially covered or memtable rows are present",
    assumptions=[
        "one shard, TSSTORE engine, measurement m, series host=a|b, timestamps t1..t4 (1 s apart), fields f float, i int, s string; "
        "values distinct per row, mixed signs, not monotone in time, exactly representable (sums order-free)",
        "the statement path is executor.Select in single-process (local storage) mode as in app/ts-server; the cluster catalogue is "
        "replaced by a one-node/one-partition/one-shard shard mapper (copy of the ts-store branch of "
        "coordinator.ClusterShardMapping.CreateLogicalPlan) and a storage facade delegating to shard.CreateLogicalPlan",
        "level-compaction group size 2 (vSetupEngineKnobs) and 2-row segments (set by the harness itself: max-rows-per-segment is an "
        "unvalidated ts-store option) so that short histories reach multi-segment chunks, compacted and merged files; the "
        "out-of-order merge itself runs with 8-row segments (its column writer panics on limits that are not multiples of 8 - "
        "reported, not this property)",
        "reference rows: cursor-level plain dump (cross-checked against the plain statement in every state and range); for the "
        "field-filter variants the engine's own plain statement with the same filter, as the statement of the property says",
        "first/last: values only; several series tying on the extreme timestamp make every tied value admissible; min/max: values only; "
        "empty buckets / groups: null and count 0 mean 'no rows'; mean compared with relative tolerance 1e-12",
        "flush generation of a key = the memtable it was written into; a generation ends when that memtable is observed on disk "
        "(flush macro op or clean reopen)",
    ],
)

CLAIMED = True
MANIFEST = dict(
    level="exploration",
    engine="seqx",
    technique="bounded exhaustive exploration of write/flush/compaction/merge/reopen histories on the real shard; in every reached layout "
              "every statement of a finite aggregate-query grammar (7 calls x 3 field types x all time ranges over the stored timestamps "
              "x hint / field filter / group by tag / group by time / descending / multi-call variants) is run through the real statement "
              "path (parser, planner, push-down rules, pipeline executor, cursors with the statistics shortcut) and compared with the "
              "function applied to the rows of the plain read (differential oracle)",
    text="All histories up to the depth bound over write batches (dense, null-heavy, disjoint halves, interleaved odd/even, single series), "
         "write+flush, level/full compaction, out-of-order merge and reopen are executed; in each state the aggregate statements are "
         "compared with the aggregates recomputed from the plain read for every time range whose ends fall before, on, inside and after "
         "the stored chunks and segments. Exhaustive within the stated bounds.",
    note="Trusts: the harness' reference aggregation and its reading of result rows; the plain read (C02) as the definition of 'the rows'; "
         "the shard-mapper stand-in. Not covered: more than one shard / node (final cross-node merge), more than 4 timestamps and 2 series, "
         "boolean fields, sub-queries, fill() other than the default, limit/offset, downsampled shards, column store.",
)
