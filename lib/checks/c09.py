SPEC = dict(
    pkg="engine",
    hooks=["engine", "engine/immutable", "lib/fileops"],
    test="TestVerifC09",
    level="exploration",
    workers=16,
    deadline={"quick": 420, "thorough": 2400},
    rule="wip",
    assumptions=[],
)
CLAIMED = False
