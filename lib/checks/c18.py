"""C18 - PromQL queries return what Prometheus itself returns on the same samples, wherever the store keeps them.

Black-box differential check: two ts-servers (built from the current tree) serve N worker processes: one with the
default configuration, one ("layout server") with 8-row segments whose memtable is only flushed when the loader says so.
A loader process (hooks/lib/util/lifted/promql2influxql/c18_test.go + c18_layout_test.go, compiled inside the repo
package so that it can import both the repo's modules and the pinned upstream github.com/prometheus/prometheus/promql)
writes every generated sample set through the remote-write endpoint once into the default server and once per storage
layout (flushed, split, two_files, late, ...) into its own database of the layout server, and waits at a visibility
barrier. The workers then evaluate every expression of a finite grammar with the upstream engine over the same samples,
ask the servers the same instant and range queries and compare the answers.
"""
import json, os, shutil, sys, time

sys.path.insert(0, os.path.dirname(os.path.dirname(os.path.abspath(__file__))))
import checklib
import blackbox

CID = "C18"
PKG = "lib/util/lifted/promql2influxql"
TEST = "TestVerifC18"
LEVEL = "exploration"
WORKERS = {"quick": 12, "thorough": 12}
DEADLINE = {"quick": 190, "thorough": 2100}
RULE = ("every expression text of the grammar (selectors with =, !=, =~, !~ x offset; 19 (quick) / 23 (thorough) range "
        "functions incl. quantile_over_time, changes, resets, deriv, predict_linear x ranges {1m,5m}; 5 aggregations x {none, by, "
        "without}; binary operators {+,-,*,/,>,==,> bool,== bool} (thorough + %,^,<,>=,<=,!=,< bool,!= bool) vector/scalar and "
        "vector/vector with default/on/ignoring matching; depth <= 2) is evaluated on every sample set (quick: counter_reset, gap, "
        "irregular; thorough: + gauge, stale) of the default server as an instant query at every step of two ranges (28 times, on "
        "and off sample timestamps) and as five range queries (steps 2m, 47s, 5s, 15s; one with an end off the step grid); the "
        "part of the grammar that reads raw samples (selectors, every range function x {1m, 5m, 5m offset 1m}, aggregations "
        "with and without grouping and binary operators over them) is evaluated again on every storage layout of every sample "
        "set (quick: flushed, split, two_files, late; thorough: + late_mem, memory; 8-row segments, one cursor for all series) as "
        "the same five range queries and as instant queries at the 16 steps of the 47 s range; distinct_nontrivial = distinct "
        "(sample set, layout, expression, evaluation time or range) for which the upstream engine returns a non-empty answer")
ASSUMPTIONS = [
    "the oracle is the upstream engine github.com/prometheus/prometheus/promql at the version pinned in go.mod (v0.50.1: "
    "closed windows [t-range, t] and [t-lookback, t]), LookbackDelta 5m = promql2influxql.DefaultLookBackDelta, over an in-memory "
    "Queryable that trims to the select hints like the TSDB querier; the expected answer does not depend on the storage layout",
    "values are compared with relative tolerance 1e-9 (absolute 1e-12), NaN == NaN, +Inf/-Inf exact; timestamps in ms",
    "an explicit refusal (error text says unsupported / not support) is counted as `unsupported`, not as a violation; any "
    "other error answer or a different answer is a violation; a query that kills the server (address space capped at 16 GB) is a "
    "violation once the query, replayed alone against a fresh server, kills that one too",
    "reads follow a visibility barrier (raw selector returns every written series with its first and last value)",
    "layout server settings that must not influence answers: max-rows-per-segment = 8 (smallest legal value), memtable cold "
    "flush 2h, background out-of-order merge and compaction off (layouts stay as written), chunk_reader_parallel = 1 (all series "
    "of a query pass through one cursor, independent of load)",
]

CLAIMED = True
MANIFEST = dict(
    level=LEVEL,
    engine="enumx+blackbox",
    technique="bounded exhaustive enumeration of PromQL expressions (finite grammar, depth <= 2) x sample sets x storage layouts "
              "x evaluation times and steps against running ts-servers, differential oracle = upstream Prometheus engine on the "
              "same samples",
    text="Every expression of a finite PromQL grammar is evaluated on generated sample sets (counter with resets, gaps longer "
         "than the look-back window, irregular scrape times, gauge, stale markers) by the running server (remote write, "
         "/api/v1/query, /api/v1/query_range) and by the upstream Prometheus engine; series, labels, timestamps and values "
         "must agree (1e-9 relative), and a range query must equal the sequence of instant queries at its steps. Every sample "
         "set is also ingested under each storage layout of a menu (one file, file + memtable, two files, out-of-order file, "
         "out-of-order rows in the memtable; 8-row segments so that a series is 7-11 storage records per file) and the part of "
         "the grammar that reads raw samples is evaluated on each with steps smaller than, equal to and larger than the scrape "
         "interval: the answer must not depend on where the samples are stored.",
    note="Trusts: the upstream engine as the meaning of PromQL; the in-memory Queryable; the barrier. Exhaustive only within "
         "the grammar, the five sample sets, the six layouts, the 28 evaluation times and five ranges per set.",
)


def _build():
    ov = checklib.gen_overlay(CID, [PKG])
    return checklib.go_test_build(CID, PKG, ov)


# second server: storage layouts. Segments of 8 rows (smallest legal value: multiples of 8) so that a series of 50-81 samples
# is 7-11 storage records per file; the memtable is never flushed behind the loader's back (the default flushes a shard 5 s
# after its last write); background out-of-order merge and compaction are switched off so that the layouts stay as written.
SEG_EXTRA = {"data.memtable": {"write-cold-duration": "2h", "force-snapShot-duration": "2h"},
             "data": {"max-rows-per-segment": 8}}


# address-space cap of every server process: a query that makes the store allocate without bound (seen: an output record
# with one point per step since the Unix epoch, 60 GB) must kill that server, not the shared machine
SERVER_MEM_KB = 16 * 1024 * 1024


def _limited(scratch, real):
    p = os.path.join(scratch, "ts-server-limited.sh")
    if not os.path.exists(p):
        with open(p, "w") as fh:
            fh.write("#!/bin/bash\nulimit -v %d\nexec %s \"$@\"\n" % (SERVER_MEM_KB, real))
        os.chmod(p, 0o755)
    return p


def _servers(scratch, tag=""):
    import threading
    a = blackbox.Server(CID, scratch, name="c18" + tag)
    b = blackbox.Server(CID, scratch, name="c18seg" + tag, extra=SEG_EXTRA)
    a.build()
    a.bin = b.bin = _limited(scratch, a.bin)
    errs = []

    def go(s):
        try:
            s.start(wait_s=120)
        except Exception as e:  # noqa
            errs.append(e)
    th = [threading.Thread(target=go, args=(x,)) for x in (a, b)]
    [x.start() for x in th]
    [x.join() for x in th]
    if errs:
        a.stop()
        b.stop()
        raise blackbox.ToolError(str(errs[0]))
    # `allshards=false` IS the switch value (engine/sysctrl.go: the value of `allshards` is what is set for all shards).
    # chunk_reader_parallel=1: every query of the layout server gets ONE group cursor, so all series of a query pass through
    # the same cursor one after the other (reducer / file-cursor state must be reset between series); with the default the
    # number of series per cursor depends on the resources other queries hold at that moment, i.e. on timing.
    for mod, kw in (("merge", {"allshards": "false"}), ("compen", {"allshards": "false"}), ("chunk_reader_parallel", {"limit": "1"})):
        st, body = b.ctrl(mod, **kw)
        if st != 200 or b"success" not in body:
            b.stop()
            a.stop()
            raise blackbox.ToolError("ctrl %s on the layout server: %s %r" % (mod, st, body[:200]))
    return a, b


CAND = "server_unreachable_candidate"


def _fatal_lines(scratch):
    """Why did a server die: the Go runtime's last words in the servers' stdout logs, if any."""
    import glob, re
    out = []
    for f in sorted(glob.glob(os.path.join(scratch, "srv-*", "stdout-*.log"))):
        try:
            with open(f, "rb") as fh:
                fh.seek(0, 2)
                fh.seek(max(0, fh.tell() - 400000))
                txt = fh.read().decode("utf-8", "replace")
        except OSError:
            continue
        m = re.search(r"^(fatal error: .*|panic: .*|runtime: out of memory.*|.*cannot allocate memory.*)$", txt, re.M)
        if m:
            out.append("%s: %s" % (os.path.basename(os.path.dirname(f)), m.group(1)[:200]))
    return "; ".join(out) or "no fatal message in the server logs"


def _culprits(binp, cands, scratch):
    """Replays every candidate alone (fresh databases; a fresh server pair after every death); returns the violations of kind
    server_died_during_query and the server pair that is still running (or (None, None))."""
    out, seen = [], set()
    pair = (None, None)
    n = 0
    for c in cands:
        if c.get("key") in seen:
            continue
        seen.add(c.get("key"))
        n += 1
        if pair[0] is None:
            try:
                pair = _servers(scratch, tag="-r%d" % n)
            except blackbox.ToolError as e:
                checklib.tool_error(str(e))
        cdir = os.path.join(scratch, "cand%d" % n)
        os.makedirs(cdir, exist_ok=True)
        cf = os.path.join(cdir, "case.json")
        with open(cf, "w") as fh:
            json.dump({"replay": c.get("replay")}, fh)
        env = {"VERIF_SERVER_URL": pair[0].url, "VERIF_SERVER_URL_SEG": pair[1].url, "VERIF_REPLAY": cf}
        reps = checklib.run_workers(CID, binp, TEST, "quick", 1, 600, cdir, extra_env=env)
        died = [v for r in reps for v in (r.get("violations") or []) if v.get("kind") == "server_died_during_query"]
        if died:
            out += died[:1]
        if died or not all(s.alive() for s in pair):
            for s in pair:
                s.stop()
            pair = (None, None)
    return out, pair


def run(tier, replay):
    t0 = time.time()
    scratch = checklib.scratch_root(CID)
    srv = seg = None
    try:
        try:
            binp = _build()
            srv, seg = _servers(scratch)
        except blackbox.ToolError as e:
            checklib.tool_error(str(e))
        env = {"VERIF_SERVER_URL": srv.url, "VERIF_SERVER_URL_SEG": seg.url}
        for k in ("VERIF_C18_SETS", "VERIF_C18_EXPR", "VERIF_C18_LAYOUTS"):
            if os.environ.get(k):
                env[k] = os.environ[k]
        if replay:
            env["VERIF_REPLAY"] = os.path.abspath(replay)
            reps = checklib.run_workers(CID, binp, TEST, "quick", 1, 600, scratch, extra_env=env)
            try:
                print(open(os.path.join(scratch, "w0", "log.txt"), errors="replace").read()[-4000:])
            except OSError:
                pass
            nv = sum(r.get("n_violations", 0) for r in reps)
            for r in reps:
                for v in r.get("violations") or []:
                    print("REPLAY-VIOLATION kind=%s key=%s\n  %s" % (v["kind"], v["key"], v["detail"][:3000]))
            print("replay: %s" % ("still fails" if nv else "passes"))
            return 1 if nv else 0
        dl = int(os.environ.get("VERIF_DEADLINE_S", DEADLINE[tier]))
        nw = int(os.environ.get("VERIF_C18_WORKERS", WORKERS[tier]))
        # phase 1: one process ingests every (sample set, layout) into its own database (the flush is server-wide, so the
        # layouts cannot be built by concurrent workers); phase 2: the workers share the databases read-only
        env["VERIF_C18_RUN"] = "c18_%d" % (time.time_ns() % 1_000_000_000)
        lscratch = os.path.join(scratch, "load")
        os.makedirs(lscratch, exist_ok=True)
        checklib.run_workers(CID, binp, TEST, tier, 1, 300, lscratch, extra_env=dict(env, VERIF_C18_PHASE="load"))
        checklib.log("databases loaded after %.1fs" % (time.time() - t0))
        reps = checklib.run_workers(CID, binp, TEST, tier, nw, dl, scratch, extra_env=dict(env, VERIF_C18_PHASE="query"))
        # a worker that loses a server reports the query it had in flight as a candidate and stops
        cands = []
        for r in reps:
            keep = [v for v in r.get("violations") or [] if v.get("kind") != CAND]
            for v in r.get("violations") or []:
                if v.get("kind") == CAND:
                    cands.append(v)
            r["n_violations"] = r.get("n_violations", 0) - (len(r.get("violations") or []) - len(keep))
            r["violations"] = keep
        dead = [s.name for s in (srv, seg) if not s.alive()]
        if dead and not cands:
            checklib.tool_error("ts-server %s died during the run and no worker had a query in flight (log under %s is "
                                "removed; rerun with VERIF_TMP)" % (dead, scratch))
        if cands:
            checklib.log("ts-server %s died; %d queries were in flight, replaying each alone" % (dead, len(cands)))
            for s in (srv, seg):
                s.stop()
            srv = seg = None
            why = _fatal_lines(scratch)
            culprits, (srv, seg) = _culprits(binp, cands, scratch)
            reps[0]["violations"] = (reps[0].get("violations") or []) + culprits
            reps[0]["n_violations"] = reps[0].get("n_violations", 0) + len(culprits)
            if not culprits:
                # cumulative (e.g. state that leaks from query to query): no single case to blame. The wrong answers seen
                # before the death are verdicts on their own; a death without any of them is a tool error.
                msg = ("a ts-server died during the run (%s) but none of the %d queries in flight kills a fresh server when "
                       "replayed alone: %s" % (why, len(cands), [c.get("key") for c in cands]))
                reps[0]["notes"] = (reps[0].get("notes") or []) + [msg[:1500]]
                rc = checklib.finish(CID, tier, LEVEL, RULE, reps, t0, ASSUMPTIONS)
                if rc == 0:
                    checklib.tool_error(msg)
                print("NOTE: " + msg[:600], flush=True)
                return rc
        return checklib.finish(CID, tier, LEVEL, RULE, reps, t0, ASSUMPTIONS)
    finally:
        for s in (srv, seg):
            if s is not None:
                s.stop()
        if os.environ.get("VERIF_C18_KEEP"):
            print("scratch kept:", scratch, file=sys.stderr)
        else:
            shutil.rmtree(scratch, ignore_errors=True)
