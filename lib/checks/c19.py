"""C19 — with authentication on, no endpoint acts without sufficient credentials.

Stage 1 (in-package Go harness, hooks/lib/util/lifted/influx/httpd/c19_test.go): the route table of the running
code (gorilla mux of NewHandler with AuthEnabled=true, per product type; /debug/* prefixes read from ServeHTTP),
an in-process probe per route telling whether it is wrapped by authenticate(), the statement types that declare
RequiredPrivileges (go/ast) and, for every example statement of the table below, the type the real parser
produces and the privileges the real code demands.

Stage 2 (black box, lib/blackbox.py): one ts-server per product type with auth-enabled = true and a shared secret,
an administrator, databases/users with a fixed privilege matrix, then
    every (route, method, variant) x credential class x transport      (route sweep)
    every statement example x credential class x transport            (statement sweep on /query)
    GRANT/REVOKE x privilege x database                                (flip test)
Oracle per insufficient case: HTTP 401/403 (or only error results) AND the catalogue+data digest taken with
administrator credentials is unchanged AND the answer carries none of the stored values.

Stage 3 (lib/c19_privsm.py, a ts-server of its own): explicit-state breadth-first exploration of the privilege state machine
of one non-admin user: state = what SHOW GRANTS lists per database (absent | NO PRIVILEGES | READ | WRITE | ALL PRIVILEGES),
transitions = every GRANT / REVOKE x READ / WRITE / ALL x database sent by the administrator, every (state, transition) on a
fresh user reached by the shortest statement path.  Reference model = bit algebra (GRANT ors the named bits in, REVOKE clears
exactly the named bits, other databases untouched); after every transition SHOW GRANTS, a SELECT and a /write per database
with the user's credentials (and, at the end, the stored probe points) must equal the model.  Plus the administrator flag
(GRANT/REVOKE ALL PRIVILEGES TO/FROM u) in several database states.
"""
import base64, hashlib, hmac, http.client, json, os, re, shutil, socket, struct, sys, time, urllib.parse

import checklib
import blackbox
import c19_privsm
from blackbox import ToolError

CID = "C19"
PKG = "lib/util/lifted/influx/httpd"
LEVEL = "exploration"
RULE = ("distinct (route pattern, method, request variant | statement example, credential class, transport) cases in "
        "which the credentials are insufficient for the request and the same request sent by the administrator "
        "(against the scratch twin of the target) reaches the handler (status other than 404/405); plus, for the privilege state "
        "machine, distinct (number of databases, concrete privilege state as listed by SHOW GRANTS, GRANT/REVOKE statement [, second "
        "statement]) pairs executed on the real server on a fresh user and observed through SHOW GRANTS and the user's own reads and writes")
ASSUMPTIONS = [
    "route table = gorilla mux of httpd.NewHandler(config{AuthEnabled:true}) per product type (basic, logkeeper) plus the "
    "prefixes ServeHTTP dispatches before the mux; flight/arrow and ts-meta/ts-store ports are not HTTP API endpoints of this property",
    "needed privilege of a statement = the stricter of RequiredPrivileges() of the running code and the floor table in c19.py "
    "(user/privilege/database administration: admin; reading points: READ; deleting points: WRITE)",
    "needed privilege of a route = rule table in c19.py (write routes: WRITE on db, read routes: READ on db, server control, "
    "backup, database creation: admin); liveness/status = /ping, /status, /health*, OPTIONS pre-flight, /debug/vars, /debug/query (shard status)",
    "the digest (SHOW DATABASES/USERS/GRANTS/MEASUREMENTS/RETENTION POLICIES/SUBSCRIPTIONS/CONTINUOUS QUERIES/STREAMS, count(*) of the "
    "fixture databases, login probe of the victim user, write probe) observes every effect a request of the sweep can have",
    "privilege state machine: the reference model is bit algebra over READ=1, WRITE=2, ALL=3 (GRANT ors, REVOKE clears, other databases "
    "untouched); 'absent' and 'NO PRIVILEGES' in SHOW GRANTS both mean none; a privilege state is fully described by what SHOW GRANTS lists "
    "(thorough checks this with all two-statement sequences); users are independent of each other, so the jobs run 16 at a time",
]

SECRET = "c19-Shared-Secret_For.Bearer"
ADMIN = ("admin", "Adm1n-Pass#19")
D1, D2, S1, S2 = "c19d1", "c19d2", "c19s1", "c19s2"
RPX = "c19rpx"
MST = "c19m"
USERS = {  # name -> (password, {db: privilege})
    "c19ro": ("R3ad-only#pw1", {D1: "READ", S1: "READ"}),
    "c19wo": ("Wr1te-only#pw2", {D1: "WRITE", S1: "WRITE"}),
    "c19other": ("0ther-Db#pw33", {D2: "ALL", S2: "ALL"}),
    "c19victim": ("V1ctim-user#pw4", {}),
    "c19sv": ("Scr4tch-victim#5", {}),
}
CLASS_USER = {"ro": "c19ro", "wo": "c19wo", "other": "c19other", "admin": "admin"}
SENTINELS = ["c19tagA", "c19tagB", "c19tagC", "c19strval", "17171.5", "27272.5", "31337.25"]  # stored values that only a reader of the data can know
T0 = 1700000000  # fixed timestamps, no wall clock in requests
FAR = 4102444800  # 2100-01-01, exp of bearer tokens

# ----------------------------------------------------------------------------------------------- encoders


def _varint(n):
    out = bytearray()
    n &= 0xFFFFFFFFFFFFFFFF
    while True:
        b = n & 0x7F
        n >>= 7
        if n:
            out.append(b | 0x80)
        else:
            out.append(b)
            return bytes(out)


def _pb_bytes(num, b):
    if isinstance(b, str):
        b = b.encode()
    return _varint((num << 3) | 2) + _varint(len(b)) + b


def _pb_varint(num, v):
    return _varint((num << 3) | 0) + _varint(v)


def _pb_double(num, v):
    return _varint((num << 3) | 1) + struct.pack("<d", v)


def _pb_fixed64(num, v):
    return _varint((num << 3) | 1) + struct.pack("<Q", v)


def snappy_block(data):
    """snappy block format with literal elements only (valid input for any snappy decoder)."""
    out = bytearray(_varint(len(data)))
    for i in range(0, len(data), 60):
        chunk = data[i:i + 60]
        out.append((len(chunk) - 1) << 2)
        out += chunk
    return bytes(out)


def prom_write_body(metric, labels, ts_ms, value):
    labs = sorted([("__name__", metric)] + list(labels.items()))
    ts = b"".join(_pb_bytes(1, _pb_bytes(1, k) + _pb_bytes(2, v)) for k, v in labs)
    ts += _pb_bytes(2, _pb_double(1, value) + _pb_varint(2, ts_ms))
    return snappy_block(_pb_bytes(1, ts))


def prom_read_body(metric, start_ms, end_ms):
    m = _pb_bytes(3, _pb_varint(1, 0) + _pb_bytes(2, "__name__") + _pb_bytes(3, metric))
    return snappy_block(_pb_bytes(1, _pb_varint(1, start_ms) + _pb_varint(2, end_ms) + m))


def otlp_metrics_body(name, ts_ns, value):
    # ExportMetricsServiceRequest{resource_metrics=1{scope_metrics=2{metrics=2{name=1, gauge=5{data_points=1{time_unix_nano=3,as_double=4}}}}}}
    dp = _pb_fixed64(3, ts_ns) + _pb_double(4, value)
    metric = _pb_bytes(1, "v") + _pb_bytes(5, _pb_bytes(1, dp))
    # the measurement of a gauge is the name of the instrumentation scope
    return _pb_bytes(1, _pb_bytes(2, _pb_bytes(1, _pb_bytes(1, name)) + _pb_bytes(2, metric)))


def otlp_logs_body(text, ts_ns):
    # ExportLogsServiceRequest{resource_logs=1{scope_logs=2{log_records=2{time_unix_nano=1, body=5{string_value=1}}}}}
    rec = _pb_fixed64(1, ts_ns) + _pb_bytes(5, _pb_bytes(1, text))
    return _pb_bytes(1, _pb_bytes(2, _pb_bytes(2, rec)))


def otlp_traces_body(name, ts_ns):
    # ExportTraceServiceRequest{resource_spans=1{scope_spans=2{spans=2{trace_id=1,span_id=2,name=5,start=7,end=8}}}}
    span = _pb_bytes(1, b"\x01" * 16) + _pb_bytes(2, b"\x02" * 8) + _pb_bytes(5, name) + _pb_fixed64(7, ts_ns) + _pb_fixed64(8, ts_ns + 1000)
    return _pb_bytes(1, _pb_bytes(2, _pb_bytes(2, span)))


def _b64u(b):
    return base64.urlsafe_b64encode(b).rstrip(b"=").decode()


def jwt(username, secret, exp=FAR, alg="HS256"):
    head = _b64u(json.dumps({"alg": alg, "typ": "JWT"}, separators=(",", ":")).encode())
    claims = {"username": username}
    if exp is not None:
        claims["exp"] = exp
    body = _b64u(json.dumps(claims, separators=(",", ":")).encode())
    msg = head + "." + body
    if alg == "none":
        return msg + "."
    return msg + "." + _b64u(hmac.new(secret.encode(), msg.encode(), hashlib.sha256).digest())


def h64(*parts):
    return int(hashlib.sha1("\x1f".join(parts).encode()).hexdigest()[:16], 16)


def tag_of(*parts):
    return hashlib.sha1("\x1f".join(parts).encode()).hexdigest()[:10]


# ----------------------------------------------------------------------------------------------- credentials

# (class, transport, variant) -> builder(users) -> (params, headers)
def _basic(u, p):
    return {}, {"Authorization": "Basic " + base64.b64encode(("%s:%s" % (u, p)).encode()).decode()}


def _url(u, p):
    return {"u": u, "p": p}, {}


def _token(u, p):
    return {}, {"Authorization": "Token %s:%s" % (u, p)}


def _bearer(tok):
    return {}, {"Authorization": "Bearer " + tok}


def pw_of(user):
    return ADMIN[1] if user == "admin" else USERS[user][0]


def credential_cases(tier):
    """list of (class, transport, variant, builder).  Every class over every transport."""
    out = [("none", "-", "", lambda: ({}, {}))]
    for tr, mk in (("basic", _basic), ("url", _url), ("token", _token)):
        if tr == "basic":
            out.append(("malformed", tr, "", lambda: ({}, {"Authorization": "Basic %%%not-base64%%%"})))
            out.append(("malformed", tr, "nocolon", lambda: ({}, {"Authorization": "Basic " + base64.b64encode(b"adminAdm1n-Pass#19").decode()})))
            out.append(("wrongpw", tr, "empty", lambda: _basic("admin", "")))
        elif tr == "url":
            out.append(("malformed", tr, "", lambda: ({"u": "admin"}, {})))
            out.append(("malformed", tr, "ponly", lambda: ({"p": ADMIN[1]}, {})))
        else:
            out.append(("malformed", tr, "", lambda: ({}, {"Authorization": "Token admin"})))
        out.append(("unknown", tr, "", (lambda mk: lambda: mk("c19ghost", "Gh0st-user#pw9"))(mk)))
        out.append(("wrongpw", tr, "", (lambda mk: lambda: mk("admin", "Wr0ng-Pass#19"))(mk)))
        for cls in ("ro", "wo", "other", "admin"):
            out.append((cls, tr, "", (lambda mk, u: lambda: mk(u, pw_of(u)))(mk, CLASS_USER[cls])))
    # bearer: the server is started with a shared secret, so the JWT path of authenticate() is live
    out.append(("malformed", "bearer", "", lambda: _bearer("abc.def")))
    out.append(("malformed", "bearer", "algnone", lambda: _bearer(jwt("admin", SECRET, alg="none"))))
    out.append(("malformed", "bearer", "noexp", lambda: _bearer(jwt("admin", SECRET, exp=None))))
    out.append(("unknown", "bearer", "", lambda: _bearer(jwt("c19ghost", SECRET))))
    out.append(("wrongpw", "bearer", "", lambda: _bearer(jwt("admin", "c19-not-the-secret"))))
    out.append(("wrongpw", "bearer", "expired", lambda: _bearer(jwt("admin", SECRET, exp=1))))
    for cls in ("ro", "wo", "other", "admin"):
        out.append((cls, "bearer", "", (lambda u: lambda: _bearer(jwt(u, SECRET)))(CLASS_USER[cls])))
    if tier == "quick":
        # quick: every class over basic, URL and bearer; the Token scheme and the extra variants of url are left to thorough
        out = [c for c in out if c[1] in ("-", "basic", "bearer") or (c[1] == "url" and c[2] == "")]
    return out


NOCRED = ("none", "malformed", "unknown", "wrongpw")


class Req:
    """requirement of a request: which of the valid-user classes suffice."""

    def __init__(self, name, sufficient, dontcare=()):
        self.name, self.sufficient, self.dontcare = name, set(sufficient) | {"admin"}, set(dontcare)

    def verdict(self, cls):
        if cls in NOCRED:
            return "insufficient"
        if cls in self.sufficient:
            return "sufficient"
        if cls in self.dontcare:
            return "dontcare"
        return "insufficient"


ANON = Req("anonymous", ("ro", "wo", "other"))
ANON.anonymous = True
AUTHN = Req("authenticated", ("ro", "wo", "other"))
READ1 = Req("READ on target db", ("ro",))
WRITE1 = Req("WRITE on target db", ("wo",))
ANYPRIV1 = Req("a privilege on target db", ("wo",), dontcare=("ro",))
ADMINREQ = Req("admin", ())
RW1 = Req("READ and WRITE on target db", ())
NOANON = Req("credentials (privilege undecided)", (), dontcare=("ro", "wo", "other"))
MUTATE1 = Req("more than READ on target db", (), dontcare=("wo",))  # log-store catalogue changes: code declares nothing
# log-store read routes: no log record can be stored in this environment (the records route answers 500 for the administrator),
# so a valid user without READ gets an empty answer at worst; only the credential-less classes are decided
LOGREAD = Req("READ on the repository (undecided here: no stored log records to disclose)", (), dontcare=("ro", "wo", "other"))
for _r in (AUTHN, READ1, WRITE1, ANYPRIV1, ADMINREQ, RW1, NOANON, MUTATE1, LOGREAD):
    _r.anonymous = False

# ----------------------------------------------------------------------------------------------- route rules


class Ctx:
    """substitution context of one request: fixture target (insufficient classes) or scratch twin (sufficient ones)."""

    def __init__(self, scratch, tag, srvdir):
        self.db = S1 if scratch else D1
        self.odb = S2 if scratch else D2
        self.victim = "c19sv" if scratch else "c19victim"
        self.tag = tag
        self.scratch = scratch
        self.srvdir = srvdir


PROTO = {"Content-Type": "application/x-protobuf", "Content-Encoding": "snappy"}
TEXT = {"Content-Type": "text/plain; charset=utf-8"}
FORM = {"Content-Type": "application/x-www-form-urlencoded"}
JSONH = {"Content-Type": "application/json"}


def _lp(c, prefix="c19w"):
    return ("%s_%s,host=c19new v=1 %d000000000" % (prefix, c.tag, T0)).encode()


def _q(text, method_params=None):
    def b(c):
        return dict(params={"db": c.db, "q": text.format(db=c.db, odb=c.odb, victim=c.victim, tag=c.tag, rpx=RPX, mst=MST)})
    return b


def _promq(extra):
    def b(c):
        p = {"db": c.db}
        p.update(extra)
        return dict(params=p)
    return b


PROMQ = {"query": MST, "time": str(T0 + 1)}
PROMR = {"query": MST, "start": str(T0 - 60), "end": str(T0 + 60), "step": "15"}


def route_rules(tier="quick"):
    """ordered list of (regex on 'METHOD pattern', requirement, {variant: builder(ctx) -> dict(path?, params, body, headers, vars, fs_absent)})."""
    R = []

    def add(rx, req, variants):
        R.append((re.compile(rx), req, variants))

    plain = {"": lambda c: dict(params={})}
    add(r"^OPTIONS ", ANON, {"": lambda c: dict(params={"db": c.db}, headers={"Origin": "http://c19.example", "Access-Control-Request-Method": "POST"})})
    add(r"^(GET|HEAD) /(ping|status|health[a-z/]*)$", ANON, {"": lambda c: dict(params={}), "verbose": lambda c: dict(params={"verbose": "true"})})
    add(r"^\* /debug/vars$", ANON, plain)
    add(r"^\* /debug/query$", ANON, {"shards": lambda c: dict(params={"mod": "shards", "db": c.db, "rp": "autogen", "pt": "0", "shard": "1"})})
    add(r"^\* /debug/pprof$", NOANON, {
        "index": lambda c: dict(path="/debug/pprof/", params={}),
        "cmdline": lambda c: dict(path="/debug/pprof/cmdline", params={}),
        "goroutine": lambda c: dict(path="/debug/pprof/goroutine", params={"debug": "1"}),
        "all": lambda c: dict(path="/debug/pprof/all", params={}),
    })
    add(r"^GET /query$", READ1, {"select": _q("select * from {mst}"), "show-series": _q("show series")})
    add(r"^POST /query$", READ1, {"select": _q("select * from {mst}"),
                                   "select-form": lambda c: dict(params={"db": c.db}, body=urllib.parse.urlencode({"q": "select * from " + MST}).encode(), headers=FORM)})
    add(r"^POST /query$", ADMINREQ, {"create-db": _q("create database c19q_{tag}"), "drop-mst": _q("drop measurement {mst}")})
    add(r"^POST /query$", RW1, {"select-into": _q("select * into {db}..c19into_{tag} from {db}..{mst}")})
    add(r"^POST /write$", WRITE1, {"": lambda c: dict(params={"db": c.db}, body=_lp(c), headers=TEXT),
                                   "rp": lambda c: dict(params={"db": c.db, "rp": RPX}, body=_lp(c, "c19wrp"), headers=TEXT)})
    add(r"^POST /api/v2/write$", WRITE1, {"": lambda c: dict(params={"bucket": c.db + "/autogen", "org": "c19"}, body=_lp(c, "c19w2"), headers=TEXT)})
    add(r"^GET /fence/match_batch$", ANYPRIV1, {"": lambda c: dict(params={"db": c.db, "points": "[1.0,2.0]"})})
    add(r"^POST /fence/delete_fence$", WRITE1, {"": lambda c: dict(params={"db": c.db, "fenceId": "c19-no-such-fence"})})
    add(r"^POST /failpoint$", ADMINREQ, {
        "enable": lambda c: dict(params={"point": "c19-fp-" + c.tag, "flag": "enable", "term": "return(true)"}),
        "disable": lambda c: dict(params={"point": "c19-fp-" + c.tag, "flag": "disable"})})
    add(r"^POST /api/v1/otlp/metrics$", WRITE1, {"": lambda c: dict(params={"db": c.db}, body=otlp_metrics_body("c19otm_" + c.tag, T0 * 10**9, 1.0), headers={"Content-Type": "application/x-protobuf"})})
    add(r"^POST /api/v1/otlp/logs$", WRITE1, {"": lambda c: dict(params={"db": c.db}, body=otlp_logs_body("c19otl_" + c.tag, T0 * 10**9), headers={"Content-Type": "application/x-protobuf"})})
    add(r"^POST /api/v1/otlp/traces$", WRITE1, {"": lambda c: dict(params={"db": c.db}, body=otlp_traces_body("c19ott_" + c.tag, T0 * 10**9), headers={"Content-Type": "application/x-protobuf"})})
    add(r"^GET /metrics$", AUTHN, plain)
    add(r"^POST (/prometheus/\{metric_store\})?/api/v1/write$", WRITE1, {
        "": lambda c: dict(params={"db": c.db}, vars={"metric_store": "c19ps_" + c.tag}, body=prom_write_body("c19pw_" + c.tag, {"job": "c19"}, T0 * 1000, 1.0), headers=PROTO)})
    add(r"^(GET|POST) (/prometheus/\{metric_store\})?/api/v1/read$", READ1, {
        "": lambda c: dict(params={"db": c.db}, vars={"metric_store": MST}, body=prom_read_body(MST, (T0 - 60) * 1000, (T0 + 60) * 1000), headers=PROTO)})
    add(r"^(GET|POST) (/prometheus/\{metric_store\})?/api/v1/query$", READ1, {"": lambda c: dict(params=dict(PROMQ, db=c.db), vars={"metric_store": MST})})
    add(r"^(GET|POST) (/prometheus/\{metric_store\})?/api/v1/query_range$", READ1, {"": lambda c: dict(params=dict(PROMR, db=c.db), vars={"metric_store": MST})})
    add(r"^(GET|POST) (/prometheus/\{metric_store\})?/api/v1/labels$", READ1, {"": lambda c: dict(params={"db": c.db}, vars={"metric_store": MST})})
    add(r"^(GET|POST) (/prometheus/\{metric_store\})?/api/v1/label/\{name\}/values$", READ1, {"": lambda c: dict(params={"db": c.db}, vars={"metric_store": MST, "name": "host"})})
    add(r"^(GET|POST) (/prometheus/\{metric_store\})?/api/v1/series$", READ1, {"": lambda c: dict(params={"db": c.db, "match[]": MST}, vars={"metric_store": MST})})
    add(r"^(GET|POST) (/prometheus/\{metric_store\})?/api/v1/metadata$", READ1, {"": lambda c: dict(params={"db": c.db}, vars={"metric_store": MST})})
    add(r"^POST /api/v1/tsdb/\{tsdb\}$", ADMINREQ, {"": lambda c: dict(params={}, vars={"tsdb": "c19t_" + c.tag})})
    add(r"^POST /debug/ctrl$", ADMINREQ, {
        "disablewrite": lambda c: dict(params={"mod": "disablewrite", "switchon": "false" if c.scratch else "true"}),
        "readonly": lambda c: dict(params={"mod": "readonly", "switchon": "false" if c.scratch else "true"}),
        "flush": lambda c: dict(params={"mod": "flush"})})
    if tier == "thorough":
        mods = {"disableread": {"switchon": "true"}, "compen": {"switchon": "false", "allshards": "true"}, "merge": {"switchon": "false", "allshards": "true"},
                "snapshot": {"duration": "30m"}, "downsample_in_order": {"order": "true"}, "chunk_reader_parallel": {"limit": "4"},
                "binary_tree_merge": {"enabled": "1"}, "print_logical_plan": {"enabled": "1"}, "sliding_window_push_up": {"enabled": "1"},
                "force_broadcast_query": {"enabled": "1"}, "time_filter_protection": {"enabled": "true"}, "log_rows": {"switchon": "true", "rules": MST + ",host=c19tagA"},
                "verifynode": {"switchon": "false"}, "memusagelimit": {"limit": "90"}, "backgroundReadLimiter": {"limit": "100m"},
                "interruptquery": {"switchon": "true"}, "uppermemusepct": {"limit": "90"}, "parallelbatch": {"enabled": "true"},
                "write_stream_points_enable": {"switchon": "true"}, "failpoint": {"point": "c19-fp", "switchon": "true", "term": "return(true)"},
                "backup_status": {}, "abort_backup": {}}
        # the administrator reference names the mod without its parameters: it passes the admin check and is then refused by the
        # parameter check (400), so the reference cannot switch the server into a mode that disturbs the rest of the sweep
        add(r"^POST /debug/ctrl$", ADMINREQ, {"mod=" + m: (lambda m, p: lambda c: dict(params={"mod": m} if c.scratch else dict(p, mod=m)))(m, p) for m, p in mods.items()})
        add(r"^GET /query$", READ1, {"select-chunked": lambda c: dict(params={"db": c.db, "q": "select * from " + MST, "chunked": "true", "chunk_size": "1"}),
                                      "select-async": lambda c: dict(params={"db": c.db, "q": "select * from " + MST, "async": "true"}),
                                      "select-pretty-epoch": lambda c: dict(params={"db": c.db, "q": "select * from " + MST, "pretty": "true", "epoch": "ms"})})
        add(r"^POST /write$", WRITE1, {"precision-gzip": lambda c: dict(params={"db": c.db, "precision": "s"}, body=__import__("gzip").compress(("c19wz_%s,host=c19new v=1 %d" % (c.tag, T0)).encode(), mtime=0),
                                                                          headers=dict(TEXT, **{"Content-Encoding": "gzip"}))})
    add(r"^POST /backup/run$", ADMINREQ, {"": lambda c: dict(params={"backupPath": os.path.join(c.srvdir, "bk_" + c.tag), "isInc": "false", "dataBases": c.db},
                                                            fs_absent=os.path.join(c.srvdir, "bk_" + c.tag))})
    add(r"^POST /backup/(abort|status)$", ADMINREQ, plain)
    add(r"^POST /api/v2/query$", AUTHN, {"": lambda c: dict(params={}, body=b'{"query":"buckets()"}', headers=JSONH)})
    # ---- log-store API (product type logkeeper): repository = database, log stream = retention policy + measurement
    lsv = lambda c: {"repository": c.db, "logStream": "c19ls", "cursor": "c19cursor", "taskId": "c19task"}
    add(r"^GET /api/v1/repository$", AUTHN, plain)
    add(r"^GET /api/v1/repository/\{repository\}$", AUTHN, {"": lambda c: dict(params={}, vars=lsv(c))})
    add(r"^POST /api/v1/repository/\{repository\}$", ADMINREQ, {"": lambda c: dict(params={}, vars={"repository": "c19repo" + c.tag})})
    add(r"^(DELETE|PUT) /api/v1/repository/\{repository\}$", ADMINREQ, {"": lambda c: dict(params={}, vars=lsv(c), body=b'{"ttl": 3}', headers=JSONH)})
    add(r"^GET /api/v1/logstream/\{repository\}(/\{logStream\})?$", AUTHN, {"": lambda c: dict(params={}, vars=lsv(c))})
    add(r"^POST /api/v1/logstream/\{repository\}/\{logStream\}$", MUTATE1, {"": lambda c: dict(params={}, vars=dict(lsv(c), logStream="c19ls" + c.tag), body=b'{"ttl": 3}', headers=JSONH)})
    add(r"^(DELETE|PUT) /api/v1/logstream/\{repository\}/\{logStream\}$", MUTATE1, {"": lambda c: dict(params={}, vars=lsv(c), body=b'{"ttl": 5}', headers=JSONH)})
    add(r"^POST /repo/\{repository\}/logstreams/\{logStream\}/(records|upload)$", WRITE1, {
        "": lambda c: dict(params={"type": "json", "mapping": '{"timestamp":"time","default_type":{"tags":[],"fields":["msg"]}}'}, vars=lsv(c),
                           body=('{"time":%d000,"msg":"c19log_%s"}\n' % (T0, c.tag)).encode(), headers=JSONH)})
    add(r"^GET /repo/\{repository\}/logstreams/\{logStream\}/", LOGREAD, {
        "": lambda c: dict(params={"query": "*", "from": str((T0 - 60) * 1000), "to": str((T0 + 60) * 1000), "limit": "10", "timeout_ms": "5000", "cursor_time": str(T0 * 1000)}, vars=lsv(c))})
    add(r"^POST /repo/\{repository\}/logstreams/\{logStream\}/(recalldata|stream-task)$", MUTATE1, {"": lambda c: dict(params={}, vars=lsv(c), body=b"{}", headers=JSONH)})
    add(r"^DELETE /repo/\{repository\}/logstreams/\{logStream\}/stream-task/\{taskId\}$", MUTATE1, {"": lambda c: dict(params={}, vars=lsv(c))})
    return R


VAR_RE = re.compile(r"\{([A-Za-z_][A-Za-z0-9_]*)(:[^}]*)?\}")

# ----------------------------------------------------------------------------------------------- statement examples

# One or more example texts per statement type.  Placeholders: {db} target db, {odb} the other db, {victim} a user without
# privileges, {tag} case id, {rpx} an extra retention policy that exists in the target db, {mst} the measurement with data.
# urldb: value of the db= URL parameter ("db" target, "odb" the other database, "" none).
EXAMPLES = [
    dict(text="alter retention policy {rpx} on {db} duration 3d"),
    dict(text="alter measurement {mst}"),
    dict(text="create continuous query c19cq_{tag} on {db} resample every 1h begin select mean(v) into {db}.autogen.c19cqo from {db}.autogen.{mst} group by time(1h) end"),
    dict(text="create database c19n_{tag}"),
    dict(text="create downsample on {db}.{rpx} (float(sum),integer(max)) with duration 7d sampleinterval(1d,2d) timeinterval(1m,3m)"),
    dict(text="create measurement c19cm_{tag}"),
    dict(text="create retention policy c19rp_{tag} on {db} duration 2d replication 1"),
    dict(text="create stream c19st_{tag} into {db}.autogen.c19sto on select sum(v) from {db}.autogen.{mst} group by time(10s) delay 5s"),
    dict(text="create subscription c19sub_{tag} on {db}.autogen destinations all 'http://127.0.0.1:9'"),
    dict(text="create user c19u_{tag} with password 'N3w-user#pw77'"),
    dict(text="create user c19a_{tag} with password 'N3w-user#pw77' with all privileges"),
    dict(text="delete from {mst} where host = 'c19tagA'"),
    dict(text="delete from {mst}"),
    dict(text="drop continuous query c19cq on {db}"),
    dict(text="drop database {db}"),
    dict(text="drop downsample on {db}.{rpx}"),
    dict(text="drop measurement {mst}"),
    dict(text="drop retention policy {rpx} on {db}"),
    dict(text="drop series from {mst} where host = 'c19tagA'"),
    dict(text="drop series from {mst}"),
    dict(text="drop shard {shard}"),
    dict(text="drop stream c19stream"),
    dict(text="drop subscription c19sub on {db}.autogen"),
    dict(text="drop user {victim}"),
    dict(text="explain select * from {mst}"),
    dict(text="explain analyze select * from {mst}"),
    dict(text="grant all privileges to {victim}"),
    dict(text="grant all on {db} to {victim}"),
    dict(text="grant read on {db} to c19other"),
    dict(text="graph 1 'c19node'"),
    dict(text="kill query 4000000000"),
    dict(text="revoke all privileges from admin", fixture_only=True),
    dict(text="revoke all privileges from {victim}"),
    dict(text="revoke read on {db} from c19ro"),
    dict(text="select * from {mst}"),
    dict(text="select count(v) from {mst} group by host"),
    dict(text="select * from {db}..{mst}", urldb="odb"),
    dict(text="select * from {db}.autogen.{mst}", urldb=""),
    dict(text="select * into {db}..c19si_{tag} from {db}..{mst}"),
    dict(text="select * into {db}..c19si_{tag} from {odb}..c19m2", urldb="odb"),
    dict(text="select * from (select v from {mst})"),
    dict(text="set config store \"data.max-concurrent-compactions\" = 4"),
    dict(text="set password for {victim} = 'Ch4nged-by#c19'"),
    dict(text="show cluster"),
    dict(text="show configs"),
    dict(text="show continuous queries"),
    dict(text="show databases", anyuser=True),
    dict(text="show diagnostics"),
    dict(text="show downsamples on {db}"),
    dict(text="show field key cardinality"),
    dict(text="show field keys"),
    dict(text="show field keys on {db}", urldb="odb"),
    dict(text="show grants for c19ro"),
    dict(text="show measurement cardinality"),
    dict(text="show measurement exact cardinality on {db}", urldb="odb"),
    dict(text="show measurement keys"),
    dict(text="show measurements detail with measurement = {mst}"),
    dict(text="show measurements"),
    dict(text="show measurements on {db}", urldb="odb"),
    dict(text="show queries", anyuser=True),
    dict(text="show retention policies"),
    dict(text="show retention policies on {db}", urldb="odb"),
    dict(text="show series cardinality"),
    dict(text="show series exact cardinality on {db}", urldb="odb"),
    dict(text="show series"),
    dict(text="show series on {db}", urldb="odb"),
    dict(text="show shard groups"),
    dict(text="show shards"),
    dict(text="show stats"),
    dict(text="show streams"),
    dict(text="show subscriptions"),
    dict(text="show tag key cardinality"),
    dict(text="show tag keys"),
    dict(text="show tag keys on {db}", urldb="odb"),
    dict(text="show tag values cardinality with key = host"),
    dict(text="show tag values with key = host"),
    dict(text="show tag values on {db} with key = host", urldb="odb"),
    dict(text="show users"),
    dict(text="with t as (select v from {mst}) select * from t"),
    # several statements in one request: every statement must be authorised
    dict(text="show databases; drop measurement {mst}"),
    dict(text="select * from {mst}; create user c19m_{tag} with password 'N3w-user#pw77'"),
    dict(text="select * from {mst}; delete from {mst}"),
]

# ---- a FOREIGN database (one the user has no privilege on) in every source position the grammar offers --------------------
JOIN_SPELLINGS = ["full join", "inner join", "join", "left outer join", "left join", "right outer join", "right join", "outer join"]


def source_position_examples():
    """statement texts with the user's own database in every position but one, which names a foreign database.
    Orientation A: own = {db} (ro READ, wo WRITE), foreign = {odb}; orientation B: own = {odb} (other ALL), foreign = {db}.
    The db= URL parameter is always the own database.  Qualified names are quoted (the join grammar needs it)."""
    out = []
    for own, foreign, urldb, own_m, for_m in (("{db}", "{odb}", "db", MST, "c19m2"), ("{odb}", "{db}", "odb", "c19m2", MST)):
        O = '"%s"."autogen"."%s"' % (own, own_m)
        F = '"%s"."autogen"."%s"' % (foreign, for_m)
        F2 = '"%s".."%s"' % (foreign, for_m)
        SO = "(select v, host from %s)" % O
        SF = "(select v, host from %s)" % F

        def add(pos, text):
            out.append(dict(text=text, urldb=urldb, position=pos))
        add("plain", "select * from %s" % F)
        add("plain-default-rp", "select * from %s" % F2)
        add("list-second", "select * from %s, %s" % (O, F))
        add("list-first", "select * from %s, %s" % (F, O))
        add("regex", 'select * from "%s"."autogen"./c19.*/' % foreign)
        add("regex-default-rp", 'select * from "%s"../.*/' % foreign)
        add("aggregate", "select count(v) from %s group by host" % F)
        add("explain", "explain select * from %s" % F)
        for j in JOIN_SPELLINGS:
            for side in ("left", "right"):
                for operand in ("measurement", "subquery"):
                    a, b = (F, O) if side == "left" else (O, F)
                    if operand == "subquery":
                        a, b = (SF, SO) if side == "left" else (SO, SF)
                    add("join:%s:%s:%s" % (j, side, operand), "select a.v, b.v from %s as a %s %s as b on a.host = b.host group by host" % (a, j, b))
        add("join:full join:right:measurement:no-group", "select a.v, b.v from %s as a full join %s as b on a.host = b.host" % (O, F))
        add("join:full join:left:measurement:no-group", "select a.v, b.v from %s as a full join %s as b on a.host = b.host" % (F, O))
        add("join-3way:last", "select * from %s as a full join %s as b on a.host = b.host full join %s as c on a.host = c.host" % (O, O, F))
        add("join-3way:middle", "select * from %s as a full join %s as b on a.host = b.host full join %s as c on a.host = c.host" % (O, F, O))
        add("join-in-subquery:right", "select * from (select a.v, b.v from %s as a full join %s as b on a.host = b.host)" % (O, F))
        add("subquery-depth1", "select * from (select v from %s)" % F)
        add("subquery-depth2", "select * from (select v from (select v from %s))" % F)
        add("subquery-list-second", "select * from (select v from %s), (select v from %s)" % (O, F))
        add("subquery-aliased", "select * from (select v from %s) as t" % F)
        for u in ("union", "union all", "union by name", "union all by name"):
            add("%s:right-arm" % u, "select v from %s %s select v from %s" % (O, u, F))
            add("%s:left-arm" % u, "select v from %s %s select v from %s" % (F, u, O))
        add("union-in-subquery:right-arm", "select * from (select v from %s union all select v from %s)" % (O, F))
        add("cte", "with t as (select v from %s) select * from t" % F)
        add("cte-second", "with t as (select v from %s), u as (select v from %s) select * from t, u" % (O, F))
        add("into-target", "select * into \"%s\"..\"c19spi_{tag}\" from %s" % (foreign, O))
        add("into-source", "select * into \"%s\"..\"c19spo_{tag}\" from %s" % (own, F))
        add("table-function", "select * from rca(%s, '{{}}')" % own_m)
        add("delete-from", "delete from %s" % F2)
        add("drop-series-from", "drop series from %s" % F2)
        for what in ("series", "tag keys", "field keys", "measurements", "retention policies", "tag values",
                     "series cardinality", "series exact cardinality", "measurement cardinality", "measurement exact cardinality",
                     "tag key cardinality", "field key cardinality", "tag values cardinality", "downsamples", "measurements detail"):
            tail = " with key = host" if what.startswith("tag values") else (" with measurement = %s" % for_m if what.endswith("detail") else "")
            add("show %s on" % what, 'show %s on "%s"%s' % (what, foreign, tail))
        for what in ("series", "tag keys", "field keys", "tag values", "series exact cardinality", "tag key exact cardinality", "tag values exact cardinality"):
            tail = " with key = host" if what.startswith("tag values") else ""
            add("show %s from" % what, "show %s from %s%s" % (what, F2, tail))
    for e in out:
        e["srcpos"] = True
    return out


EXAMPLES += source_position_examples()

# floor: what the property statement itself implies, independent of what RequiredPrivileges() of the tree under test says
FLOOR_ADMIN = {"CreateDatabaseStatement", "DropDatabaseStatement", "CreateUserStatement", "DropUserStatement", "GrantStatement",
               "GrantAdminStatement", "RevokeStatement", "RevokeAdminStatement", "SetPasswordUserStatement", "SetConfigStatement",
               "KillQueryStatement", "DropShardStatement", "DropMeasurementStatement", "CreateRetentionPolicyStatement",
               "AlterRetentionPolicyStatement", "ShowUsersStatement", "ShowGrantsForUserStatement"}
FLOOR_READ = {"SelectStatement", "ShowSeriesStatement", "ShowTagValuesStatement", "ShowTagKeysStatement", "ShowFieldKeysStatement",
              "ShowMeasurementsStatement", "ExplainStatement", "WithSelectStatement"}
FLOOR_WRITE = {"DeleteStatement", "DeleteSeriesStatement", "DropSeriesStatement", "DropRetentionPolicyStatement", "DropContinuousQueryStatement"}

PRIV_MATRIX = {"ro": {D1: "READ"}, "wo": {D1: "WRITE"}, "other": {D2: "ALL"}}


def class_has(cls, priv, db):
    if cls == "admin":
        return True
    if priv in ("NO PRIVILEGES", ""):
        return True
    have = PRIV_MATRIX[cls].get(db)
    return have is not None and (have == priv or have == "ALL")


SELECT_FAMILY = {"SelectStatement", "ExplainStatement", "WithSelectStatement"}


def statement_requirement(ex, stmts):
    """-> Req from (1) the declared privileges of every statement (evaluated for the fixture substitution), (2) the type floor and
    (3) the reference floor: every Measurement node the harness found anywhere in the statement (reflection walk, independent of
    RequiredPrivileges) needs READ on its database (WRITE for an INTO target and for DELETE / DROP SERIES).
    Classes that only the reference floor of a non-SELECT statement excludes are `evidence_only`: what `FROM db..m` means in
    SHOW / DELETE is the implementation's choice, so there only an observed foreign effect (digest, stored value) counts."""
    urldb = {"db": D1, "odb": D2, "": ""}[ex.get("urldb", "db")]
    suff, evidence_only = set(), set()
    for cls in ("ro", "wo", "other"):
        ok, ok_without_refs_outside_select = True, True
        for st in stmts:
            needs = []  # (priv, db)
            admin = False
            for p in st["privs"]:
                if p["admin"]:
                    admin = True
                else:
                    needs.append((p["privilege"].replace(" PRIVILEGES", ""), p["name"] or urldb))
            t = st["type"]
            if t in FLOOR_ADMIN or (st.get("error") or "").startswith("RequiredPrivileges"):
                admin = True
            if t in FLOOR_READ and not needs and not admin:
                needs.append(("READ", urldb))
            if t in FLOOR_WRITE and not any(n[0] in ("WRITE", "ALL") for n in needs) and not admin:
                needs.append(("WRITE", urldb))
            refneeds = []
            for r in st.get("refs") or []:
                db = r["db"] or urldb
                if r["role"] == "write" or t in ("DeleteSeriesStatement", "DeleteStatement", "DropSeriesStatement"):
                    refneeds.append(("WRITE", db))
                else:
                    refneeds.append(("READ", db))
            if admin:
                ok = ok_without_refs_outside_select = False
                break
            for priv, db in needs:
                if priv != "NO" and (not db or not class_has(cls, priv, db)):
                    ok = ok_without_refs_outside_select = False
            for priv, db in refneeds:
                if not db or not class_has(cls, priv, db):
                    ok = False
                    if t in SELECT_FAMILY:
                        ok_without_refs_outside_select = False
            if not ok and not ok_without_refs_outside_select:
                break
        if ok:
            suff.add(cls)
        elif ok_without_refs_outside_select:
            evidence_only.add(cls)
    names = []
    for st in stmts:
        dbs = sorted({"%s %s" % ("WRITE" if r["role"] == "write" else "READ", r["db"] or "<db>") for r in st.get("refs") or []})
        names.append("%s[declared: %s; measurements referenced: %s]" % (
            st["type"], ",".join(("admin" if p["admin"] else "%s on %s" % (p["privilege"], p["name"] or "<db>")) for p in st["privs"]) or "none",
            ", ".join(dbs) or "none"))
    r = Req("; ".join(names), suff)
    r.anonymous = False
    r.evidence_only = evidence_only
    return r


# ----------------------------------------------------------------------------------------------- the world


class World:
    def __init__(self, tier, product, scratch, rep, deadline_at, name=None):
        self.tier, self.product, self.rep = tier, product, rep
        extra = {"http": {"shared-secret": SECRET, "log-enabled": False}, "coordinator": {"rp-limit": 1000000}}
        if product == "logkeeper":
            extra["common"] = {"product-type": "logkeeper"}
        self.srv = blackbox.Server(CID, scratch, name=name or product, auth=True, extra=extra)
        self.deadline_at = deadline_at
        self.base = None
        self.pristine = None
        self.universe = None
        self.watch = set()  # per-case victim repositories (c19v...) that the digest looks at; older ones are ignored
        self.shard = {}
        self.n_http = 0
        self.n_digest = 0

    # ---- raw HTTP (no redirects, full control over headers)
    def http(self, method, path, params=None, body=None, headers=None, timeout=180):
        q = urllib.parse.urlencode(params or {}, doseq=True)
        target = path + ("?" + q if q else "")
        self.n_http += 1
        try:
            conn = http.client.HTTPConnection("127.0.0.1", self.srv.ports[3], timeout=timeout)
            conn.request(method, target, body=body, headers=headers or {})
            r = conn.getresponse()
            data = r.read()
            hdr = dict(r.getheaders())
            conn.close()
            return r.status, data, hdr
        except (OSError, http.client.HTTPException) as e:
            raise ToolError("request %s %s failed: %s (server alive: %s)" % (method, target[:200], e, self.srv.alive()))

    def admin_q(self, q, db=None, method="POST", expect_ok=True):
        p = {"q": q, "epoch": "ns"}
        if db:
            p["db"] = db
        pa, hd = _basic(*ADMIN)
        for attempt in range(40):
            st, body, _ = self.http(method, "/query", params=p, headers=hd)
            try:
                js = json.loads(body)
            except ValueError:
                js = None
            if js is not None or st in (401, 403):
                break
            time.sleep(0.25)  # an empty or truncated answer right after start under load: ask again (administrator set-up only)
        if expect_ok and (st != 200 or js is None or any("error" in r for r in js.get("results", []))):
            raise ToolError("admin statement %r answered %s %r" % (q[:200], st, body[:300]))
        return st, js

    def admin_write(self, db, lines, rp=None):
        p = {"db": db}
        if rp:
            p["rp"] = rp
        _, hd = _basic(*ADMIN)
        hd.update(TEXT)
        for attempt in range(60):
            st, body, _ = self.http("POST", "/write", params=p, body=lines.encode(), headers=hd)
            if st < 500:
                break
            time.sleep(0.25)  # a shard of a just created database may not be known to the store yet
        return st, body

    # ---- fixture
    def start(self, fixture=True):
        self.srv.build()
        for attempt in range(4):
            try:
                self.srv.start(wait_s=180)
                break
            except ToolError as e:
                # free_ports() closes the probe sockets before the server binds them: with several servers starting at once
                # (ours and other checks') two can pick the same port; take fresh ports and a fresh directory and try again
                self.srv.kill9()
                if attempt == 3:
                    raise
                keep = os.path.join(self.srv.dir, "stdout-%d.log" % self.srv.starts)
                tail = open(keep, errors="replace").read()[-400:] if os.path.exists(keep) else ""
                checklib.log("server %s did not start (%s) %s -- retrying with new ports" % (self.srv.name, e, tail.replace("\n", " | ")))
                shutil.rmtree(self.srv.dir, ignore_errors=True)
                os.makedirs(self.srv.dir, exist_ok=True)
                self.srv.ports = None
        # bootstrap: while no user exists an unauthenticated CREATE USER ... WITH ALL PRIVILEGES is accepted
        ok = False
        for attempt in range(10):
            try:
                st, body, _ = self.http("POST", "/query", params={"q": "create user %s with password '%s' with all privileges" % ADMIN}, timeout=30)
                if st == 200 and b"error" not in body:
                    ok = True
                    break
            except ToolError:
                pass
            try:
                st, js = self.admin_q("show users", expect_ok=False)
                if st == 200 and js and "admin" in json.dumps(js):
                    ok = True
                    break
            except ToolError:
                pass
            time.sleep(1)
        if not ok:
            raise ToolError("cannot bootstrap the administrator")
        if not fixture:
            return
        self.ensure_fixture(first=True)
        self.settle()
        self.base = self.digest()
        self.pristine = dict(self.base)

    def ensure_fixture(self, first=False):
        """idempotent: databases, extra retention policy, users and exactly the privilege matrix."""
        stmts = []
        for db in (D1, D2, S1, S2):
            stmts.append("create database %s" % db)
        for db in (D1, S1):
            stmts.append("create retention policy %s on %s duration 36500d replication 1" % (RPX, db))
        for u, (pw, _) in USERS.items():
            stmts.append("create user %s with password '%s'" % (u, pw))
        for s in stmts:
            for attempt in range(240):
                st, js = self.admin_q(s, expect_ok=first)
                if first or not (js and "being delete" in json.dumps(js)):
                    break
                time.sleep(0.5)  # the database an unauthorised request managed to drop is still being removed
        for u, (pw, grants) in USERS.items():
            for db in (D1, D2, S1, S2):
                want = grants.get(db)
                if not first:
                    self.admin_q("revoke all on %s from %s" % (db, u), expect_ok=False)
                if want:
                    self.admin_q("grant %s on %s to %s" % (want, db, u), expect_ok=first)
        if self.product == "logkeeper":
            # log keeper: points cannot be written through /write (the server does not survive it); the fixture is catalogue only
            self.ensure_logstreams()
            return
        lines1 = "%s,host=c19tagA v=17171.5,s=\"c19strval\" %d000000000\n%s,host=c19tagB v=27272.5 %d000000000" % (MST, T0, MST, T0 + 1)
        lines2 = "c19m2,host=c19tagC v=31337.25 %d000000000" % T0
        for db, lines in ((D1, lines1), (S1, lines1), (D2, lines2), (S2, lines2)):
            st, body = self.admin_write(db, lines)
            if st != 204 and first:
                raise ToolError("fixture write to %s: %s %r" % (db, st, body[:200]))
        st, body = self.admin_write(S2, "c19probe v=1 %d000000000" % T0)
        if st != 204 and first:
            raise ToolError("probe write: %s %r" % (st, body[:200]))

    def ensure_logstreams(self):
        _, hd = _basic(*ADMIN)
        hd.update(JSONH)
        for db in (D1, S1):
            self.http("POST", "/api/v1/logstream/%s/c19ls" % db, body=b'{"ttl": 3}', headers=hd)

    def prep_repo(self, db):
        """log keeper: a repository of its own for one case (so that a request that does act destroys nothing shared)."""
        _, hd = _basic(*ADMIN)
        hd.update(JSONH)
        st, body, _ = self.http("POST", "/api/v1/repository/" + db, headers=hd)
        if st != 200:
            raise ToolError("cannot create repository %s: %s %r" % (db, st, body[:200]))
        st, body, _ = self.http("POST", "/api/v1/logstream/%s/c19ls" % db, body=b'{"ttl": 3}', headers=hd)
        if st != 200:
            raise ToolError("cannot create log stream %s/c19ls: %s %r" % (db, st, body[:200]))
        self.admin_q("grant READ on %s to c19ro" % db)
        self.admin_q("grant WRITE on %s to c19wo" % db)
        self.watch = {db}
        self.universe = None

    def relevant(self, db):
        return not db.startswith("c19v") or db in self.watch

    def ensure_scratch(self):
        """re-create what an administrator reference request may have destroyed in the scratch twin."""
        for s in ("create database %s" % S1, "create database %s" % S2,
                  "create retention policy %s on %s duration 36500d replication 1" % (RPX, S1),
                  "create user c19sv with password '%s'" % USERS["c19sv"][0],
                  "grant READ on %s to c19ro" % S1, "grant WRITE on %s to c19wo" % S1, "grant ALL on %s to c19other" % S2,
                  "revoke all on %s from c19sv" % S1, "revoke all on %s from c19other" % S1):
            self.admin_q(s, expect_ok=False)
        if self.product == "logkeeper":
            self.ensure_logstreams()
        else:
            self.admin_write(S1, "%s,host=c19tagA v=17171.5,s=\"c19strval\" %d000000000" % (MST, T0))

    FIXROWS = {D1: {(MST, T0 * 10**9, "c19tagA"), (MST, (T0 + 1) * 10**9, "c19tagB")}, D2: {("c19m2", T0 * 10**9, "c19tagC")}}

    def fixture_rows(self):
        _, js = self.admin_q('select host, v from "%s".."%s"; select host, v from "%s".."c19m2"' % (D1, MST, D2), expect_ok=False)
        got = {}
        for db, res in zip((D1, D2), (js or {}).get("results", [])):
            rows = set()
            for s in res.get("series") or []:
                for v in s.get("values") or []:
                    rows.add((s.get("name"), v[0], v[1]))
            got[db] = rows
        return got

    def scratch_damaged(self, d):
        p = self.pristine
        if p is None:
            return False
        try:
            first = lambda txt: [json.loads(v)[0] for s in (json.loads(txt).get("series") or []) for v in (s.get("values") or [])]
            dbs, users = first(d.get("databases", "{}")), first(d.get("users", "{}"))
            if not {D1, D2, S1, S2} <= set(dbs) or not (set(USERS) | {"admin"}) <= set(users):
                return True
            if RPX not in first(d.get("rps:" + S1, "{}")):
                return True
            if self.product != "logkeeper" and MST not in first(d.get("measurements:" + S1, "{}")):
                return True
            for u in USERS:
                if d.get("grants:" + u) != p.get("grants:" + u):
                    return True
            if d.get("login:c19victim") != p.get("login:c19victim"):
                return True
        except ValueError:
            return True
        return False

    def after_sufficient(self):
        """state after a request that was allowed to act (scratch twin): repair the twin if needed, take the new baseline."""
        self.universe = None
        d = self.digest()
        if "__digest_status" in d or self.scratch_damaged(d):
            self.repair_control()
            self.ensure_scratch()
            self.universe = None
            d = self.digest()
        self.base = d

    def settle(self, timeout_s=120, strict=True):
        """visibility barrier: the fixture points are readable (index visibility lags the acknowledgement)."""
        if self.product == "logkeeper":
            return True
        t0 = time.time()
        got = {}
        while time.time() - t0 < timeout_s:
            got = self.fixture_rows()
            if got == self.FIXROWS:
                return True
            time.sleep(0.1)
        if strict:
            raise ToolError("visibility barrier: fixture rows %r, expected %r" % (got, self.FIXROWS))
        return False

    def end_barrier(self, timeout_s=120):
        """everything acknowledged before now is readable: a point written now (scratch database) has become readable."""
        if self.product == "logkeeper":
            return
        self.n_end = getattr(self, "n_end", 0) + 1
        m = "c19end%d" % self.n_end
        st, body = self.admin_write(S2, "%s v=1 %d000000000" % (m, T0))
        if st != 204:
            raise ToolError("end barrier write: %s %r" % (st, body[:200]))
        t0 = time.time()
        while time.time() - t0 < timeout_s:
            _, js = self.admin_q('select count(v) from "%s".."%s"' % (S2, m), expect_ok=False)
            if js and any(r.get("series") for r in js.get("results", [])):
                return
            time.sleep(0.1)
        raise ToolError("end barrier: the sentinel point did not become readable")

    # ---- digest
    def _universe(self):
        _, js = self.admin_q("show databases; show users")
        res = js["results"]
        dbs = sorted(v[0] for s in (res[0].get("series") or []) for v in (s.get("values") or []) if self.relevant(v[0]))
        users = sorted(v[0] for s in (res[1].get("series") or []) for v in (s.get("values") or []))
        rps = {}
        if dbs:
            _, js2 = self.admin_q("; ".join('show retention policies on "%s"' % d for d in dbs), expect_ok=False)
            for d, r in zip(dbs, (js2 or {}).get("results", [])):
                rps[d] = sorted(v[0] for s in (r.get("series") or []) for v in (s.get("values") or []))
        return dbs, users, rps

    def digest(self):
        """catalogue + data digest with administrator credentials -> dict name -> canonical JSON text."""
        self.n_digest += 1
        for attempt in range(3):
            if self.universe is None:
                self.universe = self._universe()
            dbs, users, rps = self.universe
            stmts = [("databases", "show databases"), ("users", "show users"), ("subscriptions", "show subscriptions"),
                     ("streams", "show streams")]
            for u in users:
                stmts.append(("grants:" + u, 'show grants for "%s"' % u))
            for d in dbs:
                stmts.append(("rps:" + d, 'show retention policies on "%s"' % d))
                stmts.append(("measurements:" + d, 'show measurements on "%s"' % d))
                stmts.append(("cqs", "show continuous queries"))
            for d in (D1, D2):
                for rp in rps.get(d, []):
                    stmts.append(("data:%s.%s" % (d, rp), 'select * from "%s"."%s"./.*/' % (d, rp)))
            seen = set()
            stmts = [s for s in stmts if not (s[0] == "cqs" and ("cqs" in seen or seen.add("cqs")))]
            st, js = self.admin_q("; ".join(s[1] for s in stmts), expect_ok=False)
            out = {}
            if st != 200 or js is None or len(js.get("results", [])) != len(stmts):
                out["__digest_status"] = "%s %s" % (st, json.dumps(js)[:300])
                return self._probes(out)
            for (name, _), r in zip(stmts, js["results"]):
                r = dict(r)
                r.pop("statement_id", None)
                # rows as a sorted set: listing order is not state, and a point stored twice with the same time and
                # values is the same point
                for srs in r.get("series") or []:
                    vals = srs.get("values") or []
                    if name.startswith("grants:"):
                        vals = [v for v in vals if not (len(v) == 2 and v[1] == "NO PRIVILEGES")]  # same as no entry
                        vals = [v for v in vals if self.relevant(str(v[0]))]
                    if name == "databases":
                        vals = [v for v in vals if self.relevant(str(v[0]))]
                    srs["values"] = sorted({json.dumps(v) for v in vals})
                if r.get("series"):
                    if name in ("cqs", "subscriptions", "streams"):
                        r["series"] = [x for x in r["series"] if self.relevant(str(x.get("name", "")))]
                    r["series"] = sorted(r["series"], key=lambda x: json.dumps(x, sort_keys=True))
                out[name] = json.dumps(r, sort_keys=True)
            first = lambda txt: sorted(json.loads(v)[0] for s in (json.loads(txt).get("series") or []) for v in (s.get("values") or []))
            nd = first(out["databases"])
            nu = first(out["users"])
            nrps = {}
            for d in nd:
                nrps[d] = first(out.get("rps:" + d, "{}"))
            if nd == dbs and nu == users and all(nrps.get(d) == rps.get(d) for d in nd):
                return self._probes(out)
            self.universe = None  # the universe moved: take the digest again over the new one
        raise ToolError("digest universe does not stabilise")

    def _probes(self, out):
        # login probe: the victim still authenticates with its original password (SET PASSWORD is otherwise invisible)
        _, hd = _basic("c19victim", USERS["c19victim"][0])
        st, _, _ = self.http("GET", "/query", params={"q": "show databases"}, headers=hd)
        out["login:c19victim"] = str(st)
        if self.product == "logkeeper":
            _, hd = _basic(*ADMIN)
            st, body, _ = self.http("GET", "/api/v1/repository", headers=hd)
            try:
                out["repositories"] = "%s %s" % (st, json.dumps(sorted(x for x in json.loads(body) if self.relevant(x))))
            except (ValueError, TypeError):
                out["repositories"] = "%s %r" % (st, body[:200])
            for d in sorted(self.watch):
                st, body, _ = self.http("GET", "/api/v1/repository/" + d, headers=hd)
                out["logstreams:" + d] = "%s %s" % (st, body[:300].decode("latin1"))
                st, body, _ = self.http("GET", "/api/v1/logstream/%s/c19ls" % d, headers=hd)
                try:
                    js = json.loads(body)
                    body = json.dumps({k: js.get(k) for k in ("Name", "Duration", "MarkDeleted")}, sort_keys=True).encode()
                except (ValueError, AttributeError):
                    pass
                out["logstream:%s/c19ls" % d] = "%s %s" % (st, body[:300].decode("latin1"))
        return out

    def control_probe(self):
        """server-control state: an administrator write is still accepted."""
        if self.product == "logkeeper":
            return "n/a"
        st, body = self.admin_write(S2, "c19probe v=1 %d000000000" % T0)
        return "%s %s" % (st, body[:80].decode("latin1"))

    def repair_control(self):
        _, hd = _basic(*ADMIN)
        for mod in ("disablewrite", "disableread", "readonly"):
            self.http("POST", "/debug/ctrl", params={"mod": mod, "switchon": "false"}, headers=hd)

    @staticmethod
    def _cmp_view(d):
        """the part of a digest that a request against the fixture can change: everything except the scratch twins, whose
        objects may still be disappearing asynchronously after an administrator reference (DROP DATABASE / RETENTION POLICY ...)."""
        out = {}
        for k, txt in d.items():
            if k.endswith(":" + S1) or k.endswith(":" + S2) or k.startswith("data:" + S1 + ".") or k.startswith("data:" + S2 + "."):
                continue
            if k in ("databases", "cqs", "subscriptions", "streams") or k.startswith("grants:"):
                try:
                    r = json.loads(txt)
                    keep = []
                    for srs in r.get("series") or []:
                        if srs.get("name") in (S1, S2):
                            continue
                        srs["values"] = [v for v in (srs.get("values") or []) if not any(('"%s"' % x) in v.split(",")[0] for x in (S1, S2))]
                        keep.append(srs)
                    r["series"] = keep
                    txt = json.dumps(r, sort_keys=True)
                except (ValueError, AttributeError):
                    pass
            out[k] = txt
        return out

    @classmethod
    def diff(cls, a, b):
        a, b = cls._cmp_view(a), cls._cmp_view(b)
        ks = sorted(set(a) | set(b))
        out = []
        for k in ks:
            if a.get(k) != b.get(k):
                out.append("%s: %s -> %s" % (k, (a.get(k) or "<absent>")[:260], (b.get(k) or "<absent>")[:260]))
        return out

    def rebaseline(self, repair=False):
        if repair:
            # a request acted although it must not: bring the fixture back as far as possible and go on from there
            self.repair_control()
            self.ensure_fixture()
            self.settle(timeout_s=30, strict=False)
            self.universe = None
        self.base = self.digest()


# ----------------------------------------------------------------------------------------------- case execution


class Case:
    def __init__(self, kind, product, method, pattern, variant, build, req, route=None, ex=None):
        self.kind, self.product, self.method, self.pattern, self.variant = kind, product, method, pattern, variant
        self.build, self.req, self.route, self.ex = build, req, route or {}, ex

    def name(self):
        return "%s %s%s" % (self.method, self.pattern, (" [" + self.variant + "]") if self.variant else "")


def own_repo(case):
    return "{repository}" in case.pattern and not (case.method == "POST" and case.pattern == "/api/v1/repository/{repository}")


def make_ctx(world, case, scratch, tag, reuse=None):
    """log-store routes work on a repository of their own; it is shared by the cases of one route until a request acted on it."""
    c = Ctx(scratch, tag, world.srv.dir)
    if own_repo(case):
        if reuse:
            c.db = reuse
        else:
            c.db = "c19v" + tag
            world.prep_repo(c.db)
            world.base = world.digest()
    return c


def materialise(case, ctx):
    d = case.build(ctx)
    path = d.get("path")
    if path is None:
        vars_ = d.get("vars") or {}
        path = VAR_RE.sub(lambda m: urllib.parse.quote(vars_.get(m.group(1), "c19x"), safe=""), case.pattern)
    return dict(method=case.method if case.method != "*" else "GET", path=path, params=dict(d.get("params") or {}),
                body=d.get("body"), headers=dict(d.get("headers") or {}), fs_absent=d.get("fs_absent"))


def send(world, rq, cred):
    cp, ch = cred
    params = dict(rq["params"])
    params.update(cp)
    headers = dict(rq["headers"])
    headers.update(ch)
    body = rq["body"]
    if body is not None and "Content-Length" not in headers:
        headers["Content-Length"] = str(len(body))
    return world.http(rq["method"], rq["path"], params=params, body=body, headers=headers)


AUTH_ERR = re.compile(r"authoriz|not authorized|privilege|permission|requires (READ|WRITE|ALL|admin)|no user provided", re.I)
FOREIGN_SENTINELS = {"ro": ["c19tagC", "31337.25"], "wo": ["c19tagC", "31337.25"], "other": ["c19tagA", "c19tagB", "c19strval", "17171.5", "27272.5"]}


def only_errors(body):
    """/query: HTTP 200 whose every result is an error and carries no series."""
    try:
        js = json.loads(body)
    except ValueError:
        return False
    if isinstance(js, dict) and "error" in js and not js.get("results"):
        return True
    res = js.get("results") if isinstance(js, dict) else None
    if not res:
        return False
    return all(("error" in r) and not r.get("series") for r in res)


def request_text(rq, cred):
    parts = [rq["path"], json.dumps(rq["params"], sort_keys=True), json.dumps(cred[0], sort_keys=True)]
    if rq["body"]:
        parts.append(rq["body"].decode("latin1"))
    return " ".join(parts)


def replay_obj(world, case, cls, tr, cv, rq):
    return dict(product=world.product, kind=case.kind, method=case.method, pattern=case.pattern, variant=case.variant,
                example=(case.ex or {}).get("text"), cls=cls, transport=tr, cvariant=cv,
                request=dict(method=rq["method"], path=rq["path"], params=rq["params"],
                             body_b64=base64.b64encode(rq["body"]).decode() if rq["body"] else None, headers=rq["headers"]))


def run_case(world, case, creds, rep, only=None):
    """admin reference on the scratch twin, then every insufficient (class, transport) on the fixture target."""
    W = world
    # --- administrator reference (same request against the scratch twin)
    if not case.ex or not case.ex.get("fixture_only"):
        ref = materialise(case, make_ctx(W, case, True, tag_of(case.name(), "ref")))
        ref_st, ref_body, _ = send(W, ref, _basic(*ADMIN))
        if case.pattern in ("/debug/ctrl", "/failpoint"):
            W.repair_control()
        W.after_sufficient()
    else:
        # the fixture-only example cannot be run by the administrator without destroying the administrator: reference = parse only
        ref_st, ref_body = 200, b""
    reached = ref_st not in (404, 405)
    rep["evaluations"] += 1
    rep["counters"]["admin_reference_requests"] += 1
    rep["counters"]["admin_reference_status_%dxx" % (ref_st // 100)] += 1
    if ref_st >= 300:
        rep["ref_non2xx"].append("%s: %s %s" % (case.name(), ref_st, ref_body[:90].decode("latin1").replace("\n", " ")))
    if not reached:
        rep["counters"]["cases_not_reaching_handler"] += 1
        rep["unreached"].append("%s: admin reference %s" % (case.name(), ref_st))
    control = case.pattern in ("/debug/ctrl", "/failpoint") or case.pattern.startswith("/backup")
    if control:
        ctl0 = W.control_probe()
    victim = None
    for cls, tr, cv, mk in creds:
        if only and (cls, tr, cv) != only:
            continue
        verdict = case.req.verdict(cls)
        answer_only = False
        evidence_only = verdict == "insufficient" and cls in getattr(case.req, "evidence_only", ())
        if case.req.anonymous:
            # liveness/status/pre-flight: may answer anybody, but a credential-less request must still change nothing and
            # must not hand out stored values -> judged like an insufficient case without the status oracle
            answer_only = cls in NOCRED
            verdict = "insufficient" if answer_only else "sufficient"
        key = "%s class=%s via=%s%s" % (case.name(), cls, tr, ("/" + cv) if cv else "")
        if verdict == "dontcare":
            rep["counters"]["cases_privilege_undecided_skipped"] += 1
            continue
        if verdict == "sufficient":
            if cls == "admin" and tr == "basic":
                continue  # that is the reference
            if W.tier == "quick" and tr not in ("-", "basic") and not case.req.anonymous:
                continue  # informational side: one transport in quick
            # informational: a sufficient class is not turned away (scratch twin, effects allowed)
            if case.ex and case.ex.get("fixture_only"):
                continue
            rq = materialise(case, make_ctx(W, case, True, tag_of(case.name(), cls, tr, cv)))
            st, body, _ = send(W, rq, mk())
            rep["evaluations"] += 1
            rep["counters"]["sufficient_cases"] += 1
            if st in (401, 403) and ref_st not in (401, 403):
                rep["counters"]["sufficient_rejected"] += 1
                if len(rep["sufficient_rejected"]) < 40:
                    rep["sufficient_rejected"].append("%s -> %s %s" % (key, st, body[:260].decode("latin1")))
            if control:
                W.repair_control()
            W.after_sufficient()
            victim = None
            if control:
                ctl0 = W.control_probe()
            continue
        # --- insufficient
        ctx = make_ctx(W, case, False, tag_of(case.name(), cls, tr, cv), reuse=victim)
        victim = ctx.db if own_repo(case) else None
        rq = materialise(case, ctx)
        cred = mk()
        st, body, _ = send(W, rq, cred)
        rep["evaluations"] += 1
        rep["counters"]["insufficient_cases"] += 1
        after = W.digest()
        changed = W.diff(W.base, after)
        if control:
            ctl1 = W.control_probe()
            if ctl1 != ctl0:
                changed.append("control probe (administrator write): %s -> %s" % (ctl0, ctl1))
        if rq.get("fs_absent") and os.path.exists(rq["fs_absent"]):
            changed.append("file system: %s was created" % rq["fs_absent"])
        watch_for = FOREIGN_SENTINELS.get(cls, SENTINELS) if evidence_only else SENTINELS
        leak = [s for s in watch_for if s.encode() in body and s not in request_text(rq, cred)]
        rejected = st in (401, 403) or (case.pattern == "/query" and st == 200 and only_errors(body))
        if case.pattern == "/query" and st == 200 and rejected and not AUTH_ERR.search(body.decode("latin1")):
            # turned away by an error that does not mention authorisation (execution error after the authorisation step?)
            rep["counters"]["rejected_200_error_not_about_authorisation"] += 1
            if len(rep["other_status"]) < 60:
                rep["other_status"].append("%s -> 200 %s" % (key, body[:140].decode("latin1")))
        if evidence_only and not rejected:
            rep["counters"]["served_foreign_qualifier_without_foreign_effect" if not (changed or leak) else "served_foreign_qualifier_with_effect"] += 1
            rejected = True  # no status oracle here, see statement_requirement
        if answer_only:
            rep["counters"]["anonymous_answers_checked"] += 1
            rep["counters"]["insufficient_cases"] -= 1
            rejected = True  # no status oracle: the endpoint may answer
        elif reached:
            rep["_distinct"].add(h64(world.product, case.name(), cls, tr, cv))
        rep["counters"]["status_%d" % st] += 1
        if len(rep["samples"]) < 400 and (len(rep["samples"]) < 6 or h64(key) % 37 == 0):
            rep["samples"].append(dict(product=world.product, case=key, requirement=case.req.name, request="%s %s?%s" % (rq["method"], rq["path"], urllib.parse.urlencode(rq["params"])[:160]),
                                       status=st, admin_reference_status=ref_st, digest_unchanged=not changed))
        wrapped = case.route.get("auth_wrapped", True)
        ro = replay_obj(W, case, cls, tr, cv, rq)
        detail_tail = " | request %s %s params=%s | answer %s %s | administrator reference on the scratch twin answered %s | needed: %s" % (
            rq["method"], rq["path"], json.dumps(rq["params"])[:300], st, body[:200].decode("latin1"), ref_st, case.req.name)
        if changed:
            kind = "acted_without_credentials" if cls in NOCRED else "acted_without_privilege"
            if not wrapped:
                kind = "unauthenticated_route"
            violation(rep, kind, key, "state changed: " + "; ".join(changed)[:900] + detail_tail, ro)
            if own_repo(case):
                victim = None  # the next case gets a fresh repository
                W.base = after
            else:
                W.rebaseline(repair=True)
            if control:
                ctl0 = W.control_probe()
        elif leak:
            violation(rep, "data_disclosed_without_credentials" if cls in NOCRED else "data_disclosed_without_privilege", key,
                      "answer contains stored values %s" % leak + detail_tail, ro)
        elif answer_only:
            pass
        elif rejected:
            rep["counters"]["rejected_401_403"] += 1
        elif 300 <= st < 400:
            # a redirect (the router's path cleaning) serves nothing: not an acceptance; the state was checked above
            rep["counters"]["redirected_not_served"] += 1
        elif st >= 400:
            if st == ref_st:
                rep["counters"]["rejected_before_authorisation_same_as_admin"] += 1
            else:
                rep["counters"]["rejected_other_status"] += 1
                if len(rep["other_status"]) < 60:
                    rep["other_status"].append("%s -> %s (admin reference %s) %s" % (key, st, ref_st, body[:100].decode("latin1")))
        else:
            if not wrapped:
                kind = "unauthenticated_route"
            elif cls in NOCRED:
                kind = "bad_credentials_accepted"
            elif case.kind == "stmt":
                kind = "statement_privilege_not_enforced"
            else:
                kind = "route_privilege_not_enforced"
            violation(rep, kind, key, "request accepted" + detail_tail, ro)
            if control:
                W.repair_control()
                ctl0 = W.control_probe()


def violation(rep, kind, key, detail, replay):
    rep["n_violations"] += 1
    rep["counters"]["violations_" + kind] += 1
    per = rep["_per_kind"]
    per[kind] = per.get(kind, 0) + 1
    if per[kind] <= 200:
        rep["violations"].append(dict(kind=kind, key=key, detail=detail, replay=replay))


# ----------------------------------------------------------------------------------------------- flip test


def can(world, user, db, what):
    pa, hd = _basic(user, "Fl1p-user#pw8")
    if what == "read":
        st, body, _ = world.http("GET", "/query", params={"db": db, "q": "select count(v) from " + ("c19m" if db in (D1, S1) else "c19m2")}, headers=hd)
        return st == 200 and not only_errors(body)
    hd.update(TEXT)
    st, body, _ = world.http("POST", "/write", params={"db": db}, body=b"c19flipw v=1 %d000000000" % T0, headers=hd)
    return st == 204


def flip_test(world, rep):
    W = world
    u = "c19flip"
    W.admin_q("create user %s with password 'Fl1p-user#pw8'" % u)
    dbs = (S1, S2)

    def matrix():
        return {(db, w): can(W, u, db, w) for db in dbs for w in ("read", "write")}

    def expect(priv_by_db):
        return {(db, w): (priv_by_db.get(db) in ({"read": ("READ", "ALL"), "write": ("WRITE", "ALL")}[w])) for db in dbs for w in ("read", "write")}

    state = {}
    m = matrix()
    rep["evaluations"] += 1
    if m != expect(state):
        violation(rep, "grant_revoke_wrong_scope", "flip initial", "new user without grants can %s" % sorted(k for k, v in m.items() if v), dict(kind="flip", product=W.product))
    for db in dbs:
        for priv in ("READ", "WRITE", "ALL"):
            for op in ("grant", "revoke"):
                stmt = "%s %s on %s %s %s" % (op, priv, db, "to" if op == "grant" else "from", u)
                W.admin_q(stmt)
                if op == "grant":
                    state[db] = priv
                else:
                    state.pop(db, None)
                m = matrix()
                rep["evaluations"] += 1
                rep["counters"]["flip_steps"] += 1
                rep["_distinct"].add(h64("flip", W.product, stmt))
                want = expect(state)
                if m != want:
                    bad = sorted("%s %s: is %s, expected %s" % (k[1], k[0], m[k], want[k]) for k in m if m[k] != want[k])
                    violation(rep, "grant_revoke_wrong_scope", "flip " + stmt, "after %r: %s" % (stmt, "; ".join(bad)),
                              dict(kind="flip", product=W.product, statement=stmt))
        # privilege on db must not leak to the other database: leave db granted while the other one is exercised
        W.admin_q("grant READ on %s to %s" % (db, u))
        state[db] = "READ"
    W.admin_q("drop user %s" % u)


# ----------------------------------------------------------------------------------------------- driver


def stage1(tier, scratch):
    ov = checklib.gen_overlay(CID, [PKG])
    binp = checklib.go_test_build(CID, PKG, ov)
    exs = []
    for ex in EXAMPLES:
        exs.append(ex["text"].format(db=D1, odb=D2, victim="c19victim", tag="t", rpx=RPX, mst=MST, shard="1"))
    d = os.path.join(scratch, "stage1")
    os.makedirs(d, exist_ok=True)
    with open(os.path.join(d, "examples.json"), "w") as fh:
        json.dump(exs, fh)
    out = os.path.join(d, "routes.json")
    reps = checklib.run_workers(CID, binp, "TestVerifC19", tier, 1, 300, d,
                                extra_env={"VERIF_ROUTES_OUT": out, "VERIF_C19_EXAMPLES": os.path.join(d, "examples.json")})
    if not os.path.exists(out):
        checklib.tool_error("stage 1 wrote no route table")
    return json.load(open(out)), reps[0]


def new_report():
    from collections import defaultdict
    return dict(evaluations=0, samples=[], violations=[], n_violations=0, counters=defaultdict(int), exhaustive=True, notes=[],
                _distinct=set(), _per_kind={}, unreached=[], other_status=[], sufficient_rejected=[], uncovered=[], ref_non2xx=[])


PATHMODS = ("trailing-slash", "double-slash", "upper-case", "dot-segment")


def variants_of(rules, sig):
    for rx, req, variants in rules:
        if rx.search(sig):
            return variants
    return {}


def req_of(rules, sig):
    for rx, req, variants in rules:
        if rx.search(sig):
            return req
    return NOANON


def pathmod(builder, pattern, pm):
    def b(c):
        d = dict(builder(c))
        vars_ = d.get("vars") or {}
        path = d.get("path") or VAR_RE.sub(lambda m: urllib.parse.quote(vars_.get(m.group(1), "c19x"), safe=""), pattern)
        if pm == "trailing-slash":
            path = path + "/"
        elif pm == "double-slash":
            path = "/" + path
        elif pm == "upper-case":
            path = path.upper()
        else:
            path = "/c19x/.." + path
        d["path"] = path
        return d
    return b


def build_cases(product, routes, examples_info, rep, tier="quick"):
    rules = route_rules(tier)
    cases = []
    for r in routes:
        sig = "%s %s" % (r["method"], r["pattern"])
        matched = False
        for rx, req, variants in rules:
            if rx.search(sig):
                matched = True
                for vname, b in variants.items():
                    cases.append(Case("route", product, r["method"], r["pattern"], vname, b, req, route=r))
        if matched and tier == "thorough" and r["kind"] == "mux":
            # the same requests over non-canonical spellings of the path: whatever the router does with them, nothing may act
            for vname, b in list(variants_of(rules, sig).items())[:1]:
                for pm in PATHMODS:
                    cases.append(Case("route", product, r["method"], r["pattern"], (vname + " " if vname else "") + "path:" + pm, pathmod(b, r["pattern"], pm), req_of(rules, sig), route=r))
        if not matched:
            rep["counters"]["routes_without_rule"] += 1
            rep["uncovered"].append("route without request rule (credential-less classes only): " + sig)
            cases.append(Case("route", product, r["method"], r["pattern"], "generic", lambda c: dict(params={"db": c.db}), NOANON, route=r))
    return cases


def statement_cases(product, s1, rep):
    cases = []
    covered = set()
    qroute = None
    for r in s1["configs"][product]:
        if r["pattern"] == "/query" and r["method"] == "POST":
            qroute = r
    if qroute is None:
        rep["uncovered"].append("no POST /query route in the live table: statement sweep skipped")
        return cases, covered
    for ex, info in zip(EXAMPLES, s1["examples"]):
        if info.get("error") or not info.get("stmts"):
            rep["counters"]["examples_not_parsed"] += 1
            rep["uncovered"].append("example not accepted by the parser: %s (%s)" % (ex["text"], info.get("error")))
            continue
        for st in info["stmts"]:
            covered.add(st["type"])
            for k in st.get("source_kinds") or []:
                covered.add("src:" + k)
            for j in st.get("join_types") or []:
                covered.add("join:" + j)
            if ex.get("srcpos"):
                # source positions in which this example puts a database other than the URL database
                u = {"db": D1, "odb": D2}[ex["urldb"]]
                for r in st.get("refs") or []:
                    if r["db"] and r["db"] != u:
                        covered.add("foreignpos:" + r["path"].lstrip(">").replace("SelectStatement.Sources>", "").replace("SubQuery.Statement", "SubQuery"))
        req = statement_requirement(ex, info["stmts"])
        urlkey = ex.get("urldb", "db")

        def build(c, ex=ex, urlkey=urlkey):
            world_shard = build.shards
            text = ex["text"].format(db=c.db, odb=c.odb, victim=c.victim, tag=c.tag, rpx=RPX, mst=MST, shard=world_shard.get(c.db, 1))
            p = {"q": text}
            if urlkey == "db":
                p["db"] = c.db
            elif urlkey == "odb":
                p["db"] = c.odb
            return dict(params=p)
        build.shards = {}
        cases.append(Case("stmt", product, "POST", "/query", "stmt: " + ex["text"], build, req, route=qroute, ex=ex))
    return cases, covered


def shard_ids(world):
    out = {}
    _, js = world.admin_q("show shards")
    for res in js.get("results", []):
        for s in res.get("series") or []:
            cols = s.get("columns") or []
            if "id" in cols and "database" in cols:
                for v in s.get("values") or []:
                    out.setdefault(v[cols.index("database")], v[cols.index("id")])
    return out


def sweep(tier, product, s1, scratch, rep, deadline_at, only=None, shard=0, nshard=1):
    world = World(tier, product, scratch, rep, deadline_at, name="%s-%d" % (product, shard))
    try:
        world.start()
        creds = credential_cases(tier)
        routes = s1["configs"][product]
        if product != "basic":
            base = {(r["method"], r["pattern"]) for r in s1["configs"]["basic"]}
            routes = [r for r in routes if (r["method"], r["pattern"]) not in base]
        cases = build_cases(product, routes, s1, rep if shard == 0 else new_report(), tier)
        covered = set()
        if product == "basic":
            sc, covered = statement_cases(product, s1, rep if shard == 0 else new_report())
            sh = shard_ids(world)
            for c in sc:
                c.build.shards = sh
            cases += sc
        if shard == 0:
            rep["counters"]["routes_" + product] += len(routes)
            rep["counters"]["request_variants_" + product] += len(cases)
        for idx, case in enumerate(cases):
            if only:
                if (case.kind, case.method, case.pattern, case.variant) != only[0]:
                    continue
            elif idx % nshard != shard:
                continue
            if time.time() > deadline_at:
                rep["exhaustive"] = False
                rep["notes"].append("deadline reached in the %s sweep (worker %d of %d) at request variant %d of %d" % (product, shard, nshard, idx, len(cases)))
                break
            cr = creds
            if case.kind == "stmt" and tier == "quick":
                # quick: statement kinds over none + basic + the valid bearer tokens; every transport and variant in thorough
                cr = [c for c in creds if c[1] in ("-", "basic") or (c[1] == "bearer" and c[2] == "" and c[0] in ("ro", "wo", "other"))]
                if case.ex and case.ex.get("srcpos"):
                    # foreign database in one source position: the user classes over basic and bearer, plus no credentials
                    cr = [c for c in cr if c[0] in ("none", "ro", "wo", "other", "admin") and c[2] == ""]
            run_case(world, case, cr, rep, only=only[1] if only else None)
        if not only and shard == 0 and product == "basic" and time.time() <= deadline_at:
            flip_test(world, rep)  # (log keeper: /write is not usable, the privilege code is the same)
        # settled end state: nothing that lags behind the acknowledgements has appeared in the fixture databases
        if not only:
            world.end_barrier()
            end = world.digest()
            ch = [d for d in world.diff(world.base, end) if d.startswith("data:")]
            rep["evaluations"] += 1
            if ch:
                violation(rep, "late_data_change", "%s end of sweep" % product, "fixture data changed after the sweep settled: " + "; ".join(ch)[:900], dict(kind="end", product=product))
        rep["counters"]["http_requests"] += world.n_http
        rep["counters"]["digests"] += world.n_digest
        return covered
    finally:
        try:
            world.srv.stop()
        except Exception:
            pass
        world.srv.kill9()


def privsm_api():
    import types
    g = globals()
    return types.SimpleNamespace(**{k: g[k] for k in ("ToolError", "ADMIN", "SECRET", "T0", "TEXT", "_basic", "_url", "_bearer", "jwt",
                                                      "only_errors", "violation", "h64")})


def privilege_machine(tier, scratch, rep, deadline_at, replay=None):
    """stage 3: explicit-state exploration of the GRANT/REVOKE machine on a server of its own (lib/c19_privsm.py)."""
    world = World(tier, "basic", scratch, rep, deadline_at, name="privsm")
    try:
        world.start(fixture=False)
        threads = int(os.environ.get("VERIF_C19_PRIVSM_THREADS", "16"))
        c19_privsm.run(privsm_api(), world, rep, tier, deadline_at, threads=threads, replay=replay)
        rep["counters"]["http_requests"] += world.n_http
    finally:
        try:
            world.srv.stop()
        except Exception:
            pass
        world.srv.kill9()


def _worker(args):
    tier, product, s1, scratch, deadline_at, shard, nshard = args
    rep = new_report()
    try:
        if product == "privsm":
            privilege_machine(tier, scratch, rep, deadline_at)
            covered = set()
        else:
            covered = sweep(tier, product, s1, scratch, rep, deadline_at, shard=shard, nshard=nshard)
        rep["covered"] = sorted(covered or [])
    except ToolError as e:
        if rep["n_violations"]:
            # the server state was damaged by requests that must not have acted: report those, not the follow-up failure
            rep["exhaustive"] = False
            rep["notes"].append("%s worker %d stopped after violations: %s" % (product, shard, str(e)[:300]))
        else:
            rep["tool_error"] = "%s worker %d: %s" % (product, shard, e)
    except Exception:
        import traceback
        rep["tool_error"] = "%s worker %d: %s" % (product, shard, traceback.format_exc()[-3000:])
    rep["counters"] = dict(rep["counters"])
    rep["_distinct"] = sorted(rep["_distinct"])
    return rep


def _worker_main(job, outp):
    r = _worker(job)
    with open(outp + ".tmp", "w") as fh:
        json.dump(r, fh, default=str)
    os.rename(outp + ".tmp", outp)


NWORKERS = {"quick": {"privsm": 1, "basic": 5, "logkeeper": 3}, "thorough": {"privsm": 1, "basic": 6, "logkeeper": 3}}


def run(tier, replay):
    import multiprocessing
    t0 = time.time()
    scratch = checklib.scratch_root(CID)
    rep = new_report()
    try:
        s1, gorep = stage1("quick" if replay else tier, scratch)
        rep["evaluations"] += gorep.get("evaluations", 0)
        types = s1["statement_types"]
        deadline = {"quick": 150, "thorough": 2100}["quick" if replay else tier]
        if replay:
            return run_replay(replay, s1, scratch, rep, time.time() + 900)
        blackbox.build_server(CID)
        deadline_at = time.time() + int(os.environ.get("VERIF_DEADLINE_S", deadline))
        products = [p for p in os.environ.get("VERIF_C19_PRODUCTS", "privsm,basic,logkeeper").split(",") if p]
        jobs = []
        for product in products:
            n = int(os.environ.get("VERIF_C19_WORKERS_" + product.upper(), NWORKERS[tier][product]))
            for i in range(n):
                jobs.append((tier, product, s1, scratch, deadline_at, i, n))
        ctx = multiprocessing.get_context("fork")
        procs = []
        for k, job in enumerate(jobs):
            outp = os.path.join(scratch, "worker-%d.json" % k)
            pr = ctx.Process(target=_worker_main, args=(job, outp))
            pr.start()
            procs.append((pr, outp, job))
        reps = []
        for pr, outp, job in procs:
            pr.join()
            if not os.path.exists(outp):
                reps.append(dict(tool_error="%s worker %d died with exit code %s" % (job[1], job[5], pr.exitcode)))
            else:
                reps.append(json.load(open(outp)))
        errs = [r["tool_error"] for r in reps if r.get("tool_error")]
        if errs:
            checklib.tool_error("; ".join(errs)[:4000])
        covered = set()
        for r in reps:
            covered |= set(r.get("covered") or [])
            r["_distinct"] = set(r["_distinct"])
            for k in ("unreached", "other_status", "sufficient_rejected", "uncovered", "ref_non2xx"):
                for x in r.get(k) or []:
                    if x not in rep[k]:
                        rep[k].append(x)
        if os.environ.get("VERIF_C19_DUMP"):
            with open(os.environ["VERIF_C19_DUMP"], "w") as fh:
                json.dump([v for r in reps for v in r.get("violations", [])], fh, indent=1)
        src_unc = [t for t in s1.get("source_types", []) if "src:" + t not in covered]
        join_unc = [j for j in s1.get("join_types", []) if "join:" + j not in covered]
        fpos = sorted(c[len("foreignpos:"):] for c in covered if c.startswith("foreignpos:"))
        rep["counters"]["source_node_types"] = len(s1.get("source_types", []))
        rep["counters"]["source_node_types_uncovered"] = len(src_unc)
        rep["counters"]["join_types"] = len(s1.get("join_types", []))
        rep["counters"]["join_types_uncovered"] = len(join_unc)
        rep["counters"]["foreign_database_source_positions"] = len(fpos)
        rep["counters"]["source_position_examples"] = sum(1 for e in EXAMPLES if e.get("srcpos"))
        if src_unc:
            rep["notes"].append("Source node types (go/ast over the influxql package) without an accepted example, uncovered: " + ", ".join(src_unc))
        if join_unc:
            rep["notes"].append("join types without an accepted example, uncovered: " + ", ".join(join_unc))
        rep["notes"].append("AST positions in which an example names a foreign database: " + "; ".join(fpos))
        unc = [t for t in types if t not in covered]
        rep["counters"]["statement_types"] = len(types)
        rep["counters"]["statement_types_covered"] = len([t for t in types if t in covered])
        rep["counters"]["statement_types_uncovered"] = len(unc)
        rep["counters"]["servers_started"] = len(jobs)
        if unc:
            rep["notes"].append("statement types without an accepted example (uncovered, not violations): " + ", ".join(unc))
        for u in rep["uncovered"][:40]:
            rep["notes"].append(u)
        if rep["unreached"]:
            rep["notes"].append("requests that do not reach a handler as administrator (not counted as non-trivial): " + "; ".join(sorted(rep["unreached"])[:30]))
        if rep["ref_non2xx"]:
            rep["notes"].append("administrator reference requests not answered 2xx (the request still reached the handler unless 404/405): " + "; ".join(sorted(rep["ref_non2xx"])[:40]))
        if rep["other_status"]:
            rep["notes"].append("insufficient credentials turned away with a status other than 401/403 (lenient, state unchanged): " + "; ".join(sorted(rep["other_status"])[:25]))
        if rep["sufficient_rejected"]:
            rep["notes"].append("informational, sufficient credentials turned away: " + "; ".join(sorted(rep["sufficient_rejected"])[:25]))
        rep["counters"] = dict(rep["counters"])
        extra = dict(route_table={p: len(v) for p, v in s1["configs"].items()},
                     unauthenticated_signature_routes=sorted({"%s %s" % (r["method"], r["pattern"]) for v in s1["configs"].values() for r in v if not r["auth_wrapped"]}),
                     credential_cases=len(credential_cases(tier)))
        return checklib.finish(CID, tier, LEVEL, RULE, [rep] + reps, t0, ASSUMPTIONS, extra_cov=extra)
    except ToolError as e:
        checklib.tool_error(str(e))
    finally:
        shutil.rmtree(scratch, ignore_errors=True)


def run_replay(path, s1, scratch, rep, deadline_at):
    obj = json.load(open(path))
    r = obj.get("replay") or {}
    product = r.get("product", "basic")
    if str(r.get("kind", "")).startswith("privsm"):
        privilege_machine("quick", scratch, rep, deadline_at, replay=r)
    elif r.get("kind") in ("flip", "end"):
        world = World("quick", product, scratch, rep, deadline_at)
        try:
            world.start()
            flip_test(world, rep)
        finally:
            world.srv.kill9()
    else:
        only = ((r["kind"], r["method"], r["pattern"], r["variant"]), (r["cls"], r["transport"], r["cvariant"]))
        sweep("thorough", product, s1, scratch, rep, deadline_at, only=only)
    for v in rep["violations"]:
        print("REPLAY-VIOLATION kind=%s key=%s\n  %s" % (v["kind"], v["key"], v["detail"][:1500]))
    print("replay: %s" % ("still fails" if rep["n_violations"] else "passes"))
    return 1 if rep["n_violations"] else 0


# CLAIMED once the check is clean on the unchanged tree (exit 0, KNOWN-FINDING lines allowed).
CLAIMED = True
MANIFEST = dict(
    level="exploration",
    engine="enumx + black-box driver + explicit-state BFS (lib/c19_privsm.py)",
    technique="explicit-state model checking of the privilege state machine on the real server (BFS from a fresh user over the concrete "
              "states SHOW GRANTS can list for two databases [thorough: also three], every GRANT/REVOKE x READ/WRITE/ALL x database "
              "transition from every state executed on a user of its own, reference model = bit algebra, observed through SHOW GRANTS and "
              "the user's own SELECT and /write per database, stored probe points verified after a visibility barrier; thorough adds every "
              "two-statement sequence from every state); and exhaustive enumeration of a finite table on the real server: every route of the live gorilla mux (walked in-package, per "
              "product type) and every /debug prefix of ServeHTTP x request variants x 8 credential classes x 4 credential transports, and "
              "every statement type that declares RequiredPrivileges (go/ast) x the same classes; oracle = HTTP status + catalogue/data "
              "digest taken with administrator credentials before and after every request + stored-value sentinels in the answer",
    text="The route table is read from the running code (mux walk of NewHandler with auth on, basic and logkeeper product types; an "
         "in-process probe tells which routes are wrapped by authenticate()). Against real ts-server processes with auth-enabled = true, a "
         "shared secret, an administrator and a fixed privilege matrix, every (route, method, request variant) and every statement kind is "
         "sent with no, malformed, unknown-user, wrong-password, read-only, write-only, other-database and administrator credentials over "
         "basic, URL, Token and bearer transports. Insufficient credentials must be turned away (401/403 or error-only results), must leave "
         "the catalogue+data digest, the server-control probe and the file system probe unchanged and must not return stored values; "
         "GRANT/REVOKE must flip exactly one user's ability on exactly one database. For that sentence the privilege state machine "
         "is model checked explicitly: breadth first from a freshly created user, state = what SHOW GRANTS lists per database (absent, NO "
         "PRIVILEGES, READ, WRITE, ALL PRIVILEGES; 25 concrete = 16 model states for two databases whose names share a prefix), all 12 "
         "transitions GRANT|REVOKE READ|WRITE|ALL [PRIVILEGES] ON db from every state (300 = all 192 model transitions, including every "
         "REVOKE of a privilege that is not held), each on a fresh user brought to the state by the shortest statement path, all on the real "
         "server over HTTP. After each transition SHOW GRANTS must list exactly the model's privileges (GRANT ors bits in, REVOKE clears "
         "exactly the named bits, the other database untouched) and, with the user's credentials, a SELECT of a seeded value is allowed iff "
         "READ and a /write is accepted iff WRITE on each database (basic auth; URL and bearer once per state); after a visibility barrier "
         "exactly the probe points the model allows are stored; a REVOKE of unheld privileges must leave the reference observation of its "
         "state; GRANT/REVOKE ALL PRIVILEGES TO/FROM u (administrator flag) in 3 database states keeps the database privileges and the "
         "per-database rules. Thorough: three databases (125 states x 24 transitions) and all 6400 two-statement sequences. A generator puts a foreign database into every source "
         "position the grammar offers (plain, list, regex, each side of every join spelling with measurement and sub-query operands, "
         "sub-query depth 1-2, union arms, CTE, INTO target/source, SHOW ... ON / FROM); the needed privilege there comes from a "
         "reflection walk over the parsed AST (every Measurement node), not from RequiredPrivileges. Exhaustive over the finite table; "
         "statement types and Source node types without a parseable example are listed as uncovered.",
    note="Trusts: the digest observes every effect (SHOW statements, raw rows of the fixture databases, login/write probes); the rule table "
         "that assigns a needed privilege to non-/query routes and the floor table for statements (c19.py); one example per statement type. "
         "Not covered: arrow-flight port, ts-meta/ts-store HTTP ports, TLS/white-list, user lock-out timing, rwuser accounts, log-store "
         "reads with stored records (records cannot be written in this environment); the privilege machine of rwuser accounts and of more than "
         "one user at a time. Known findings on the unchanged tree: /debug/pprof anonymous, log-store management API without "
         "authorisation, GRANT READ|WRITE overwrites the held privilege of that database instead of adding to it (POST /failpoint and "
         "POST /api/v1/tsdb/{tsdb} were found by this check and are fixed in /repo).",
)
