"""C15 (and, through c16.py, C16): explicit-state breadth-first exploration of the replicated catalogue on the
real raft FSM of ts-meta.  One round per depth: the Go workers execute the transitions (frontier state x menu
command, sharded deterministically) with the property's oracle and write the states they reach; this driver merges
them, keeps the shortest (then lexicographically least) path per new state and hands the next frontier out."""
import json, os, shutil, subprocess, sys, time
import checklib
from checklib import log

PKG = "app/ts-meta/meta"
# map-order adversary: the non-test files of these packages are replaced (overlay) by copies in which every range
# over a map with an ordered key type asks verifkit.MapIter for the iteration order (ovgen/maporder)
MAPORDER_PKGS = ["lib/util/lifted/influx/meta", "app/ts-meta/meta"]
MAPORDER_CACHE = os.path.join(checklib.VERIF, ".build", "C15", "maporder")
DEPTH = {"quick": 3, "thorough": 4}
DEADLINE = {"quick": 1200, "thorough": 2700}  # quick: ~100 s CPU-bound on an idle 16-core machine; the margin is for a loaded one
# rounds from this depth on expand only the states whose shortest path consists of core-alphabet commands
CORE_FROM = {"quick": 99, "thorough": 4}
NROOTS = 5  # c15Roots(): one worker per root in round 0

RULE = {
    "C15": "breadth-first exploration of canonical catalogue states (complete sorted dump of what Data.MarshalBinary persists, "
           "deletion stamps as set/unset, Term/Index excluded) from 5 roots; every transition = replay of seed + shortest path + 1 "
           "command of the menu on fresh stores through (*storeFSM).Apply, compared against (i) a second instance fed the same log "
           "and (ii) one instance per cut position restored from Snapshot()->Persist()->Restore() that applies the rest; "
           "map-order adversary: every range over a map (ordered key type) in lib/util/lifted/influx/meta and app/ts-meta/meta is "
           "rewritten (overlay, go/types) to take its order from the harness - the reference instance visits keys ascending, the "
           "second replica and every restored node descending, a third replica in the runtime's order; "
           "distinct_nontrivial = distinct (pre-state, command) pairs whose command changes the catalogue",
    "C16": "same state graph as C15; every transition = replay of seed + shortest path + 1 command on a fresh store, executed twice: "
           "all rewritten map ranges ascending (defines the state graph) and descending; the "
           "well-formedness invariants are evaluated on the live meta.Data before and after the command (violations the command "
           "introduces are reported), failed commands must leave the dump unchanged, ids newly handed out must never have been "
           "seen earlier on the path; distinct_nontrivial = distinct (pre-state, command) pairs whose command changes the catalogue",
}
ASSUME = {
    "C15": ["the canonical dump is what Data.MarshalBinary persists; fields that are in memory only by design are compared only through "
            "their effect on later results/dumps within the depth bound",
            "state merging: two logs that lead to the same canonical dump are continued only once (from the shortest log)",
            "commands that call other services use the package's MockNetStorage; InsertFiles runs without SQLite",
            "map iteration order: only the two extreme orders (ascending / descending keys) plus whatever the runtime picks for the third "
            "replica are exercised, not all n! orders - a dependence that shows only for a middle element of a map with >= 3 entries "
            "being visited first is found by luck as before; only ranges in the two rewritten packages are controlled (131 sites, maps "
            "with non-ordered key types would be left alone: none exist there); order dependence through other means "
            "(reflect.MapKeys, maps.Keys, protobuf map fields encoded by the library) is not controlled",
            "the worker is single threaded; the map order mode is process global and switched around every Apply/Snapshot/Restore of "
            "the respective instance; the only goroutine the FSM starts (ApplyUpdateReplication's leadership transfer) ranges over no map"],
    "C16": ["state merging on the canonical dump (see C15); the ghost set of ids is carried along the shortest path only, complemented by "
            "the per-state checks id <= counter and counter monotone",
            "shards of deleted groups / shards marked deleted are not required to have an index or owner partitions",
            "'duration-aligned' is checked as: range non-empty, pairwise disjoint, sorted (older groups keep the alignment of the duration in force when they were created)",
            "map iteration order: each transition runs with ascending and with descending keys in every rewritten range (see C15); "
            "the state graph is the one of the ascending pass; a transition whose descending pass ends in another state is counted "
            "(transitions_whose_outcome_depends_on_map_order) and left to C15"],
}


def _read_next(reports_dir_files, last):
    out = {}
    fin = set()
    for p in reports_dir_files:
        if not os.path.exists(p):
            continue
        with open(p) as fh:
            for line in fh:
                line = line.rstrip("\n")
                if not line:
                    continue
                if last:
                    fin.add(line)
                    continue
                root, path, h, core = line.split("\t")
                # core-only paths first, then the least path (all paths of a round have the same length)
                key = (0 if core == "c" else 1, int(root), tuple(int(x) for x in path.split(",")) if path else ())
                if h not in out or key < out[h]:
                    out[h] = key
    return out, fin


def maporder_overlay(cid, repo=None):
    """Rewritten copies of MAPORDER_PKGS, generated from the tree under test into .build/C15/maporder/<key>/ (key =
    content hash of the sources: an unchanged tree costs one hash pass, ~0.1 s).  Returns (overlay entries, stats).
    Warm-up at setup time: python3 -c 'import sys; sys.path.insert(0,"/verif/lib"); sys.path.insert(0,"/verif/lib/checks"); import c15; c15.warm()'"""
    repo = repo or checklib.REPO
    t0 = time.time()
    gen = os.path.join(checklib.build_dir(cid), "maporder.bin")
    r = subprocess.run(["go", "build", "-o", gen, "./maporder"], cwd=os.path.join(checklib.VERIF, "ovgen"),
                       env=checklib.goenv(), stdout=subprocess.PIPE, stderr=subprocess.STDOUT, text=True)
    if r.returncode != 0:
        checklib.tool_error("maporder generator build failed:\n" + r.stdout)
    os.makedirs(MAPORDER_CACHE, exist_ok=True)
    r = subprocess.run([gen, "-repo", repo, "-out", MAPORDER_CACHE] + MAPORDER_PKGS, cwd=repo, env=checklib.goenv(),
                       stdout=subprocess.PIPE, stderr=subprocess.PIPE, text=True)
    if r.returncode != 0:
        checklib.tool_error("maporder generator failed:\n" + r.stderr[-4000:])
    d = json.loads(r.stdout)
    extra = {os.path.join(repo, rel): f for rel, f in d["files"].items()}
    for f in extra.values():
        if not os.path.exists(f):
            checklib.tool_error("maporder cache entry is incomplete: %s" % f)
    stats = {"cache_key": d["key"], "cache_hit": d["cached"], "generator_wall_s": round(d.get("gen_wall_s", 0), 2),
             "files_replaced": len(extra), "packages": {}}
    for pkg, st in d["stats"].items():
        stats["packages"][pkg] = {
            "range_statements": st["range_statements"], "range_by_operand_kind": st["range_by_operand_kind"],
            "map_range_sites_rewritten": st["map_range_sites_rewritten"],
            "map_range_sites_untouched": st["map_range_sites_untouched"],
            "untouched_sites": [{"pos": u["pos"], "func": u["func"], "map": u["map"], "reason": u["reason"]} for u in st["untouched_sites"] or []],
            "rewritten_forms": _count(u["form"] for u in st["rewritten_sites"] or []),
        }
    # keep the 8 most recently used cache entries (never one used within the last hour: a concurrent run may build from it)
    ents = []
    for n in os.listdir(MAPORDER_CACHE):
        q = os.path.join(MAPORDER_CACHE, n, "result.json")
        if os.path.exists(q):
            ents.append((os.path.getmtime(q), os.path.join(MAPORDER_CACHE, n)))
    for mt, q in sorted(ents, reverse=True)[8:]:
        if time.time() - mt > 3600:
            shutil.rmtree(q, ignore_errors=True)
    log("%s map-order adversary: %d range-over-map sites rewritten in %d files (%s, %.1fs)" % (
        cid, sum(p["map_range_sites_rewritten"] for p in stats["packages"].values()), len(extra),
        "cached" if d["cached"] else "generated in %.1fs" % d.get("gen_wall_s", 0), time.time() - t0))
    return extra, stats


def _count(it):
    out = {}
    for x in it:
        out[x] = out.get(x, 0) + 1
    return out


def warm():
    """bin/setup-time warm-up: generate the rewritten files and compile both test binaries into the Go build cache."""
    for cid in ("C15", "C16"):
        extra, _ = maporder_overlay(cid)
        ov = checklib.gen_overlay(cid, [PKG], extra, also=("C15",))
        checklib.go_test_build(cid, PKG, ov)


def explore(cid, tier, replay):
    t0 = time.time()
    adversary = os.environ.get("VERIF_MAPORDER", "1") != "0"
    ov_extra, mo_stats = maporder_overlay(cid) if adversary else (None, None)
    ov = checklib.gen_overlay(cid, [PKG], ov_extra, also=("C15",))
    menv = {"VERIF_MAPORDER": "1" if adversary else "0"}
    binp = checklib.go_test_build(cid, PKG, ov)
    scratch = checklib.scratch_root(cid)
    test = "TestVerif" + cid
    try:
        if replay:
            reps = checklib.run_workers(cid, binp, test, "quick", 1, 600, scratch, extra_env=dict(menv, VERIF_REPLAY=os.path.abspath(replay)))
            nv = sum(r.get("n_violations", 0) for r in reps)
            for r in reps:
                for v in r.get("violations") or []:
                    print("REPLAY-VIOLATION kind=%s key=%s\n  %s" % (v["kind"], v["key"], v["detail"][:2000]))
            print("replay: %s" % ("still fails" if nv else "passes"))
            return 1 if nv else 0
        depth = int(os.environ.get("VERIF_DEPTH", DEPTH[tier]))
        dl = int(os.environ.get("VERIF_DEADLINE_S", DEADLINE[tier]))
        nw = int(os.environ.get("VERIF_WORKERS", 16))
        core_from = int(os.environ.get("VERIF_CORE_FROM", CORE_FROM[tier]))
        reports, rounds = [], []
        visited = {}
        frontier = []
        complete = True
        for rnd in range(0, depth + 1):
            left = int(dl - (time.time() - t0))
            if left < 5:
                complete = False
                break
            rdir = os.path.join(scratch, "r%d" % rnd)
            os.makedirs(rdir, exist_ok=True)
            fpath, vpath = os.path.join(rdir, "frontier.tsv"), os.path.join(rdir, "visited.txt")
            with open(fpath, "w") as fh:
                for (root, path, h) in frontier:
                    fh.write("%d\t%s\t%s\n" % (root, ",".join(map(str, path)), h))
            with open(vpath, "w") as fh:
                for h in visited:
                    fh.write(h + "\n")
            last = rnd == depth
            env = {"GOGC": "400", "GOMAXPROCS": "2", "VERIF_ROUND": str(rnd), "VERIF_FRONTIER": fpath, "VERIF_VISITED": vpath, "VERIF_LAST": "1" if last else "0"}
            env.update(menv)
            n = NROOTS if rnd == 0 else nw
            tr = time.time()
            reps = checklib.run_workers(cid, binp, test, tier, n, left, rdir, extra_env=env)
            reports += reps
            new, fin = _read_next([os.path.join(rdir, "w%d" % i, "report.json.next") for i in range(n)], last)
            if last:
                fresh = [h for h in fin if h not in visited]
                for h in fresh:
                    visited[h] = None
                nnew = len(fresh)
                frontier = []
            else:
                fresh = sorted((k, h) for h, k in new.items() if h not in visited)
                frontier = [(k[1], k[2], h) for k, h in fresh if k[0] == 0 or rnd + 1 < core_from]
                for k, h in fresh:
                    visited[h] = k
                nnew = len(fresh)
            rounds.append({"depth": rnd, "transitions": sum(r.get("counters", {}).get("transitions", 0) for r in reps),
                           "new_states": nnew, "expanded_next": len(frontier), "wall_s": round(time.time() - tr, 1)})
            log("%s round %d: %s" % (cid, rnd, rounds[-1]))
            shutil.rmtree(rdir, ignore_errors=True)
            if not all(r.get("exhaustive", False) for r in reps):
                complete = False
                break
        menu = max([r.get("counters", {}).get("max_menu_commands", 0) for r in reports] or [0])
        extra = {"states": len(visited), "workers": nw, "rounds": rounds,
                 "bound": {"depth": depth, "roots": max([r.get("counters", {}).get("max_roots", 0) for r in reports] or [0]), "core_only_prefixes_from_depth": core_from if core_from <= depth else None, "menu_commands": menu, "completed_all_rounds": complete}}
        for r in reports:
            r.get("counters", {}).pop("states", None)
        if adversary:
            ndesc = sum(r.get("counters", {}).get("map_ranges_2plus_entries_descending", 0) for r in reports)
            nasc = sum(r.get("counters", {}).get("map_ranges_2plus_entries_ascending", 0) for r in reports)
            if ndesc == 0 or nasc == 0:
                checklib.tool_error("map-order adversary is on but no rewritten range statement ran in both orders (asc %d, desc %d)" % (nasc, ndesc))
            mo_stats["orders"] = "reference instance ascending keys; second replica and restored nodes descending keys; third replica runtime order" \
                if cid == "C15" else "every transition executed twice: ascending and descending keys"
            extra["map_order_adversary"] = mo_stats
        else:
            extra["map_order_adversary"] = None
        rc = checklib.finish(cid, tier, "model_checking", RULE[cid], reports, t0, ASSUME[cid], extra_cov=extra, model=True)
        if not complete:
            import json
            p = os.path.join(checklib.OUTROOT, "evidence", cid + ".json")
            ev = json.load(open(p))
            ev["coverage"]["exhaustive"] = False
            json.dump(ev, open(p, "w"), indent=1)
        return rc
    finally:
        shutil.rmtree(scratch, ignore_errors=True)


def run(tier, replay):
    return explore("C15", tier, replay)


CLAIMED = True
MANIFEST = dict(
    level="model_checking",
    engine="seqx (explicit-state BFS with state merging on the real FSM)",
    technique="explicit-state breadth-first model checking of the real ts-meta raft FSM: every command of a 203-entry menu (all 66 "
              "applyFunc entries, valid/duplicate/unknown/absent arguments) from 5 seeded catalogues (one of them with two of everything, so "
              "that every map a command ranges over has >= 2 entries) to depth 3 (quick) / "
              "depth 3 plus depth 4 from the states reached by core-alphabet paths (thorough); each transition replayed on fresh stores and "
              "compared with a second replica and with snapshot->persist->restore at every cut position; map-order adversary: the 131 "
              "range-over-map statements of the two meta packages are rewritten at check time (go/types, overlay) so that the reference "
              "visits keys ascending and the second replica / restored nodes descending",
    text="All command sequences up to the depth bound (merged on the canonical catalogue dump) are applied through (*storeFSM).Apply to "
         "independent stores that range over their maps in opposite key orders and, for every cut position, to a store restored from "
         "Snapshot/Persist/Restore (also in the opposite order); results and complete sorted dumps must be equal.",
    note="Trusts: the canonical dump (what MarshalBinary persists) determines all futures; of the n! iteration orders of a map only "
         "ascending, descending and one runtime-chosen order are exercised; wall-clock deletion stamps compared as set/unset.",
)
