"""C17 — replication log store honours the Raft storage contract, across reopen and process death.

Two test binaries of lib/raftlog are built from the current tree:
  count: lib/raftlog/log.go replaced (overlay) by a copy in which the per-file entry limit `maxNumEntries`
         is shrunk to 4, so that file rotation is reached by short histories (main mode, both tiers);
  size : unmodified constants; 11 MiB payloads reach the 32 MiB size rotation (thorough only).
"""
import json, os, re, shutil, sys, time
import checklib as L

PKG = "lib/raftlog"
TEST = "TestVerifC17"
HOOKS = ["lib/raftlog", "lib/fileops"]
SHRUNK = 4

RULE = ("every sequence of abstract operations {Save(batch: start = last+1-k, size 1|3, same/next term, with hard state), "
        "Save(hard state), CreateSnapshot(first|mid|last|last+1|first-1), DeleteBefore(mid|last|last+1), close+reopen} up to the "
        "tier's length is run on a fresh directory with etcd raft MemoryStorage as reference and ALL contract queries compared "
        "after every step (no-op and inapplicable steps cut the subtree); crash phases additionally reopen a copy of the "
        "directory taken before every intercepted file-system mutation of the last operation. evaluations = executed "
        "sequences; distinct_nontrivial = distinct concrete histories (mode, file access type, ops) containing at least one "
        "of: conflicting/overlapping append, file rotation, compaction that removed a file, reopen")
ASSUMPTIONS = [
    "go.etcd.io/etcd/raft/v3 MemoryStorage (v3.5.10, the version the repo depends on) is the meaning of the Raft storage contract",
    "callers respect the contract's preconditions: appended batches are contiguous and start in [first, last+1]; snapshots are taken at increasing indexes inside the log",
    "failure model of the crash part: the process dies, the OS survives (fsync has no observable effect and is skipped); a write(2) can be cut only at a page boundary of the file",
    "count mode: maxNumEntries shrunk from 30000 to 4 by an overlay copy of lib/raftlog/log.go; nothing else in the package is changed",
]


def shrink_overlay(cid, tier):
    """Rewritten copy of the file that defines maxNumEntries; fails loudly if the constant is not found."""
    src_dir = os.path.join(L.REPO, PKG)
    rx = re.compile(r"^(\s*maxNumEntries\s*=\s*)(\d+)(\b.*)$", re.M)
    found = []
    for fn in sorted(os.listdir(src_dir)):
        if not fn.endswith(".go") or fn.endswith("_test.go"):
            continue
        text = open(os.path.join(src_dir, fn)).read()
        if rx.search(text):
            found.append((fn, text))
    if len(found) != 1:
        # spelled differently in the tree under test: the count-rotation build cannot be made; not a verdict (see run())
        L.log("C17: expected exactly one non-test file of %s defining the constant maxNumEntries, found %d (%s)"
              % (PKG, len(found), ", ".join(f for f, _ in found)))
        return None
    fn, text = found[0]
    new, n = rx.subn(lambda m: "%s%d%s" % (m.group(1), SHRUNK, m.group(3)), text, count=1)
    if n != 1 or new == text:
        L.log("C17: could not rewrite maxNumEntries in %s" % fn)
        return None
    out = os.path.join(L.build_dir(cid), "shrunk_" + fn)
    with open(out, "w") as fh:
        fh.write(new)
    return {os.path.join(src_dir, fn): out}


SPEC = dict(pkg=PKG, test=TEST, level="exploration", workers=16, hooks=HOOKS, rule=RULE, assumptions=ASSUMPTIONS,
            overlay_extra=shrink_overlay, deadline={"quick": 240, "thorough": 2100})

CLAIMED = True
MANIFEST = dict(
    level="exploration",
    engine="seqx+crashfs",
    technique="bounded exhaustive history exploration of the real on-disk raft log (fresh directory per history, all contract "
              "queries after every step) with etcd raft MemoryStorage as differential reference, plus fault enumeration: a "
              "crash image before every intercepted file-system mutation of the last operation, reopened with the real Init",
    text="Every history over {Save(batch start=last+1-k, k<=5 (6 thorough), size 1|3, same or next term, with hard state), Save(hard "
         "state), CreateSnapshot(first|mid|last|last+1|first-1), DeleteBefore(mid|last|last+1), close+reopen} of length <= 4 (quick) / "
         "<= 5 full + 6 on a reduced alphabet (thorough) is executed on the real RaftDiskStorage (both file access types), in a "
         "build where the per-file entry limit is 4 so that rotation, conflicts into rotated files and whole-file compaction are "
         "reached; thorough adds the unmodified constants with 11 MiB payloads (size rotation). After every step FirstIndex, "
         "LastIndex, Term(i) on [first-1,last+1] and at the snapshot index, Entries(lo,hi,max) for all lo<=hi in that window x "
         "max in {0, one entry, unlimited} with payload bytes, Snapshot and InitialState are compared with etcd's MemoryStorage fed "
         "the same operations. Crash part: for histories of length <= 2 (quick) / <= 3 (thorough) the directory is copied before "
         "every file-system mutation of the last operation (and at page boundaries inside large writes), each image is reopened "
         "with the real Init and must show the state before the operation or one of its unacknowledged partial outcomes.",
    note="Exhaustive only within the stated alphabet, lengths and the shrunk entry limit (slot table 4 entries = one page: a wipe "
         "torn across pages of the real 30000-slot table is not reached). DeleteBefore/recovery may move the first index anywhere "
         "in the legal window and the reference is aligned to it; size-limited Entries must be a non-empty prefix; the oracle's own "
         "reads are part of the history (they warm the store's caches). Trusts: etcd MemoryStorage as the contract, the fileops "
         "interception point, process-death failure model (no power loss). Seven violation kinds (three root causes) of the unchanged tree are recorded "
         "as known findings with proposed repairs in /verif/fixes/C17-*.diff.",
)


def build(cid, mode):
    extra = shrink_overlay(cid, None) if mode == "count" else None
    if mode == "count" and extra is None:
        return None
    ov = L.gen_overlay(cid, HOOKS, extra)
    # gen_overlay writes one overlay.json per check id; keep one per mode
    ovm = os.path.join(L.build_dir(cid), "overlay-%s.json" % mode)
    shutil.copy(ov, ovm)
    return L.go_test_build(cid, PKG, ovm, out=os.path.join(L.build_dir(cid), "t-%s.bin" % mode))


def run(tier, replay):
    cid = "C17"
    t0 = time.time()
    if replay:
        case = json.load(open(replay)).get("replay") or {}
        mode = case.get("mode", "count")
        binp = build(cid, mode)
        if binp is None:
            L.tool_error("replay of a count-rotation case needs the shrunk maxNumEntries, which cannot be built for this tree")
        scratch = L.scratch_root(cid)
        try:
            reps = L.run_workers(cid, binp, TEST, "quick", 1, 900, scratch,
                                 extra_env={"VERIF_REPLAY": os.path.abspath(replay), "VERIF_C17_MODE": mode})
        finally:
            shutil.rmtree(scratch, ignore_errors=True)
        nv = sum(r.get("n_violations", 0) for r in reps)
        for r in reps:
            for v in r.get("violations") or []:
                print("REPLAY-VIOLATION kind=%s key=%s\n  %s" % (v["kind"], v["key"], v["detail"][:3000]))
        print("replay: %s" % ("still fails" if nv else "passes"))
        return 1 if nv else 0

    dl = int(os.environ.get("VERIF_DEADLINE_S", SPEC["deadline"][tier]))
    nw = SPEC["workers"]
    reports = []
    scratch = L.scratch_root(cid)
    try:
        bin_count = build(cid, "count")
        # without the shrunk constant only the unmodified build can run (size rotation with 11 MiB payloads), in every tier
        bin_size = build(cid, "size") if (tier == "thorough" or bin_count is None) else None
        if bin_size:
            # size mode first: 11 MiB payloads, few histories, memory hungry -> fewer workers
            dls = min(dl, 600)
            reports += L.run_workers(cid, bin_size, TEST, tier, 8, dls, os.path.join(scratch, "size"),
                                     extra_env={"VERIF_C17_MODE": "size"})
            L.log("size mode done in %.0fs" % (time.time() - t0))
        if bin_count is not None:
            reports += L.run_workers(cid, bin_count, TEST, tier, nw, dl, os.path.join(scratch, "count"),
                                     extra_env={"VERIF_C17_MODE": "count"})
        else:
            reports.append({"evaluations": 0, "exhaustive": False, "counters": {"count_mode_skipped": 1},
                            "notes": ["count-rotation mode skipped: constant maxNumEntries not found in lib/raftlog"]})
    finally:
        shutil.rmtree(scratch, ignore_errors=True)
    return L.finish(cid, tier, SPEC["level"], RULE, reports, t0, ASSUMPTIONS,
                    extra_cov={"modes": ["count(maxNumEntries=%d)" % SHRUNK] + (["size(unmodified constants)"] if tier == "thorough" else [])})
