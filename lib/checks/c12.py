SPEC = dict(
    pkg="lib/util/lifted/influx/influxql",
    test="TestVerifC12",
    level="exploration",
    workers=16,
    deadline={"quick": 240, "thorough": 1800},
    rule="every expression text of the grammar (atoms x binary operators x parenthesisation, depth<=3) is parsed; "
         "accepted texts are printed with String() and re-parsed; distinct_nontrivial = distinct canonical trees "
         "(typed literals, ParenExpr removed) among accepted texts",
    assumptions=["ParseExpr/String() are the functions used by processor_codec.go to ship conditions",
                 "structural equality modulo ParenExpr nodes is the meaning of 'same expression tree'"],
)
