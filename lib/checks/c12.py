SPEC = dict(
    pkg="lib/util/lifted/influx/influxql",
    test="TestVerifC12",
    level="exploration",
    workers=16,
    deadline={"quick": 240, "thorough": 1800},
    rule="every expression text of the grammar (atoms x binary operators x parenthesisation, depth<=3) is parsed; "
         "accepted texts are printed with String() and re-parsed; distinct_nontrivial = distinct canonical trees "
         "(typed literals, ParenExpr removed) among accepted texts",
    assumptions=["ParseExpr/String() are the functions used by processor_codec.go to ship conditions",
                 "structural equality modulo ParenExpr nodes is the meaning of 'same expression tree'"],
)

# Set CLAIMED = True once the check is clean on the unchanged tree (exit 0, KNOWN-FINDING lines allowed).
CLAIMED = False
MANIFEST = dict(
    level="exploration",
    engine="enumx",
    technique="bounded exhaustive enumeration of expression texts (grammar depth <= 3) with print/re-parse differential oracle on the real parser and printer",
    text="Every expression text of a finite grammar (all binary operators, parenthesisations, typed literal alphabet) up to depth 3 is "
         "parsed, printed and re-parsed by the real code; trees are compared structurally with literal types. Exhaustive within the grammar bound.",
    note="Trusts: Go runtime; the canonical tree printer of the harness; the grammar covers only the listed atoms/operators.",
)
