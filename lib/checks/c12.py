"""C12 — a query shipped to the storage nodes is the query that was planned.

Three overlaid in-package harnesses (three test binaries), one verdict:
  influxql  hooks/lib/util/lifted/influx/influxql/c12_test.go (+ c12_lib.go)  TestVerifC12
            every expression text of the grammar -> yacc / hand parser -> String() -> ParseExpr / ParseFields / re-plan
  query     hooks/lib/util/lifted/influx/query/c12_test.go                     TestVerifC12Options
            ProcessorOptions.MarshalBinary/UnmarshalBinary: expressions, every wire member, planned statements
  executor  hooks/engine/executor/c12_test.go                                  TestVerifC12Executor
            chunk codec, plan codec, QuerySchema / ExprOptions codec, RemoteQuery message
"""
import json, os, shutil, time

import checklib

CID = "C12"
HOOKS = ["lib/util/lifted/influx/influxql", "lib/util/lifted/influx/query", "engine/executor"]
# (name, package, test function, binary name)
BINARIES = [
    ("influxql", "lib/util/lifted/influx/influxql", "TestVerifC12", "t-influxql.bin"),
    ("query", "lib/util/lifted/influx/query", "TestVerifC12Options", "t-query.bin"),
    ("executor", "engine/executor", "TestVerifC12Executor", "t-executor.bin"),
]
DEADLINE = {"quick": 240, "thorough": 2400}
WORKERS = 16
LEVEL = "exploration"
RULE = ("influxql: every expression text of the grammar (full literal alphabet x 19 binary operators x unary minus/plus/parentheses, "
        "2 operands over the full alphabet, 3 operands over 13 atoms with all 3 parenthesisations, 4 operands with all 11 "
        "parenthesisations, comparisons joined by AND/OR up to 4 operands) is offered to the yacc parser (WHERE clause, field list) and to "
        "the hand-written parser; accepted texts are printed and re-parsed by the store-side parser; distinct_nontrivial = distinct "
        "canonical typed trees (ParenExpr removed) of accepted texts, plus distinct option objects / statements / chunks / plans / "
        "field lists / RPC messages pushed through the codecs of lib/util/lifted/influx/query and engine/executor")
ASSUMPTIONS = [
    "the yacc parser (NewYyParser, as called by the HTTP handler) is what plans a statement; ParseExpr, ParseStatement (hybridqp.ParseFields), "
    "ParseSortFields are what the store uses to read shipped text back (processor_codec.go, engine/hybridqp)",
    "structural equality modulo ParenExpr nodes, literal types included, is the meaning of 'same expression tree'",
    "the pooled parser behind influxql.ParseExpr keeps two scanner flags of its previous user; the influxql harness sets them explicitly "
    "(both values wherever they can matter) instead of using the pool, the codec harnesses skip printed texts that begin with a regex literal",
    "members of ProcessorOptions / Measurement that have no counterpart in the protobuf message are not shipped by design and are not compared "
    "(listed in coverage.notes)",
    "fill values 5 and 5.0, nil and empty slices, and a nil and a zero fill value are the same option value",
]


def _which_binary(replay_path):
    rc = json.load(open(replay_path)).get("replay") or {}
    if rc.get("door"):
        return BINARIES[0]
    if rc.get("part") in ("exprs", "members", "sources", "statements"):
        return BINARIES[1]
    return BINARIES[2]


def run(tier, replay):
    t0 = time.time()
    ov = checklib.gen_overlay(CID, HOOKS)
    bdir = checklib.build_dir(CID)
    scratch = checklib.scratch_root(CID)
    try:
        if replay:
            name, pkg, test, binname = _which_binary(replay)
            binp = checklib.go_test_build(CID, pkg, ov, out=os.path.join(bdir, binname))
            reps = checklib.run_workers(CID, binp, test, "quick", 1, 600, scratch,
                                        extra_env={"VERIF_REPLAY": os.path.abspath(replay)})
            nv = sum(r.get("n_violations", 0) for r in reps)
            for r in reps:
                for v in r.get("violations") or []:
                    print("REPLAY-VIOLATION kind=%s key=%s\n  %s" % (v["kind"], v["key"], v["detail"][:1500]))
            print("replay: %s" % ("still fails" if nv else "passes"))
            return 1 if nv else 0

        deadline = int(os.environ.get("VERIF_DEADLINE_S", DEADLINE[tier]))
        only = os.environ.get("C12_ONLY")  # development aid: run one harness
        reports = []
        built = []
        for name, pkg, test, binname in BINARIES:
            if only and name != only:
                continue
            built.append((name, test, checklib.go_test_build(CID, pkg, ov, out=os.path.join(bdir, binname))))
        wall = {}
        for name, test, binp in built:
            t1 = time.time()
            left = deadline  # per harness; builds and the other harnesses do not eat into it
            sub = os.path.join(scratch, name)
            os.makedirs(sub, exist_ok=True)
            reports += checklib.run_workers(CID, binp, test, tier, WORKERS, left, sub)
            wall[name] = round(time.time() - t1, 1)
            checklib.log("%s workers done in %.1fs" % (name, wall[name]))
        # interleave the harnesses so that the evidence samples show cases of each of them
        per = [reports[i:i + WORKERS] for i in range(0, len(reports), WORKERS)]
        reports = [r for group in zip(*per) for r in group] if len(set(map(len, per))) == 1 else reports
        return checklib.finish(CID, tier, LEVEL, RULE, reports, t0, ASSUMPTIONS,
                               extra_cov={"harness_wall_s": wall, "bound": {
                                   "operands": 4, "atoms_full": 88, "atoms_3_operands": 13,
                                   "atoms_4_operands": 4 if tier == "quick" else 6,
                                   "operators_4_operands": 9 if tier == "quick" else 19,
                                   "chunk_rows": 4, "plan_chain": 2 if tier == "quick" else 3}})
    finally:
        shutil.rmtree(scratch, ignore_errors=True)


# Set CLAIMED = True once the check is clean on the unchanged tree (exit 0, KNOWN-FINDING lines allowed).
CLAIMED = True
MANIFEST = dict(
    level="exploration",
    engine="enumx",
    technique="bounded exhaustive enumeration of expression texts (finite grammar, <= 4 operands, every parenthesisation) through both real "
              "parsers, the real printer and the real store-side re-parsers, and of option / plan / chunk / RPC objects through the real codecs; "
              "differential oracle: canonical typed tree / member-wise equality of decoded vs original",
    text="Every expression text of a finite grammar (all binary and unary operators, parentheses at every position, typed literal alphabet "
         "including quoted identifiers, escaped strings, 64-bit integer bounds, integral and huge floats, durations, regexes with slashes, calls "
         "of arity 0-2, ::type casts) is planned by the real yacc parser and by the hand-written parser, printed, and read back the way the "
         "store does (ParseExpr, ParseFields, ParseSortFields); the same expressions and every wire member of ProcessorOptions, planned "
         "statements, plan operator chains, QuerySchema field lists, RemoteQuery messages and all chunks with <= 4 rows (every column type, "
         "every null pattern) go through Marshal/Unmarshal; decoded must equal planned. Exhaustive within the stated bounds.",
    note="Trusts: Go runtime; the harness's canonical tree printer and its own operator-precedence table; accessor-level observation of chunks "
         "and plans. Not covered: expressions deeper than 4 operands, members of the options struct that are not in the wire message, plan "
         "operators outside the chain menu (joins, CTE, graph), statement kinds other than SELECT.",
)
