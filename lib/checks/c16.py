"""C16 — catalogue stays well-formed.  Same state graph and the same Go harness as C15 (hooks/app/ts-meta/meta/c15_*.go,
test TestVerifC16); the driver is lib/checks/c15.py:explore."""
import importlib.util, os

_p = os.path.join(os.path.dirname(os.path.abspath(__file__)), "c15.py")
_spec = importlib.util.spec_from_file_location("check_c15_shared", _p)
_c15 = importlib.util.module_from_spec(_spec)
_spec.loader.exec_module(_c15)


def run(tier, replay):
    return _c15.explore("C16", tier, replay)


CLAIMED = True
MANIFEST = dict(
    level="model_checking",
    engine="seqx (explicit-state BFS with state merging on the real FSM)",
    technique="explicit-state breadth-first model checking of the real ts-meta raft FSM (same graph as C15); in every transition the "
              "well-formedness invariants are evaluated on the live meta.Data before and after the command; every transition is executed "
              "twice, with all map ranges of the two meta packages in ascending and in descending key order (map-order adversary of C15)",
    text="After every command of every sequence up to the depth bound: live shard groups per (policy, engine) disjoint, non-empty, sorted; "
         "shard-group/shard/index-group/index/measurement ids unique, never handed out twice, not above their counters; shards refer to "
         "existing indexes and owner partitions; default policy exists; a failed command leaves the dump unchanged.",
    note="Trusts: state merging on the canonical dump; the ghost id set is carried along shortest paths only; of all map iteration "
         "orders only ascending and descending keys are exercised.",
)
