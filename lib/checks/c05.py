"""C05 — replicated data survives the loss of a minority of store nodes.

Two overlaid in-package harnesses (two test binaries), one verdict:
  a  group   hooks/engine/c05_test.go                                  TestVerifC05
             3-replica group of real components in one synctest bubble: raftconn.RaftNode x3 over real raftlog directories, in-memory
             router instead of ISend, EngineImpl.startRaftNode / WriteToRaft / readCommitFromRaft / dealCommitData / readReplayForReplication,
             one real shard per replica; ALL role-based fault sequences up to the tier's length.
             lib/raftlog/log.go is replaced (overlay) by a copy whose per-file entry limit maxNumEntries is shrunk so that
             log-file rotation and whole-file truncation (DeleteBefore) are reached by short histories.
  b  master  hooks/lib/util/lifted/influx/meta/c05_test.go             TestVerifC05Master
             catalogue side: every sequence of node down/up, master re-selection and replication commands on one replica group of 3.
"""
import json, os, re, shutil, tempfile, time

import checklib

CID = "C05"
HOOKS = ["engine", "lib/fileops", "lib/raftconn", "lib/util/lifted/influx/meta"]
# (name, package, test function, binary name)
BINARIES = [
    ("a", "engine", "TestVerifC05", "t-engine.bin"),
    ("b", "lib/util/lifted/influx/meta", "TestVerifC05Master", "t-meta.bin"),
]
DEADLINE = {"quick": 200, "thorough": 2100}
WORKERS = 16
LEVEL = "fault_enumeration"
SHRUNK = 4  # entries per raft log file in the overlaid build (30000 in the repository)

RULE = ("(a) every sequence over the role-based event alphabet {W write next batch of the menu to the current raft leader, Wi write to the "
        "leader while it is cut off from its peers, Kl kill leader, Kf/Kg kill a follower, R restart the dead replica from its directories, "
        "Fl/Ff/Fg flush leader's / a follower's shard, T advance 1 min, E advance one election timeout} of length <= tier bound with at "
        "most one replica down, executed on three real replicas, oracle after every step and after a final convergence phase; "
        "evaluations = event sequences executed (+ catalogue sequences of part b); distinct_nontrivial = distinct sequences containing at "
        "least one kill and at least one acknowledged write, plus (b) distinct catalogue histories in which the master's node went down")
ASSUMPTIONS = [
    "failure model: the process dies, the OS survives (a killed replica restarts from a copy of its directories taken at the kill)",
    "events run to quiescence (testing/synctest): kills happen between raft message exchanges, not inside one",
    "time is virtual; election jitter comes from etcd raft's process-global PRNG, so events address replicas by role, not by id",
    "lib/raftlog maxNumEntries shrunk from 30000 to %d by an overlay copy of log.go; nothing else in the package is changed" % SHRUNK,
    "the harness stands in for the coordinator (writes go to the current raft leader) and for the meta service (all members reported alive "
    "to the log-truncation health check only while they are up)",
]


def shrink_overlay():
    """Rewritten copy of the raftlog file that defines maxNumEntries; fails loudly if the constant is not found."""
    pkg = "lib/raftlog"
    src_dir = os.path.join(checklib.REPO, pkg)
    rx = re.compile(r"^(\s*maxNumEntries\s*=\s*)(\d+)(\b.*)$", re.M)
    found = []
    for fn in sorted(os.listdir(src_dir)):
        if not fn.endswith(".go") or fn.endswith("_test.go"):
            continue
        text = open(os.path.join(src_dir, fn)).read()
        if rx.search(text):
            found.append((fn, text))
    if len(found) != 1:
        checklib.tool_error("C05: expected exactly one non-test file of %s defining maxNumEntries, found %d" % (pkg, len(found)))
    fn, text = found[0]
    new, n = rx.subn(lambda m: "%s%d%s" % (m.group(1), SHRUNK, m.group(3)), text, count=1)
    if n != 1 or new == text:
        checklib.tool_error("C05: could not rewrite maxNumEntries in %s" % fn)
    out = os.path.join(checklib.build_dir(CID), "shrunk_" + fn)
    with open(out, "w") as fh:
        fh.write(new)
    return {os.path.join(src_dir, fn): out}


def _scratch_root():
    """Scratch on tmpfs when there is room (the raft log pre-fills every file with 1 MiB of zeros: 3x cheaper in memory)."""
    if not (os.environ.get("VERIF_TMP") or os.environ.get("TMPDIR")):
        try:
            st = os.statvfs("/dev/shm")
            if st.f_bavail * st.f_frsize > 4 << 30:
                return tempfile.mkdtemp(prefix="verif-%s-" % CID, dir="/dev/shm")
        except OSError:
            pass
    return checklib.scratch_root(CID)


def _which_binary(replay_path):
    rc = json.load(open(replay_path)).get("replay") or {}
    return BINARIES[1] if rc.get("part") == "b" else BINARIES[0]


def run(tier, replay):
    t0 = time.time()
    ov = checklib.gen_overlay(CID, HOOKS, shrink_overlay())
    bdir = checklib.build_dir(CID)
    scratch = _scratch_root()
    try:
        if replay:
            name, pkg, test, binname = _which_binary(replay)
            binp = checklib.go_test_build(CID, pkg, ov, out=os.path.join(bdir, binname))
            reps = checklib.run_workers(CID, binp, test, "quick", 1, 600, scratch,
                                        extra_env={"VERIF_REPLAY": os.path.abspath(replay)})
            nv = sum(r.get("n_violations", 0) for r in reps)
            for r in reps:
                for v in r.get("violations") or []:
                    print("REPLAY-VIOLATION kind=%s key=%s\n  %s" % (v["kind"], v["key"], v["detail"][:3000]))
            print("replay: %s" % ("still fails" if nv else "passes"))
            return 1 if nv else 0

        deadline = int(os.environ.get("VERIF_DEADLINE_S", DEADLINE[tier]))
        only = os.environ.get("C05_ONLY")  # development aid: run one part (a|b)
        built = []
        for name, pkg, test, binname in BINARIES:
            if only and name != only:
                continue
            built.append((name, test, checklib.go_test_build(CID, pkg, ov, out=os.path.join(bdir, binname))))
        reports, wall = [], {}
        for name, test, binp in built:
            t1 = time.time()
            sub = os.path.join(scratch, name)
            os.makedirs(sub, exist_ok=True)
            dl = deadline if name == "a" else min(deadline, 600)
            reports += checklib.run_workers(CID, binp, test, tier, WORKERS, dl, sub, extra_env={"GOMAXPROCS": "2"})
            wall[name] = round(time.time() - t1, 1)
            checklib.log("part %s workers done in %.1fs" % (name, wall[name]))
        return checklib.finish(CID, tier, LEVEL, RULE, reports, t0, ASSUMPTIONS,
                               extra_cov={"harness_wall_s": wall,
                                          "bound": {"events": 4 if tier == "quick" else 6, "raftlog_entries_per_file": SHRUNK}})
    finally:
        shutil.rmtree(scratch, ignore_errors=True)


CLAIMED = False
MANIFEST = dict(level=LEVEL, engine="seqx+synctest", technique="", text="", note="")
