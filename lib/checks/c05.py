"""C05 — replicated data survives the loss of a minority of store nodes.

Two overlaid in-package harnesses (two test binaries), one verdict:
  a  group   hooks/engine/c05_test.go                                  TestVerifC05
             3-replica group of real components in one synctest bubble: raftconn.RaftNode x3 over real raftlog directories, in-memory
             router instead of ISend, EngineImpl.startRaftNode / WriteToRaft / readCommitFromRaft / dealCommitData / readReplayForReplication,
             one real shard per replica; ALL role-based fault sequences up to the tier's length.
             lib/raftlog/log.go is replaced (overlay) by a copy whose per-file entry limit maxNumEntries is shrunk so that
             log-file rotation and whole-file truncation (DeleteBefore) are reached by short histories.
  b  master  hooks/lib/util/lifted/influx/meta/c05_test.go             TestVerifC05Master
             catalogue side: every sequence of node down/up, master re-selection and replication commands on one replica group of 3.
"""
import json, os, re, shutil, tempfile, time

import checklib

CID = "C05"
HOOKS = ["engine", "lib/fileops", "lib/raftconn", "lib/util/lifted/influx/meta"]
# (name, package, test function, binary name)
BINARIES = [
    ("a", "engine", "TestVerifC05", "t-engine.bin"),
    ("b", "lib/util/lifted/influx/meta", "TestVerifC05Master", "t-meta.bin"),
]
DEADLINE = {"quick": 200, "thorough": 2100}
WORKERS = 16
LEVEL = "fault_enumeration"
SHRUNK = 4  # entries per raft log file in the overlaid build (30000 in the repository)

RULE = ("(a) every sequence over the role-based event alphabet {W write next batch of the menu to the current raft leader, Wi write to the "
        "leader while it is cut off from its peers, Wj five batches to the cut-off leader (more discarded entries than later leader changes, "
        "so that a real entry overwrites a discarded one), Kl kill leader, Kf/Kg kill a follower, R restart the dead replica from its directories, "
        "Fl/Ff/Fg flush leader's / a follower's shard, T advance 1 min, E advance one election timeout} of length <= tier bound with at "
        "most one replica down, executed on three real replicas, oracle after every step and after a final convergence phase; "
        "evaluations = event sequences executed (+ catalogue sequences of part b); distinct_nontrivial = distinct sequences containing at "
        "least one kill and at least one acknowledged write, plus (b) distinct catalogue histories in which the master's node went down")
ASSUMPTIONS = [
    "failure model: the process dies, the OS survives (a killed replica restarts from a copy of its directories taken at the kill)",
    "events run to quiescence (testing/synctest): kills happen between raft message exchanges, not inside one",
    "time is virtual; election jitter comes from etcd raft's process-global PRNG, so events address replicas by role, not by id",
    "lib/raftlog maxNumEntries shrunk from 30000 to %d by an overlay copy of log.go; nothing else in the package is changed" % SHRUNK,
    "the harness stands in for the coordinator (writes go to the current raft leader) and for the meta service (all members reported alive "
    "to the log-truncation health check only while they are up)",
]


def shrink_overlay(bid=CID):
    """Rewritten copy of the raftlog file that defines maxNumEntries; fails loudly if the constant is not found."""
    pkg = "lib/raftlog"
    src_dir = os.path.join(checklib.REPO, pkg)
    rx = re.compile(r"^(\s*maxNumEntries\s*=\s*)(\d+)(\b.*)$", re.M)
    found = []
    for fn in sorted(os.listdir(src_dir)):
        if not fn.endswith(".go") or fn.endswith("_test.go"):
            continue
        text = open(os.path.join(src_dir, fn)).read()
        if rx.search(text):
            found.append((fn, text))
    if len(found) != 1:
        # spelled differently in the tree under test: run with the unmodified constant (log files never rotate in these short
        # histories); not a verdict, the evidence says exhaustive:false
        checklib.log("C05: expected exactly one non-test file of %s defining maxNumEntries, found %d - constant not shrunk" % (pkg, len(found)))
        return None
    fn, text = found[0]
    new, n = rx.subn(lambda m: "%s%d%s" % (m.group(1), SHRUNK, m.group(3)), text, count=1)
    if n != 1 or new == text:
        checklib.log("C05: could not rewrite maxNumEntries in %s - constant not shrunk" % fn)
        return None
    out = os.path.join(checklib.build_dir(bid), "shrunk_" + fn)
    with open(out, "w") as fh:
        fh.write(new)
    return {os.path.join(src_dir, fn): out}


def _scratch_root():
    """Scratch on tmpfs when there is room (the raft log pre-fills every file with 1 MiB of zeros: 3x cheaper in memory)."""
    if not (os.environ.get("VERIF_TMP") or os.environ.get("TMPDIR")):
        try:
            st = os.statvfs("/dev/shm")
            if st.f_bavail * st.f_frsize > 4 << 30:
                return tempfile.mkdtemp(prefix="verif-%s-" % CID, dir="/dev/shm")
        except OSError:
            pass
    return checklib.scratch_root(CID)


UNITS = {"quick": 64, "thorough": 512}          # work units of part a (short-lived worker processes)
UNIT_TIMEOUT = {"quick": 300, "thorough": 900}  # wall seconds after which a unit counts as hung


def run_units(binp, test, tier, deadline_s, scratch):
    """Part a: UNITS[tier] worker processes, WORKERS at a time. Unit u executes the u-th contiguous block of the sequence
    list (shortest sequences first). A unit that hangs (Go 1.25.0 runtime, see notes/C05.md) or dies is started once more;
    units not started before the deadline are reported as not covered (exhaustive: false)."""
    import array, subprocess
    units = int(os.environ.get("C05_UNITS", UNITS[tier]))
    t0 = time.time()
    seed = os.environ.get("VERIF_SEED", "0")
    todo = list(range(units))
    tries = {u: 0 for u in todo}
    running = {}  # unit -> (proc, wdir, logfile, start)
    reports, not_started, retried, gave_up = {}, [], [], []

    def start(u):
        wdir = os.path.join(scratch, "u%d-%d" % (u, tries[u]))
        os.makedirs(wdir, exist_ok=True)
        env = checklib.goenv()
        left = max(30, int(deadline_s - (time.time() - t0)))
        env.update(VERIF_TIER=tier, VERIF_SEED=seed, VERIF_SHARD=str(u), VERIF_NSHARD=str(units),
                   VERIF_OUT=os.path.join(wdir, "report.json"), VERIF_SCRATCH=os.path.join(wdir, "s"),
                   VERIF_DEADLINE_S=str(left), VERIF_REPO=checklib.REPO, TMPDIR=wdir, GOMAXPROCS="2")
        cmd = ["bash", "-c", 'ulimit -v %d; exec "$@"' % (24 * 1024 * 1024), "w",
               binp, "-test.run", "^" + test + "$", "-test.timeout", "0", "-test.count", "1"]
        lf = open(os.path.join(wdir, "log.txt"), "w")
        tries[u] += 1
        running[u] = (subprocess.Popen(cmd, cwd=wdir, env=env, stdout=lf, stderr=subprocess.STDOUT), wdir, lf, time.time())

    def fail(u, wdir, why):
        keep = os.path.join(checklib.build_dir(CID), "failed-unit-%d.log" % u)
        shutil.copy(os.path.join(wdir, "log.txt"), keep)
        for q in running.values():
            if q[0].poll() is None:
                q[0].kill()
        tail = open(keep, errors="replace").read()[-4000:]
        checklib.tool_error("unit %d of C05 part a %s twice (log kept at %s):\n%s" % (u, why, keep, tail))

    while todo or running:
        while todo and len(running) < WORKERS:
            u = todo.pop(0)
            if tries[u] == 0 and time.time() - t0 > deadline_s:
                not_started.append(u)
                continue
            start(u)
        time.sleep(0.5)
        for u in list(running):
            p, wdir, lf, st = running[u]
            rc = p.poll()
            hung = rc is None and time.time() - st > UNIT_TIMEOUT[tier]
            if rc is None and not hung:
                continue
            if hung:
                p.kill()
                p.wait()
            lf.close()
            del running[u]
            rp = os.path.join(wdir, "report.json")
            if not hung and rc == 0 and os.path.exists(rp):
                rep = json.load(open(rp))
                a = array.array("Q")
                if os.path.exists(rp + ".distinct"):
                    with open(rp + ".distinct", "rb") as fh:
                        a.frombytes(fh.read())
                rep["_distinct"] = set(a)
                reports[u] = rep
                shutil.rmtree(wdir, ignore_errors=True)
                continue
            why = "hung (no exit after %d s)" % UNIT_TIMEOUT[tier] if hung else "exited %s" % rc
            if tries[u] >= 2:
                if hung or rc == 3:
                    # no exit within the unit's time budget / the worker's own no-progress watchdog, twice: on a loaded
                    # machine a unit of long sequences can simply be too slow. Not a verdict and not worth losing the
                    # other units' results: the unit is reported as not covered (exhaustive: false)
                    keep = os.path.join(checklib.build_dir(CID), "failed-unit-%d.log" % u)
                    shutil.copy(os.path.join(wdir, "log.txt"), keep)
                    checklib.log("unit %d %s twice; reported as not covered (log kept at %s)" % (u, why, keep))
                    gave_up.append(u)
                    shutil.rmtree(wdir, ignore_errors=True)
                    continue
                fail(u, wdir, why)
            checklib.log("unit %d %s; starting it once more" % (u, why))
            retried.append(u)
            todo.insert(0, u)
    out = [reports[u] for u in sorted(reports)]
    if not_started and out:
        out[0]["notes"] = (out[0].get("notes") or [])
        out[0]["notes"].append(
            "deadline: %d of %d work units (the longest sequences) were not started: units %d..%d" % (
                len(not_started), units, min(not_started), max(not_started)))
        out[0]["exhaustive"] = False
    if gave_up and out:
        out[0]["notes"] = (out[0].get("notes") or [])
        out[0]["notes"].append("%d of %d work units did not finish within their time budget twice and are not covered: units %s" % (
            len(gave_up), units, ",".join(map(str, sorted(gave_up)))))
        out[0]["exhaustive"] = False
        out[0]["counters"] = (out[0].get("counters") or {})
        out[0]["counters"]["units_not_covered_after_two_timeouts"] = len(gave_up)
    if out:
        out[0]["counters"] = (out[0].get("counters") or {})
        out[0]["counters"]["units_restarted_after_hang_or_crash"] = len(retried)
    return out


def _which_binary(replay_path):
    rc = json.load(open(replay_path)).get("replay") or {}
    return BINARIES[1] if rc.get("part") == "b" else BINARIES[0]


def run(tier, replay):
    t0 = time.time()
    # development aid: C05_BUILD=<id> keeps overlay and binaries of parallel runs (other tree, other part) apart
    bid = os.environ.get("C05_BUILD", CID)
    shrunk = shrink_overlay(bid)
    ov = checklib.gen_overlay(bid, HOOKS, shrunk, also=(CID,))
    bdir = checklib.build_dir(bid)
    scratch = _scratch_root()
    try:
        if replay:
            name, pkg, test, binname = _which_binary(replay)
            binp = checklib.go_test_build(CID, pkg, ov, out=os.path.join(bdir, binname))
            reps = checklib.run_workers(CID, binp, test, "quick", 1, 600, scratch,
                                        extra_env={"VERIF_REPLAY": os.path.abspath(replay)})
            nv = sum(r.get("n_violations", 0) for r in reps)
            for r in reps:
                for v in r.get("violations") or []:
                    print("REPLAY-VIOLATION kind=%s key=%s\n  %s" % (v["kind"], v["key"], v["detail"][:3000]))
            print("replay: %s" % ("still fails" if nv else "passes"))
            return 1 if nv else 0

        deadline = int(os.environ.get("VERIF_DEADLINE_S", DEADLINE[tier]))
        only = os.environ.get("C05_ONLY")  # development aid: run one part (a|b)
        built = []
        for name, pkg, test, binname in BINARIES:
            if only and name != only:
                continue
            built.append((name, test, checklib.go_test_build(CID, pkg, ov, out=os.path.join(bdir, binname))))
        per_part, wall = {}, {}
        for name, test, binp in built:
            t1 = time.time()
            sub = os.path.join(scratch, name)
            os.makedirs(sub, exist_ok=True)
            if name == "a":
                per_part[name] = run_units(binp, test, tier, deadline, sub)
            else:
                per_part[name] = checklib.run_workers(CID, binp, test, tier, WORKERS, min(deadline, 600), sub,
                                                      extra_env={"GOMAXPROCS": "2"})
            wall[name] = round(time.time() - t1, 1)
            checklib.log("part %s workers done in %.1fs" % (name, wall[name]))
        # interleave the parts so that the kept samples show both kinds of sequences
        reports = []
        for i in range(max(len(v) for v in per_part.values())):
            for name in per_part:
                if i < len(per_part[name]):
                    reports.append(per_part[name][i])
        if shrunk is None:
            reports.append({"evaluations": 0, "exhaustive": False, "counters": {"raftlog_constant_not_shrunk": 1},
                            "notes": ["lib/raftlog maxNumEntries could not be shrunk for this tree: log-file rotation and truncation of whole files are not reached"]})
        flaky = sum((r.get("counters") or {}).get("flaky_failures", 0) for r in reports)
        rc = checklib.finish(CID, tier, LEVEL, RULE, reports, t0, ASSUMPTIONS,
                             extra_cov={"harness_wall_s": wall,
                                        "bound": {"events_quick": "full alphabet <= 3, base alphabet <= 4",
                                                  "events_thorough": "full alphabet <= 4, base alphabet <= 6",
                                                  "catalogue_events": 4 if tier == "quick" else 6,
                                                  "raftlog_entries_per_file": SHRUNK}})
        if flaky and rc == 0:
            # A failing sequence that did not fail again in its re-executions is never a verdict. It used to end the
            # check as a tool error; on a loaded machine it happens without any defect in the harness (the one case seen:
            # a replica not yet caught up when the convergence phase ended), so it is reported in the evidence
            # (counter flaky_failures, the worker's note, exhaustive:false) and the check goes on.
            import json
            p = os.path.join(checklib.OUTROOT, "evidence", CID + ".json")
            try:
                ev = json.load(open(p))
                ev["coverage"]["exhaustive"] = False
                json.dump(ev, open(p, "w"), indent=1)
            except (OSError, ValueError, KeyError):
                pass
            for r in reports:
                for n in r.get("notes") or []:
                    if "re-executions" in n:
                        checklib.log("not repeated, not reported: " + n[:600])
        return rc
    finally:
        shutil.rmtree(scratch, ignore_errors=True)


CLAIMED = True
MANIFEST = dict(
    level=LEVEL,
    engine="seqx+synctest",
    technique="bounded exhaustive fault-sequence enumeration on the real replication stack: three real raft nodes (etcd raft in "
              "raftconn.RaftNode over real raftlog directories), the real engine write / commit / replay / snapshot / log-truncation path "
              "and one real shard per replica run inside one testing/synctest bubble (virtual clock, quiescence detection); every "
              "role-addressed sequence of writes, kills, restarts, flushes and time steps up to the bound is executed from a fresh "
              "group; reference model = last-write-wins over the prefix-closed set of possible replicated logs; plus exhaustive "
              "command-sequence enumeration of the catalogue's master re-selection for one replica group",
    text="(a) Every sequence of <= 4 (quick; <= 6 thorough on the base alphabet) events from {write to the leader, write through a "
         "follower, write to a leader cut off from its peers, kill leader / a follower, restart the dead replica from its "
         "directories, flush leader's / a follower's shard, +1 min, +1 election timeout}, at most one replica down, is run on a "
         "3-replica group built from the real components (startRaftNode, WriteToRaft, readCommitFromRaft / dealCommitData, "
         "readReplayForReplication, snapshotAfterFlush, deleteEntryLog, real shard), with the transport replaced by an in-memory "
         "router. After every event every up replica is read directly: its content must be the last-write-wins result of a prefix "
         "of the write sequence (unacknowledged writes optional), a replica in steady replication must hold every acknowledged "
         "write, a restarted one must not have lost what it held; a write with a leader and a majority up must be acknowledged; "
         "after restarting everything a leader must appear and all three replicas must become equal and complete within a bounded "
         "virtual time. Failing sequences are re-executed 3x. (b) Every sequence of <= 4 / <= 6 catalogue events (node failed in one "
         "or two steps, join, assignment completion, admin master transfer, marshal round trip) on the real meta.Data with the real "
         "electRgMaster / GetNewRg / Apply* functions: one master, on an alive node once fail-over has run, consistent peer list, "
         "status follows the majority, marshal/clone exact.",
    note="Exhaustive within the stated alphabets and lengths; sequences are addressed by raft role because etcd raft's election jitter "
         "cannot be seeded. Trusts: Go runtime and testing/synctest, etcd raft, the harness stand-ins for transport, meta client, "
         "StorageService and coordinator, the shard dump routine shared with C01-C04. Not covered: kills inside one message exchange "
         "/ flush / replay (events run to quiescence), the coordinator's retry loop, real multi-process SIGKILL, outages longer than "
         "clear-entryLog-tolerate-time (6 h), power loss; raftlog files hold 4 entries instead of 30000. Two genuine defects are "
         "recorded as known findings with proposed repairs in fixes/C05-*.diff.",
)
