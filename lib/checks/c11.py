SPEC = dict(
    pkg="coordinator",
    test="TestVerifC11",
    level="exploration",
    workers=16,
    deadline={"quick": 240, "thorough": 2100},
    hooks=["coordinator"],
    rule="an evaluation is one (configuration, condition, stored point) triple: the point was routed by the real writer, "
         "the condition mapped to shards by the real planner + cluster shard mapper (and, for parenthesised 3-atom trees, "
         "once more by ShardGroupInfo.TargetShards on the ParenExpr-free tree), and the point is checked against the shard set; "
         "write-side evaluations are (configuration, write request, row) routings, including requests that interleave rows of three measurements with different measurement-level shard keys. distinct_nontrivial = distinct "
         "(configuration, condition) pairs whose condition is neither always-true nor always-false on the stored point set "
         "AND whose mapped shard set is strictly smaller than the shards of the groups overlapping the query's time range "
         "(pruning removed at least one shard)",
    assumptions=[
        "the catalogue is built with the Data methods the meta server's apply functions call (CreateDataNode, CreateDatabase, "
        "CreateRetentionPolicy, CreateDBPtView, CreateMeasurement, CreateShardGroup, ReSharding, UpdateSchema); all partitions online, "
        "ha-policy write-available-first (default), replication factor 1, tsstore engine, no streams, no query hints",
        "network replaced only at three points: the store behind PointsWriter records (row -> shard id); the writer's "
        "CreateShardGroup / UpdateSchema RPCs are applied to the catalogue directly and then answered by the real metaclient.Client cache code",
        "the query's time range is the intersection of all time comparisons of the WHERE clause and the condition is the rest "
        "(InfluxQL semantics, implemented by influxql.ConditionExpr); unparenthesised 'a OR b AND c' means (a OR b) AND c because "
        "the production grammar declares `%left AND OR` (sql.y:166) - both are language questions that belong to C08/C12",
        "absent tag = empty string for !=, =~ (DESIGN 3a); a point lacking a shard-key tag is rejected by design and is not an accepted point",
        "after a re-sharding two shard groups cover the times after the split; which of them receives a new point is not fixed by the statement "
        "(both are consulted by reads), so 'same shard on repeat' is compared per (point, group)",
    ],
)

# Set CLAIMED = True once the check is clean on the unchanged tree (exit 0, KNOWN-FINDING lines allowed).
# C11 is clean once fixes/C11-condition-tags.diff is committed to /repo (see notes/C11.md); without it the
# check reports the genuine pruning defects of getConditionTags/TargetShards and exits 1.
CLAIMED = True
MANIFEST = dict(
    level="exploration",
    engine="enumx",
    technique="bounded exhaustive enumeration (odometer) of catalogue configurations x points x condition trees; the real write path "
              "(PointsWriter -> shard group by timestamp -> shard key -> ShardFor/DestShard) and the real read path (yacc parser -> query.Prepare "
              "-> ClusterShardMapper.MapShards -> TargetShards/getConditionTags) run on a generated meta.Data; a direct evaluator over tags/fields "
              "decides which stored points a query must reach",
    text="Every configuration of a finite grid (1-4 shards per group via data nodes / partitions per node, group duration 1h/24h, hash with every "
         "SHARDS n and range sharding with every choice of split points after a real ReSharding, shard key none/[host]/[region]/[host,region] declared on "
         "the measurement or the database) is built with the meta server's own commands. Three measurements with different measurement-level shard keys share the policy. All points (tags host x region incl. absent tags, field usage, "
         "timestamps on and +-1ns around every group boundary and the re-sharding split) go through the real PointsWriter in several batch orders: each accepted "
         "point must reach exactly one shard, of a group whose [start,end) contains its time, the same shard on every repeat - alone, in single-measurement requests and in requests mixing the measurements in every sequence; no row that carries its measurement's key tags may be rejected. Every WHERE tree of <= 3 atoms "
         "(tag =, !=, =~, field comparison, time bounds; AND/OR; all parenthesisations) is planned by the real planner and shard mapper: every stored point that "
         "satisfies the query by direct evaluation must lie in a consulted shard. Exhaustive within these bounds.",
    note="Trusts: Go runtime; the harness's tiny evaluator and the stated language semantics (time range = intersection of time comparisons; `%left AND OR`); "
         "partition status changes, replication, stream targets, hint queries (TargetShardsHintQuery), ALTER SHARD KEY between groups and column-store "
         "measurements are outside the bound. Black-box 1-vs-3 partition comparison is done by the C08 driver, not here.",
)
