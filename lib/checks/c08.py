"""C08 - query answers follow the language and ignore chunking and parallelism (pure black box).

Two ts-server instances built from the current tree (1 and 3 partitions per node).  Bounded exhaustive
enumeration (odometer, no randomness) of
  data sets   (lib/c08_model.py)
              f/g family:   3 series x 4 timestamps x {absent, f+g, f only, g only}, <= 6 points, f float, g integer or string
              typed family: 3 series x 10 timestamps, fields f float, s string (quotes, commas, non-ASCII, empty), i integer
                            (values whose sums pass 2^53), b boolean, nulls in every column; one series has 9-10 rows
  layouts     memory | flushed | flushed + late (out-of-order / row-completing) points | late points flushed too |
              flushed + newer rows in memory | two ordered files
  statements  f/g:   SELECT (f | f,g | agg(f)) FROM m [WHERE ..] [GROUP BY tag | time(w) [fill(..)]] [ORDER BY time DESC] [LIMIT n OFFSET k]
              typed: SELECT (s | f,s | s,i,b | * | f,host | b | ..) and count/first/last(s|b), count/sum/mean/min/max/first/last(i),
                     several calls in one statement, WHERE on s (=, !=), i (>, <=), b (=, !=), tags and time, GROUP BY tag / time(w)
                     with fill(none|null|previous) (fill(0) on integer results), ORDER BY time DESC, LIMIT/OFFSET on ungrouped selections
  configs     chunk size n in {1, 2, default} (inner_chunk_size=n, and chunk_size=n when chunked) x chunked {off, on}
              x chunk_reader_parallel {1, default} x server {1 partition, 3 partitions}
              With n = 1 or 2 the long series reaches every operator in 10 / 5 batches, more than any fixed ring of chunks or
              records on the query path holds (notes/C08.md lists them), so every such ring wraps around.
Oracle: every answer must be one the reference evaluator (documented InfluxQL semantics evaluated directly over the
logical contents) allows; a DESC answer is compared reversed; limit/offset on grouped queries is only compared across
configurations.  Because every configuration, layout and server is compared with the same expected answer, configuration /
layout / partition invariance and DESC = reverse(ASC) are implied; a mismatch is classified by the dimension it depends on.
"""
import os, sys

sys.path.insert(0, os.path.dirname(os.path.dirname(os.path.abspath(__file__))))
import c08_driver

CLAIMED = True
MANIFEST = dict(
    level=c08_driver.LEVEL,
    engine="enumx + black-box driver",
    technique="bounded exhaustive enumeration of data sets (float/integer/string/boolean fields, nulls, one series longer than every "
              "chunk/record ring) x storage layouts x statements of a finite InfluxQL grammar x execution configurations on two real "
              "ts-server instances (1 and 3 partitions), differential oracle against a direct evaluator of the documented semantics "
              "plus metamorphic relations (configuration/layout/partition invariance, DESC = reverse ASC)",
    text="Every statement of a finite SELECT grammar (plain selections of float, integer, string and boolean fields and of tags, "
         "count/sum/mean/min/max/first/last where the language defines them for the type, filters on every field type, GROUP BY tag and "
         "time with the fill modes, DESC, LIMIT/OFFSET) is run on every enumerated data set in every layout (memory, flushed, "
         "flushed+late, late flushed, flushed+newer memory, two ordered files) under every combination of chunk size (1, 2, default), "
         "response chunking, reader parallelism and partition count over HTTP; each answer must be one the reference evaluator allows, "
         "with strings, booleans and integers compared exactly.",
    note="Trusts: the reference evaluator's reading of InfluxQL (leniency list in notes/C08.md); the HTTP JSON rendering; only the stated "
         "core of the language (no sub-queries, joins, regex sources, SLIMIT); <= 6 points per f/g data set, <= 16 per typed data set "
         "(a series of 10 rows: rings of up to 8 chunks/records wrap, larger ones and the default batch size of 1024 rows do not).",
)


def run(tier, replay):
    return c08_driver.run(tier, replay)
