"""C08 - query answers follow the language and ignore chunking and parallelism (pure black box).

Two ts-server instances built from the current tree (1 and 3 partitions per node).  Bounded exhaustive
enumeration (odometer, no randomness) of
  data sets   (lib/c08_model.py: 3 series x 4 timestamps x {absent, f+g, f only, g only}, <= 6 points)
  layouts     memory | flushed | flushed + late (out-of-order / row-completing) points | late points flushed too |
              flushed + newer rows in memory | two ordered files
  statements  SELECT (f | f,g | agg(f)) FROM m [WHERE ..] [GROUP BY tag | time(w) [fill(..)]] [ORDER BY time DESC] [LIMIT n OFFSET k]
  configs     chunk size n in {1, 2, default} (inner_chunk_size=n, and chunk_size=n when chunked) x chunked {off, on}
              x chunk_reader_parallel {1, default} x server {1 partition, 3 partitions}
Oracle: every answer must be one the reference evaluator (documented InfluxQL semantics evaluated directly over the
logical contents) allows; a DESC answer is compared reversed; limit/offset on grouped queries is only compared across
configurations.  Because every configuration, layout and server is compared with the same expected answer, configuration /
layout / partition invariance and DESC = reverse(ASC) are implied; a mismatch is classified by the dimension it depends on.
"""
import os, sys

sys.path.insert(0, os.path.dirname(os.path.dirname(os.path.abspath(__file__))))
import c08_driver

CLAIMED = True
MANIFEST = dict(
    level=c08_driver.LEVEL,
    engine="enumx + black-box driver",
    technique="bounded exhaustive enumeration of data sets x storage layouts x statements of a finite InfluxQL grammar x execution "
              "configurations on two real ts-server instances (1 and 3 partitions), differential oracle against a direct evaluator of "
              "the documented semantics plus metamorphic relations (configuration/layout/partition invariance, DESC = reverse ASC)",
    text="Every statement of a finite SELECT grammar is run on every enumerated data set in every layout (memory, flushed, flushed+late, "
         "late flushed, flushed+newer memory, two ordered files) under every combination of chunk size, response chunking, reader parallelism and partition count over HTTP; each "
         "answer must be one the reference evaluator allows.",
    note="Trusts: the reference evaluator's reading of InfluxQL (leniency list in notes/C08.md); the HTTP JSON rendering; only the stated "
         "core of the language (no sub-queries, joins, regex sources, SLIMIT); <= 6 points per data set.",
)



def run(tier, replay):
    return c08_driver.run(tier, replay)
