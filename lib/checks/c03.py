SPEC = dict(
    pkg="engine",
    hooks=["engine", "lib/fileops"],
    test="TestVerifC03",
    level="fault_enumeration",
    workers=16,
    deadline={"quick": 280, "thorough": 2400},
    rule="input layouts = every (content, layout shape) reachable by a prefix history over {write batches, flush} up to the length "
         "bound (equivalent inputs explored once); for each layout each applicable reorganisation {level compaction, full compaction, "
         "out-of-order merge, full out-of-order merge} runs under the lib/fileops recorder; (a) completion: dump equals the dump before; "
         "(b) a crash image before EVERY mutation and after every torn write prefix is reopened with the real recovery: dump equals the "
         "dump before the reorganisation, a second reopen changes neither answers nor loaded files; (c) thorough: crash images of the "
         "recovery pass itself; evaluations = completed runs + recoveries; distinct_nontrivial = distinct (case, crash image)",
    assumptions=["process-crash model (no loss of un-synced blocks)", "2 WAL partitions, TSSTORE engine, level-compaction group size 2, 2-row segments",
                 "leftover .init/.tmp files that are ignored by the loader are counted in the evidence, not reported"],
)
CLAIMED = True
MANIFEST = dict(
    level="fault_enumeration", engine="crashfs",
    technique="exhaustive crash-point enumeration of every reorganisation (compaction/merge replace protocol) over all bounded input layouts, real recovery, content-equality oracle",
    text="Every reorganisation applicable to every input layout reachable by bounded write/flush prefixes is run to completion and under a crash "
         "at every file-system step (incl. torn log writes and, in thorough, crashes inside recovery); contents must equal the contents before.",
    note="Trusts the lib/fileops recorder, the sparse copy and the dump routine; planner choices limited to those reachable with group size 2.",
)
