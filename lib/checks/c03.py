import os


def _overlay_extra(cid, tier):
    """merge_performer.go of the tree under test with the size of the raw-copy pieces of WriteOriginal made settable
    (one line rewritten; default value = the original expression). If the line is not there, nothing is rewritten and
    the small-piece cases run with the unmodified size (counted by the harness as copy_piece_not_settable)."""
    import checklib
    src = os.path.join(checklib.REPO, "engine/immutable/merge_performer.go")
    text = open(src).read()
    old = "limit := uint32(fileops.DefaultBufferSize * 2)"
    if text.count(old) != 1:
        checklib.log("C03: WriteOriginal piece-size line not found; small-piece cases run with the original size")
        return {}
    out = os.path.join(checklib.build_dir(cid), "merge_performer.go")
    with open(out, "w") as fh:
        fh.write(text.replace(old, "limit := uint32(VerifCopyPiece(fileops.DefaultBufferSize * 2))"))
    return {src: out}


SPEC = dict(
    pkg="engine",
    hooks=["engine", "engine/immutable", "lib/fileops"],
    overlay_extra=_overlay_extra,
    test="TestVerifC03",
    level="fault_enumeration",
    workers=16,
    deadline={"quick": 420, "thorough": 2400},
    rule="two families of input layouts. (1) prefix histories: every (content, layout shape) reachable by a prefix history over {write batches, flush} up to the length "
         "bound (equivalent inputs explored once); for each layout each applicable reorganisation {level compaction, full compaction, "
         "out-of-order merge, full out-of-order merge} runs under the lib/fileops recorder; (a) completion: dump equals the dump before; "
         "(b) a crash image before EVERY mutation and after every torn write prefix is reopened with the real recovery: dump equals the "
         "dump before the reorganisation, a second reopen changes neither answers nor loaded files; (c) thorough: crash images of the "
         "recovery pass itself; the out-of-order merges additionally run with the raw chunk copy of untouched series cut into 24-byte "
         "pieces (instead of 512 KiB) so that the multi-piece copy loop is reached by small chunks. (2) injected level layouts: EVERY level "
         "vector of length 1..4 (thorough 1..5) over levels {0,1,2} - n ordered files written by the product (file k = the k-th, later time "
         "slice of every series), level set in the file name, real loader - x [data.parquet-task] tssp-to-parquet-level {0,1,2} x "
         "{level compaction, full-compaction rounds until nothing changes, one round = the pre-full pass (parquet level > 0 only)}; "
         "completion: dump equals the dump before, and walking the ordered files in LIST order (as cursors and the next compaction do) "
         "gives every series the same rows in the same order, times strictly increasing, list sorted; a panic inside a compaction task "
         "(recovered by compact-recovery) is a violation; the same crash enumeration as (b) for vectors of length <= 3 (thorough <= 4; "
         "recovery-pass images for length <= 2), recovered images also pass the walk; equal (vector, sequence of file-system steps) "
         "explored once. A case = a reorganisation that changes the layout; evaluations = completed runs + recoveries; "
         "distinct_nontrivial = distinct (case, complete run or crash image)",
    assumptions=["process-crash model (no loss of un-synced blocks)", "2 WAL partitions, TSSTORE engine, level-compaction group size 2, 8-row segments",
                 "leftover .init/.tmp files that are ignored by the loader are counted in the evidence, not reported",
                 "the level of a data file exists only in its name (RenameFileToLevel lifts a file by renaming it): an injected level layout is a "
                 "flushed file renamed while the shard is closed; the conversion of files to parquet is outside the property (data files lie "
                 "deeper than the 10/11 path components from which markParquetTaskDone derives an output directory, so it only logs an error)",
                 "compact-recovery = true (product default): a panic of a compaction task is recovered by the product and reported by the harness"],
)
CLAIMED = True
MANIFEST = dict(
    level="fault_enumeration", engine="crashfs",
    technique="exhaustive crash-point enumeration of every reorganisation (compaction/merge replace protocol) over all bounded input layouts "
              "(write/flush prefix histories + every level vector of the ordered file list up to the length bound x parquet level), real recovery, "
              "content-equality and file-walk-order oracle",
    text="Every reorganisation applicable to every input layout reachable by bounded write/flush prefixes, and level compaction / full compaction / "
         "the pre-full-compaction pass on every ordered file list with levels in {0,1,2}^(<=4, thorough <=5) under tssp-to-parquet-level 0/1/2, is run "
         "to completion and under a crash at every file-system step (incl. torn log writes and, in thorough, crashes inside recovery); contents must "
         "equal the contents before and every series must stay in time order when the ordered files are walked in list order.",
    note="Trusts the lib/fileops recorder, the sparse copy, the dump routine and the chunk-iterator walk; level compaction group size 2; injected "
         "layouts have one file per sequence (no split files), levels <= 2, no out-of-order files; crash images of injected layouts only up to "
         "length 3 (quick) / 4 (thorough).",
)
