import os


def _overlay_extra(cid, tier):
    """merge_performer.go of the tree under test with the size of the raw-copy pieces of WriteOriginal made settable
    (one line rewritten; default value = the original expression). If the line is not there, nothing is rewritten and
    the small-piece cases run with the unmodified size (counted by the harness as copy_piece_not_settable)."""
    import checklib
    src = os.path.join(checklib.REPO, "engine/immutable/merge_performer.go")
    text = open(src).read()
    old = "limit := uint32(fileops.DefaultBufferSize * 2)"
    if text.count(old) != 1:
        checklib.log("C03: WriteOriginal piece-size line not found; small-piece cases run with the original size")
        return {}
    out = os.path.join(checklib.build_dir(cid), "merge_performer.go")
    with open(out, "w") as fh:
        fh.write(text.replace(old, "limit := uint32(VerifCopyPiece(fileops.DefaultBufferSize * 2))"))
    return {src: out}


SPEC = dict(
    pkg="engine",
    hooks=["engine", "engine/immutable", "lib/fileops"],
    overlay_extra=_overlay_extra,
    test="TestVerifC03",
    level="fault_enumeration",
    workers=16,
    deadline={"quick": 280, "thorough": 2400},
    rule="input layouts = every (content, layout shape) reachable by a prefix history over {write batches, flush} up to the length "
         "bound (equivalent inputs explored once); for each layout each applicable reorganisation {level compaction, full compaction, "
         "out-of-order merge, full out-of-order merge} runs under the lib/fileops recorder; (a) completion: dump equals the dump before; "
         "(b) a crash image before EVERY mutation and after every torn write prefix is reopened with the real recovery: dump equals the "
         "dump before the reorganisation, a second reopen changes neither answers nor loaded files; (c) thorough: crash images of the "
         "recovery pass itself; the out-of-order merges additionally run with the raw chunk copy of untouched series cut into 24-byte "
         "pieces (instead of 512 KiB) so that the multi-piece copy loop is reached by small chunks; evaluations = completed runs + recoveries; distinct_nontrivial = distinct (case, crash image)",
    assumptions=["process-crash model (no loss of un-synced blocks)", "2 WAL partitions, TSSTORE engine, level-compaction group size 2, 2-row segments",
                 "leftover .init/.tmp files that are ignored by the loader are counted in the evidence, not reported"],
)
CLAIMED = True
MANIFEST = dict(
    level="fault_enumeration", engine="crashfs",
    technique="exhaustive crash-point enumeration of every reorganisation (compaction/merge replace protocol) over all bounded input layouts, real recovery, content-equality oracle",
    text="Every reorganisation applicable to every input layout reachable by bounded write/flush prefixes is run to completion and under a crash "
         "at every file-system step (incl. torn log writes and, in thorough, crashes inside recovery); contents must equal the contents before.",
    note="Trusts the lib/fileops recorder, the sparse copy and the dump routine; planner choices limited to those reachable with group size 2.",
)
