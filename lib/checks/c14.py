"""C14 — retention removes only data that has expired (work in progress)."""
import os, re
import checklib

# Background tick periods that have nothing to do with retention are lengthened (overlay copies generated
# from the CURRENT tree, one literal each): every virtual hour the harness sleeps through would otherwise
# fire 36 000 shard snapshot ticks and 3 600 ticks of every mergeset flusher / merger per open shard.
REWRITES = [
    ("engine/shard.go", r"timer := time\.NewTicker\(time\.Millisecond \* 100\)",
     "timer := time.NewTicker(time.Minute * 20)"),
    ("lib/util/lifted/vm/mergeset/table.go", r"rawItemsFlushInterval\s+= time\.Second",
     "rawItemsFlushInterval          = 20 * time.Minute"),
    ("lib/util/lifted/vm/mergeset/table.go", r"maxMergeSleepTime = time\.Second",
     "maxMergeSleepTime = 20 * time.Minute"),
]


def overlay_extra(cid, tier):
    bd = os.path.join(checklib.build_dir(cid), "rewritten")
    os.makedirs(bd, exist_ok=True)
    texts = {}
    for rel, pat, repl in REWRITES:
        src = os.path.join(checklib.REPO, rel)
        s = texts.get(rel)
        if s is None:
            s = open(src).read()
        s2, n = re.subn(pat, repl, s)
        if n != 1:
            checklib.tool_error("C14 constant rewrite: pattern %r matched %d times in %s" % (pat, n, rel))
        texts[rel] = s2
    out = {}
    for rel, s in texts.items():
        dst = os.path.join(bd, rel.replace("/", "__"))
        with open(dst, "w") as fh:
            fh.write(s)
        out[os.path.join(checklib.REPO, rel)] = dst
    return out


SPEC = dict(
    pkg="engine",
    hooks=["engine", "services/retention", "lib/fileops"],
    test="TestVerifC14",
    overlay_extra=overlay_extra,
    level="model_checking",
    workers=16,
    deadline={"quick": 150, "thorough": 1500},
    env={"GOMAXPROCS": "2"},
    rule="wip",
    assumptions=[],
)
CLAIMED = False
