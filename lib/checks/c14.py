"""C14 — retention removes only data that has expired (work in progress)."""
import checklib

SPEC = dict(
    pkg="engine",
    hooks=["engine", "services/retention"],
    test="TestVerifC14",
    level="model_checking",
    workers=16,
    deadline={"quick": 150, "thorough": 1500},
    rule="wip",
    assumptions=[],
)
CLAIMED = False
