"""C14 — retention removes only data that has expired.

In-package harness hooks/engine/c14_test.go (+ c14_glue_test.go in package engine_test, which may import
services/retention, + the accessor hooks/services/retention/c14_hook.go): the REAL retention.Service.handle
drives a REAL EngineImpl with real shards on disk and a REAL meta.Data catalogue inside one testing/synctest
bubble per worker (virtual clock). Every history of the bounded alphabet is executed, a reference model of
"expired" decides every step. The catalogue client handed to the service is a fault seam: every call a
retention run makes through it (discovered by a recording run, not listed by hand) can be made to fail;
"the k-th call of this run fails" / "every call of one method fails" / "every call fails" are operations of
the alphabet (at most one such run per history). See notes/C14.md."""
import os, re, shutil, tempfile, time
import checklib

# Background tick periods that have nothing to do with retention are lengthened (overlay copies generated
# from the CURRENT tree, one literal each): every virtual hour the harness sleeps through would otherwise
# fire 36 000 shard snapshot ticks and 3 600 ticks of every mergeset flusher / merger per open shard.
REWRITES = [
    ("engine/shard.go", r"timer := time\.NewTicker\((?:time\.Millisecond\s*\*\s*100|100\s*\*\s*time\.Millisecond)\)",
     "timer := time.NewTicker(time.Minute * 20)"),
    ("lib/util/lifted/vm/mergeset/table.go", r"rawItemsFlushInterval\s+= (?:1\s*\*\s*)?time\.Second",
     "rawItemsFlushInterval          = 20 * time.Minute"),
    ("lib/util/lifted/vm/mergeset/table.go", r"maxMergeSleepTime\s*= (?:1\s*\*\s*)?time\.Second",
     "maxMergeSleepTime = 20 * time.Minute"),
]


# Rewrites that could not be applied to the tree under test in this run (pattern found 0 or > 1 times, file
# missing): the check carries on with the unmodified tick period. That only costs time (a virtual hour then
# fires tens of thousands of timers per open shard); the run may be cut by its deadline (exhaustive:false,
# exit 0). Reported in the evidence (coverage.tick_rewrites_skipped, counters.tick_rewrites_skipped).
SKIPPED = []


def overlay_extra(cid, tier):
    bd = os.path.join(checklib.build_dir(cid), "rewritten")
    os.makedirs(bd, exist_ok=True)
    del SKIPPED[:]
    texts, changed = {}, set()
    for rel, pat, repl in REWRITES:
        src = os.path.join(checklib.REPO, rel)
        s = texts.get(rel)
        if s is None:
            try:
                s = open(src).read()
            except OSError as e:
                SKIPPED.append("%s: %s (cannot read: %s)" % (rel, repl, e))
                checklib.log("C14 tick rewrite skipped: cannot read %s: %s" % (rel, e))
                continue
            texts[rel] = s
        s2, n = re.subn(pat, repl, s)
        if n != 1:
            SKIPPED.append("%s: pattern %r found %d times, wanted '%s'" % (rel, pat, n, repl))
            checklib.log("C14 tick rewrite skipped: pattern %r found %d times in %s; the tick period of the tree is used "
                         "(slower; the run may be cut by its deadline)" % (pat, n, rel))
            continue
        texts[rel] = s2
        changed.add(rel)
    out = {}
    for rel, s in texts.items():
        if rel not in changed:
            continue
        dst = os.path.join(bd, rel.replace("/", "__"))
        with open(dst, "w") as fh:
            fh.write(s)
        out[os.path.join(checklib.REPO, rel)] = dst
    return out


SPEC = dict(
    pkg="engine",
    hooks=["engine", "services/retention", "lib/fileops"],
    test="TestVerifC14",
    overlay_extra=overlay_extra,
    level="model_checking",
    workers=16,
    deadline={"quick": 180, "thorough": 2100},
    env={"GOMAXPROCS": "2"},
    rule="every history = root (initial policy duration in {G, 2G, 0=unlimited} x first shard {written and open, only in the catalogue = "
         "not loaded}) followed by every sequence of <= d-1 operations of {advance the clock to end+D-1ns / end+D / end+D+1ns of the oldest live "
         "group under the duration in force, advance by the service interval, retention run, retention run with one concurrent writer per open "
         "shard, ALTER duration to 0 / G/2 / G / 2G, write a point at now / at now-D (edge of the window) / at now-D-G (outside), create a "
         "catalogue-only group at now / at now-D, and the fault variants of the retention run at the catalogue-client seam: H!k = the k-th "
         "catalogue call of this run fails, for every k up to the number of calls the run makes from that state (taken from the fault-free run "
         "of the same state; GetShardDurationInfo, GetIndexDurationInfo, then per expired shard DeleteShardGroup + PruneGroupsCommand, per "
         "expired index DeleteIndexGroup + PruneGroupsCommand: 2..10 calls seen), H!S / H!I / H!DSG / H!DIG / H!PG = every call of one "
         "MetaClient method fails (where >= 2 such calls are made), H!* = every call fails; a failed call returns an error (DataIsOlder for the "
         "two duration calls) and leaves the catalogue unchanged; at most one faulted run per history} and a final retention run (plain, with "
         "writers, or a fault variant) (d = 4 quick, 5 thorough); an operation that leaves the complete state digest unchanged cuts its "
         "branch; the oracle runs after every step of the real code. evaluations = transitions of the real code that were checked (each "
         "counted by exactly one worker) + decisions of the expiry table; distinct_nontrivial = distinct states (clock position relative to "
         "end+d of every live group for every d of the menu, catalogue dump, engine shard and index sets with the durations they hold, "
         "storage directories, what the service remembers between runs, model) reached by a state-changing transition, + distinct table "
         "cells. counters: faulted_runs = checked transitions that are runs with an injected failure, fault_site_<k>_<method> = such runs per "
         "failing call position, fault_method_<m> = runs with every call of one method failing",
    assumptions=[
        "testing/synctest virtual clock: time.Now() of the code under test is the bubble clock; lib/fasttime (coordinator's up-front "
        "WritePointOutOfRP test, mergeset merge pacing) runs on the real clock outside the bubble and is not part of this check",
        "one data node, one partition, one measurement; the MetaClient handed to the service applies each command to meta.Data the way "
        "ts-meta's store does (no raft, no RPC); the shared-storage (logkeeper) branch of handle() is not exercised",
        "fault model at the catalogue-client seam: a failing call returns an error and is NOT applied (no lost-reply case where the "
        "command was applied but the client saw an error); at most one retention run with injected failures per history, inside the same "
        "depth bound; failures are injected into plain runs only (not into the run with concurrent writers); engine calls (DeleteShard, "
        "DeleteIndex) are never made to fail",
        "three background tick periods that do not take part in retention are lengthened by overlay copies of the current tree (shard "
        "snapshot ticker 100ms -> 20min, mergeset raw-item flusher and idle merger 1s -> 20min) and DBPTInfo load reporting is set to 20min, "
        "so that a virtual hour costs milliseconds; the compaction worker is re-created inside the bubble",
        "strict boundary (DESIGN 3a): a shard whose end + duration equals now is not yet deletable; removal of an expired shard from "
        "catalogue, engine and storage is demanded after the second consecutive FAULT-FREE retention run at which it was expired (a run "
        "with a failed catalogue call may delay removal: it neither counts nor resets; it must never delete what is not expired under the "
        "duration in force); a write the catalogue routes into a group whose deletion was interrupted by a failed mark-delete call creates "
        "no obligation (counted)",
    ],
)


def _scratch():
    """Per-history engines create and remove hundreds of small files; on tmpfs one history costs 1/5 of the
    wall time it costs on the (shared, busy) disk. A few MB per worker. Fallback: the common scratch root."""
    base = os.environ.get("VERIF_TMP")
    if not base and os.path.isdir("/dev/shm") and os.access("/dev/shm", os.W_OK):
        base = "/dev/shm"
    if base:
        return tempfile.mkdtemp(prefix="verif-C14-", dir=base)
    return checklib.scratch_root("C14")


def run(tier, replay):
    cid = "C14"
    t0 = time.time()
    ov = checklib.gen_overlay(cid, SPEC["hooks"], overlay_extra(cid, tier))
    binp = checklib.go_test_build(cid, SPEC["pkg"], ov)
    scratch = _scratch()
    try:
        if replay:
            reps = checklib.run_workers(cid, binp, SPEC["test"], "quick", 1, 600, scratch,
                                        extra_env=dict(SPEC["env"], VERIF_REPLAY=os.path.abspath(replay)))
            nv = sum(r.get("n_violations", 0) for r in reps)
            for r in reps:
                for v in r.get("violations") or []:
                    print("REPLAY-VIOLATION kind=%s key=%s\n  %s" % (v["kind"], v["key"], v["detail"][:2500]))
            print("replay: %s" % ("still fails" if nv else "passes"))
            return 1 if nv else 0
        dl = int(os.environ.get("VERIF_DEADLINE_S", SPEC["deadline"][tier]))
        reps = checklib.run_workers(cid, binp, SPEC["test"], tier, SPEC["workers"], dl, scratch, extra_env=SPEC["env"])
        depth = max((r.get("counters") or {}).get("max_depth", 0) for r in reps)
        assumptions = list(SPEC["assumptions"])
        if reps:
            (reps[0].setdefault("counters", {}))["tick_rewrites_skipped"] = len(SKIPPED)
        if SKIPPED:
            assumptions.append("THIS RUN: %d of %d tick-period rewrites could not be applied to the tree under test (%s); the tree's own "
                               "tick period was used there, which only makes the virtual clock more expensive"
                               % (len(SKIPPED), len(REWRITES), "; ".join(SKIPPED)))
        return checklib.finish(cid, tier, SPEC["level"], SPEC["rule"], reps, t0, assumptions, model=True,
                               extra_cov={"tick_rewrites_skipped": list(SKIPPED), "bound": {"history_len": depth, "alphabet": "15 operations + fault variants of the retention run "
                                                    "(H!1..H!n for the n catalogue calls the run makes, H!S H!I H!DSG H!DIG H!PG, H!*)",
                                                    "faulted_runs_per_history": 1, "roots": 6,
                                                    "durations": ["0", "G/2 (refused by the catalogue)", "G", "2G"],
                                                    "shard_group_duration": "1h",
                                                    "last_operation": "retention run (H, Hw or a fault variant of H)"}})
    finally:
        shutil.rmtree(scratch, ignore_errors=True)


CLAIMED = True
MANIFEST = dict(
    level="model_checking",
    engine="seqx",
    technique="explicit-state exploration of the real implementation under a virtual clock (testing/synctest): every history of a 15-operation "
              "alphabet (clock to end+D-1ns / end+D / end+D+1ns, service interval, retention run with and without concurrent writers, ALTER "
              "duration, in-window / edge / out-of-window writes, catalogue-only groups) extended by fault enumeration at the catalogue-client "
              "seam (retention run with the k-th catalogue call failing for every k the run reaches, with every call of one method failing, "
              "with every call failing; <= 1 faulted run per history) up to the bound is executed on a fresh real engine + real catalogue + "
              "real retention service, with no-op pruning; a reference model of 'expired' (end + duration in force < now, strict; 0 = never) "
              "decides every transition; plus a decision table of Engine.ExpiredShards over durations x clock positions",
    text="The real retention service (services/retention handle()) is wired to a real storage engine with real shards on disk and a real "
         "catalogue (meta.Data) inside a virtual-clock bubble. From 6 roots (initial duration G / 2G / unlimited x first shard open / not "
         "loaded) every sequence of up to 3 (quick) or 4 (thorough, plus 5 over a 9-operation core alphabet, there with the final run "
         "plain, with writers, or with a failed duration refresh) operations followed by a retention run is executed; after every step the model checks: nothing of a shard group is removed unless its end + the duration "
         "in force at that run is strictly before the run's clock reading (so: never under duration 0, not at the exact expiry instant, "
         "not under a duration that an earlier ALTER replaced); every acknowledged point of every group that is not expired is returned by "
         "the shard's cursor, including points written concurrently with the run; a group expired at two consecutive fault-free runs is "
         "gone from catalogue (pruned), engine and both storage directories. Every call the run makes to the catalogue "
         "(GetShardDurationInfo, GetIndexDurationInfo, DeleteShardGroup, DeleteIndexGroup, PruneGroupsCommand; the positions are discovered "
         "by a recording run) is also made to fail, one position / one method / all at a time, in at most one run per history: such a run "
         "may delay removal but must not delete anything that is not expired under the duration in force (e.g. go on with the durations the "
         "engine cached before an ALTER when the refresh failed). An expiry table checks ExpiredShards for durations {0, 1ns, G/2, G, 2G, "
         "3G} at end+d-1ns / end+d / end+d+1ns for an open and for a not-loaded shard. Exhaustive within the bounds; no violation on the "
         "unchanged tree.",
    note="Trusts: Go runtime and testing/synctest (virtual time), the 60-line MetaClient adapter (applies commands to meta.Data like ts-meta's "
         "store, no raft/RPC), the harness's restatement of Storage.Write, the reference model. Three retention-unrelated tick periods are "
         "lengthened and the compaction worker is re-created inside the bubble (overlay, from the current tree). Not covered: more than one "
         "node/partition, tiering, down-sampling, per-measurement TTL, logkeeper/shared storage, failures of the engine calls (DeleteShard, "
         "DeleteIndex), catalogue calls that are applied although the client sees an error, more than one faulted run per history, "
         "restarts, the coordinator's up-front WritePointOutOfRP test (reads lib/fasttime, outside the virtual clock), histories beyond "
         "the bound.",
)
