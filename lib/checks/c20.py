"""C20 - column-store sparse (primary key) and skip indexes never prune a block with a match.

In-package overlay harness in engine/index/sparseindex (hooks/engine/index/sparseindex/c20_test.go).
Custom run(): same flow as checklib.run_gotest_check, but distinct_nontrivial is taken from the workers'
exact counter `nontrivial_cases` (every (record, layout, condition, time range) is generated exactly once by
the odometer, so the count of non-trivial cases IS the number of distinct non-trivial cases; hashing 10^7..10^9
of them into a set would cost gigabytes). The hash set the kit merges is kept as
`distinct_nontrivial_conditions` (distinct (schema, layout, condition) seen in a sampled non-trivial case).
"""
import os, shutil, time

import checklib as cl

SPEC = dict(
    pkg="engine/index/sparseindex",
    test="TestVerifC20",
    level="exploration",
    workers=16,
    # sized in CPU time: quick needs about 10 CPU-minutes (under 1 min wall on 16 free cores); the deadline only
    # protects against a heavily shared machine and ends the run with exhaustive:false, never with a verdict
    deadline={"quick": 900, "thorough": 3600},
    rule="a case = (sorted key record, fragment layout, condition tree, time range); it is non-trivial iff the real "
         "index reader pruned at least one fragment/block AND at least one row satisfies the condition (brute force). "
         "distinct_nontrivial = number of such cases (each case is generated exactly once by the odometer; reader "
         "settings are not counted as separate cases); coverage.distinct_nontrivial_conditions = distinct "
         "(schema, layout, condition) among sampled non-trivial cases. Plans with >= 3 used key columns (quick: s,i,time; "
         "i,j,k; sw,iw,k; i,j,k,l) add the 'deep' families: pairs of comparison atoms on two different key columns and "
         "one atom per column on three (thorough: four) key columns, on records whose marks differ in any key column. "
         "Skip-index part, several indexed columns at once (readers from CreateSKFileReaders, chained by Scan): bloom filter "
         "over 2 (thorough 3) string columns, ip bloom filter over 2 columns, full-text bloom filter over 2 columns, bloom "
         "filter + ip bloom filter together (two readers, both orders), min-max over 2 columns; every tree of <= 2 "
         "(thorough 3) atoms over MATCHPHRASE / = / != / >= / IPINRANGE atoms on every indexed column, the full-text pseudo "
         "column and a non-indexed string column",
    assumptions=[
        "rows are in the order the column-store writer's sorter (lib/record SortData / Pad*Slice) produces: nulls first "
        "(boolean null ties with false); the harness enumerates every record that is non-decreasing under that order",
        "row semantics of the oracle: a comparison with null is false for every operator (this is what "
        "lib/binaryfilterfunc does); MATCHPHRASE on the bloom-filter column is decided by the row filter's own "
        "tokenizer.SimpleTokenFinder",
        "literals have the type of the column they are compared with",
        "the non-key column v takes the value 1 + (row number mod 2); no index ever sees it",
        "min-max index: the repository has no writer; the index record is laid out as MinMaxIndexReader indexes it "
        "(row k lower bound, row k+1 upper bound of fragment k); set index: reader only (no writer exists)",
        "an error or a panic of the reader is not a pruning decision and is counted, not reported",
        "multi-column skip part: index files are written by the production writers' CreateAttachIndex (one <data>.<column>.bf.init "
        "per column, renamed as immutable.RenameIndexFiles does); the attached full-text writer names its file "
        "<data>.fullText.bf while the attached full-text reader opens <data>.bloomfilter_fullText.bf - the harness gives the "
        "file the name the reader asks for; only the attached (local, line) filter files are exercised, not the detached "
        "OBS vertical filters",
        "row semantics of IPINRANGE = binaryfilterfunc.IsIpInRange, of an atom on the full-text pseudo column __log___ = OR "
        "of the atom over the columns of the full-text index (binaryfilterfunc genRPNElementByFullText)",
        "CreateSKFileReaders returns the readers in map order: with two indexes both orders are executed",
    ],
)


def run(tier, replay):
    cid = "C20"
    if replay:
        return cl.run_gotest_check(cid, tier, SPEC, replay)
    t0 = time.time()
    ov = cl.gen_overlay(cid, [SPEC["pkg"]])
    binp = cl.go_test_build(cid, SPEC["pkg"], ov)
    scratch = cl.scratch_root(cid)
    try:
        dl = int(os.environ.get("VERIF_DEADLINE_S", SPEC["deadline"][tier]))
        reps = cl.run_workers(cid, binp, SPEC["test"], tier, SPEC["workers"], dl, scratch)
        nontrivial = sum((r.get("counters") or {}).get("nontrivial_cases", 0) for r in reps)
        hashed = set()
        for r in reps:
            hashed |= r.get("_distinct", set())
        extra = {"distinct_nontrivial": nontrivial, "distinct_nontrivial_conditions": len(hashed)}
        return cl.finish(cid, tier, SPEC["level"], SPEC["rule"], reps, t0, SPEC["assumptions"], extra_cov=extra)
    finally:
        shutil.rmtree(scratch, ignore_errors=True)


CLAIMED = True
MANIFEST = dict(
    level="exploration",
    engine="enumx",
    technique="bounded exhaustive enumeration (odometer) of sorted key records x fragment layouts x condition trees x time "
              "ranges x reader settings (1-4 key columns) on the real index writer and readers (PKIndexWriterImpl.Build, NewKeyCondition, "
              "PKIndexReaderImpl.Scan, bloom-filter / ip / full-text writers' CreateAttachIndex, CreateSKFileReaders, "
              "SKIndexReaderImpl.Scan over every reader, min-max and set readers) with a brute-force row oracle",
    text="Every record of <= 5 (thorough 6) rows over 1-4 key columns (string {A,C,D}, integer {1,2}/{1,2,4}, float, boolean, "
         "time; nulls in the order the writer's sorter produces them), every fragment size 1-3 (thorough: every composition), "
         "every condition tree of <= 3 atoms over key and non-key columns with = != < <= > >= MATCHPHRASE (literals on, between "
         "and outside the domain), AND/OR, with and without time bounds, binary and exclusion search, 5 coarse-index settings. "
         "Three and four used key columns (recursion of checkInAnyRange below its first level): for schemas s,i,time / i,j,k / "
         "sw,iw,k / i,j,k,l (thorough also nullable, s,i,j,time, records <= 5 rows) every (left mark, rows between, right mark) "
         "combination of the domain with every pair of comparison atoms on two different key columns (x AND/OR y, full literal "
         "alphabet, 10 time ranges where time is a key), one atom per column on three columns (both shapes, all AND/OR pairs; "
         "thorough: full alphabet) and, thorough, on four columns. "
         "Each fragment that holds a row satisfying the condition (brute force, comparison with null is false) must be inside "
         "the ranges returned by Scan; the same for bloom-filter / min-max / set skip-index readers' MayBeInFragment per block. "
         "Several indexed columns at once, on the query's own path (CreateAttachIndex files, CreateSKFileReaders, ReInit + Scan "
         "per reader): records of <= 2 rows (single atoms thorough 3; bloom + ip together 3) over two bloom-filter string columns "
         "(thorough three) whose tokens do / do not occur in the other column of the same and of the other block, two "
         "ip-bloom-filter columns, two full-text columns, one bloom-filter plus one ip column (two chained readers, both "
         "orders), every block layout, every tree of <= 2 atoms (thorough 3) with AND / OR in both operand orders over "
         "MATCHPHRASE (token present in the block, in another block only, nowhere; phrases), =, !=, >=, IPINRANGE (/8 /16 /20 "
         "and /0) on each indexed column, on the full-text pseudo column and on a non-indexed string column. "
         "Soundness of pruning only (over-reading is allowed). Exhaustive within these bounds.",
    note="Trusts: Go runtime; the harness' row evaluator; the order model of the writer's sorter (self-checked against "
         "record.SortHelper at start-up); tokenizer.SimpleTokenFinder as the meaning of MATCHPHRASE. min-max and set have no "
         "writer in the repository (index laid out as the reader indexes it). Three defects found by this check are fixed in "
         "the repository (right-bound mark, null key as +infinity, in-place rewrite of the cached index record); known "
         "findings left: null boolean key tie (thorough), set reader stub, and three found by the multi-column skip part with a "
         "fix proposed each (ip index probes atoms of other columns in the first column's filter; IPINRANGE prefix < 8 prunes "
         "every block; full-text index probes the literal of != < <= > >= as a phrase). A violation is filed under one of these "
         "causes only if the real readers keep every needed block once the atoms of that cause class are replaced by an atom "
         "the reader never probes. Errors/panics of a reader are counted, not "
         "reported. Quick has four key columns only with 1-atom trees and atom pairs; 4-atom trees are thorough only.",
)
