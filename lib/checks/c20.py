SPEC = dict(
    pkg="engine/index/sparseindex",
    test="TestVerifC20",
    level="exploration",
    workers=16,
    deadline={"quick": 200, "thorough": 2000},
    rule="todo",
    assumptions=[],
)
CLAIMED = False
