"""C07 - every persistent and wire encoding decodes to exactly what was encoded.

Six in-package overlay harnesses (one test binary per repo package), all fed by the same deterministic
grammar (hooks/lib/verifkit/c07gen).  run() builds every binary, runs the workers of every seam,
concatenates the reports and calls checklib.finish once."""
import concurrent.futures, json, os, shutil, sys, time
import checklib

CID = "C07"
GEN = "lib/verifkit/c07gen"

# (name, repo package, test function, tiers, workers, share of the deadline)
SEAMS = [
    ("enc", "lib/encoding", "TestVerifC07Enc", ("quick", "thorough"), 16),
    ("compress", "lib/compress", "TestVerifC07Float", ("quick", "thorough"), 16),
    ("record", "lib/record", "TestVerifC07Record", ("quick", "thorough"), 16),
    ("rows", "lib/util/lifted/vm/protoparser/influx", "TestVerifC07Rows", ("quick", "thorough"), 16),
    ("file", "engine/immutable", "TestVerifC07File", ("quick", "thorough"), 16),
    ("wal", "engine", "TestVerifC07Wal", ("quick", "thorough"), 16),
]

RULE = ("a case is one input (column / record / row batch / file content / WAL image) of the finite grammar, encoded and decoded "
        "by the real code; distinct_nontrivial = distinct (seam, type, compressor option, encoder mode = first byte of the block, "
        "content) tuples among cases with at least one value (for prefix cases: distinct (record bytes, cut position)); "
        "per-mode hit counts are in counters mode_<type>_<mode>")

ASSUMPTIONS = [
    "Encode*Block/Decode*Block, ColumnBuilder.EncodeColumn/decodeColumnData, MsBuilder/TSSPFile, Record.Marshal/Unmarshal, "
    "FastMarshalMultiRows/FastUnmarshalMultiRows, WAL.Write/replayPhysicRecord are the functions the write and read paths use",
    "bit-identical means equal raw value bytes, equal null positions, equal order; floats are compared by bit pattern",
    "statistics oracle: count/sum/min/max recomputed directly from the written values; columns containing NaN are exempt from min/max/sum",
    "WAL torn-write model: the file is cut at every byte position of a valid image (prefix), nothing else",
]

DEADLINE = {"quick": 150, "thorough": 1500}

CLAIMED = True
MANIFEST = dict(
    level="exploration",
    engine="enumx",
    technique="bounded exhaustive enumeration of value sequences, shape concatenations, schemas, decode-pool reuse histories and byte "
              "prefixes with a bit-identity round-trip oracle on the real encoders/decoders (six in-package overlay harnesses)",
    text="Six seams run on the real code: lib/encoding block coders and lib/compress float coder (default and MLF); record.Marshal/Unmarshal; "
         "FastMarshalMultiRows/FastUnmarshalMultiRows; engine/immutable ChunkDataBuilder/ColumnBuilder + decodeColumnData with null bitmaps, "
         "segment split and pre-aggregation, and MsBuilder -> file -> TSSPFile readers; engine WAL.Write -> replayPhysicRecord. Enumerated without "
         "randomness: every sequence over a boundary alphabet per type up to length 4 (quick) / 6 (thorough), with null as an extra symbol where "
         "the coder takes nulls; every concatenation of <= 3 (column coders) segments from {const, delta, jitter, raw} x lengths "
         "{1,7,8,9,239,240,241,1000} in two value variants; every schema of <= 3 typed columns for records and files; every history of <= 3 "
         "decodes on reused pools; every byte prefix of every row batch and of every WAL image of <= 3 (4) records. Oracle: bit-identical "
         "values (floats by bits), nulls, order, segment time ranges, trailer/meta-index ranges, count/sum/min/max recomputed directly; "
         "no error or panic on accepted values; a prefix never delivers a record that is not completely contained in it. Exhaustive within "
         "these bounds; per-mode hit counters show that every encoder mode was selected.",
    note="Trusts: Go runtime; the harness' own canonical renderers; snappy/zstd/lz4 libraries are exercised, not modelled. Not covered: "
         "inputs outside the grammar (only 2 value variants per shape), column-store (detached) file layout, compaction/merge writers "
         "(EncodeChunkForCompaction, addMin/addMax merge of statistics), remote/obs readers, measurement names > 255 bytes and tag values "
         "> 65535 bytes (length fields are 8/16 bit), torn writes other than prefixes (no bit flips, no interior holes). WAL pool reuse is "
         "modelled by a read buffer that last held one of the template records.",
)


TAGS = "verif,c07"   # the C07 hook files carry `//go:build verif && c07`: other checks that overlay the same package never compile them


def _own_overlay(path):
    """Keep only the kit and C07's own hook files: hook files of other checks living in the same package
    directories may need overlays (accessors in other packages) that this check does not set up."""
    ov = json.load(open(path))
    hooks_root = os.path.join(checklib.VERIF, "hooks") + os.sep
    keep = {}
    for dst, src in ov["Replace"].items():
        if src.startswith(hooks_root) and not os.path.basename(src).startswith("c07_"):
            continue
        keep[dst] = src
    with open(path, "w") as fh:
        json.dump({"Replace": keep}, fh, indent=1)
    return path


def _seams(tier):
    only = os.environ.get("VERIF_C07_SEAMS")
    out = [s for s in SEAMS if tier in s[3]]
    if only:
        out = [s for s in out if s[0] in only.split(",")]
    return out


def run(tier, replay):
    t0 = time.time()
    seams = _seams(tier)
    seam_of_replay = None
    if replay:
        try:
            seam_of_replay = (json.load(open(replay)).get("replay") or {}).get("seam")
        except Exception as e:  # noqa
            checklib.tool_error("cannot read replay file %s: %s" % (replay, e))
        seams = [s for s in SEAMS if s[0] == seam_of_replay]
        if not seams:
            checklib.tool_error("replay file names unknown seam %r" % seam_of_replay)
    hooks = [GEN] + [s[1] for s in seams]
    ov = _own_overlay(checklib.gen_overlay(CID, hooks))
    bd = checklib.build_dir(CID)

    def build(s):
        return s[0], checklib.go_test_build(CID, s[1], ov, out=os.path.join(bd, "t-%s.bin" % s[0]), tags=TAGS)

    bins = {}
    with concurrent.futures.ThreadPoolExecutor(max_workers=3) as ex:
        for name, path in ex.map(build, seams):
            bins[name] = path
    scratch = checklib.scratch_root(CID)
    try:
        if replay:
            s = seams[0]
            env = {"VERIF_REPLAY": os.path.abspath(replay)}
            reps = checklib.run_workers(CID, bins[s[0]], s[2], "quick", 1, 600, scratch, extra_env=env)
            nv = sum(r.get("n_violations", 0) for r in reps)
            for r in reps:
                for v in r.get("violations") or []:
                    print("REPLAY-VIOLATION kind=%s key=%s\n  %s" % (v["kind"], v["key"], v["detail"][:1500]))
            print("replay: %s" % ("still fails" if nv else "passes"))
            return 1 if nv else 0
        dl = int(os.environ.get("VERIF_DEADLINE_S", DEADLINE[tier]))
        reports = []
        per_seam = {}
        for s in seams:
            ts = time.time()
            sdir = os.path.join(scratch, s[0])
            os.makedirs(sdir, exist_ok=True)
            reps = checklib.run_workers(CID, bins[s[0]], s[2], tier, s[4], dl, sdir)
            per_seam[s[0]] = {"evaluations": sum(r.get("evaluations", 0) for r in reps),
                              "violations_including_known": sum(r.get("n_violations", 0) for r in reps),
                              "exhaustive": all(r.get("exhaustive", False) for r in reps),
                              "wall_s": round(time.time() - ts, 1)}
            checklib.log("seam %s: %s" % (s[0], per_seam[s[0]]))
            # finish() keeps the first 12 samples it meets: leave two per seam so that every seam is represented
            kept = 0
            for r in reps:
                ss = r.get("samples") or []
                r["samples"] = ss[:max(0, 2 - kept)]
                kept += len(r["samples"])
            reports += reps
            shutil.rmtree(sdir, ignore_errors=True)
        return checklib.finish(CID, tier, "exploration", RULE, reports, t0, ASSUMPTIONS,
                               extra_cov={"per_seam": per_seam, "seams": [s[0] for s in seams]})
    finally:
        shutil.rmtree(scratch, ignore_errors=True)
