SPEC = dict(
    also=[],
    pkg="engine",
    hooks=["engine", "lib/fileops"],
    test="TestVerifC01",
    level="fault_enumeration",
    workers=16,
    deadline={"quick": 280, "thorough": 2400},
    rule="every history over {8 write batches, flush, drop measurement} up to the length bound plus W^a F W^b overwrite histories, for "
         "each WAL partition count, runs on a real shard whose lib/fileops mutations are recorded; a crash image (sparse copy of the "
         "shard tree) is frozen before EVERY mutation and after every torn prefix of every write; each distinct image is recovered "
         "with the real open path (compaction-log recovery, WAL replay) and its full dump compared with the last-write-wins reference "
         "as of the last acknowledged op (in-flight op: absent or complete); evaluations = recoveries, distinct_nontrivial = distinct "
         "crash images holding data or taken inside an op",
    assumptions=["process-crash model: the OS survives, un-synced blocks are not lost",
                 "mutations that bypass lib/fileops are not crash points themselves (images are still frozen copies of the real tree)",
                 "logical clock of the index is advanced on every reopen, as the meta service does for a restarted store"],
)
CLAIMED = True
MANIFEST = dict(
    level="fault_enumeration", engine="crashfs",
    technique="exhaustive crash-point enumeration (every file-system mutation and torn-write prefix of bounded write/flush/drop histories) with real recovery and a last-write-wins reference",
    text="For every bounded history and WAL partition count, every crash image between two file-system mutations (and torn variants of each write, "
         "and crashes inside recovery for the shortest histories) is recovered by the real code and compared with the reference of acknowledged writes.",
    note="Trusts the lib/fileops recorder (overlay), the sparse tree copy and the reference model; process-crash model only; one shard.",
)
