SPEC = dict(
    also=[],
    pkg="engine",
    hooks=["engine", "lib/fileops"],
    test="TestVerifC01",
    level="fault_enumeration",
    workers=16,
    deadline={"quick": 280, "thorough": 2400},
    rule="every history over {8 write batches, flush, drop measurement} up to the length bound plus W^a F W^b overwrite histories, for "
         "each WAL partition count, runs on a real shard whose lib/fileops mutations are recorded; a crash image (sparse copy of the "
         "shard tree) is frozen before EVERY mutation and after every torn prefix of every write; each distinct image is recovered "
         "with the real open path (compaction-log recovery, WAL replay) and its full dump compared with the last-write-wins reference "
         "as of the last acknowledged op (in-flight op: absent or complete); evaluations = recoveries, distinct_nontrivial = distinct "
         "crash images holding data or taken inside an op; "
         "a second binary built with the WAL file size shrunk to 16 bytes (and the log's buffer-size constants to 8 / 32 bytes) runs long overwrite histories (22+ writes) so that log-file "
         "roll-over and multi-digit file sequences are reached, crash images split over the workers",
    assumptions=["process-crash model: the OS survives, un-synced blocks are not lost",
                 "mutations that bypass lib/fileops are not crash points themselves (images are still frozen copies of the real tree)",
                 "logical clock of the index is advanced on every reopen, as the meta service does for a restarted store"],
)


def _rotation_overlay(cid, tier):
    """engine/wal.go of the CURRENT tree with DefaultFileSize shrunk, so that every WAL record rolls the log file."""
    import os, re
    import checklib
    src = os.path.join(checklib.REPO, "engine/wal.go")
    txt = open(src).read()
    new, n = re.subn(r"DefaultFileSize\s*=\s*10 \* 1024 \* 1024", "DefaultFileSize   = 16", txt)
    # the other size constants of the log (compression buffer size, largest buffer handed back to the pool) are shrunk
    # as well where they are spelled as expected, so that whatever they gate is crossed by the small records of the
    # universe; on the unchanged tree they only decide about buffer pooling
    new, _ = re.subn(r"WalCompBufSize\s*=\s*256 \* 1024", "WalCompBufSize    = 8", new)
    new, _ = re.subn(r"WalCompMaxBufSize\s*=\s*2 \* 1024 \* 1024", "WalCompMaxBufSize = 32", new)
    if n != 1:
        # the constant is spelled differently in the tree under test: the roll-over stage cannot be built; this is
        # not a verdict about the property (the first stage still decides), the evidence says exhaustive:false
        checklib.log("C01: constant DefaultFileSize not found in engine/wal.go - roll-over stage skipped")
        return None
    dst = os.path.join(checklib.build_dir(cid), "rotation", "wal.go")
    os.makedirs(os.path.dirname(dst), exist_ok=True)
    with open(dst, "w") as fh:
        fh.write(new)
    return {src: dst}


def run(tier, replay):
    import json, os, shutil, time
    import checklib
    cid = "C01"
    t0 = time.time()
    rotation_replay = False
    if replay:
        try:
            rotation_replay = bool((json.load(open(replay)).get("replay") or {}).get("rotation"))
        except (OSError, ValueError):
            pass
        if not rotation_replay:
            return checklib.run_gotest_check(cid, "quick", SPEC, replay)
    hooks = SPEC["hooks"]
    reports = []
    scratch = checklib.scratch_root(cid)
    try:
        dl = int(os.environ.get("VERIF_DEADLINE_S", SPEC["deadline"][tier]))
        if not replay:
            ov = checklib.gen_overlay(cid, hooks)
            binp = checklib.go_test_build(cid, SPEC["pkg"], ov)
            reports += checklib.run_workers(cid, binp, SPEC["test"], tier, SPEC["workers"], dl, os.path.join(scratch, "a"))
        # stage 2: roll-over binary (tiny WAL file size), long overwrite histories, crash images split over the workers
        rot = _rotation_overlay(cid, tier)
        if rot is None:
            if replay:
                checklib.tool_error("replay of a roll-over case needs the shrunk WAL file size, which cannot be built for this tree")
            reports.append({"evaluations": 0, "exhaustive": False, "counters": {"rotation_stage_skipped": 1},
                            "notes": ["roll-over stage skipped: DefaultFileSize constant not found in engine/wal.go"]})
            return checklib.finish(cid, tier, SPEC["level"], SPEC["rule"], reports, t0, SPEC.get("assumptions"))
        ov2 = checklib.gen_overlay(cid, hooks, rot)
        bin2 = checklib.go_test_build(cid, SPEC["pkg"], ov2, out=os.path.join(checklib.build_dir(cid), "t-rotation.bin"))
        env = {"VERIF_C01_MODE": "rotation"}
        if replay:
            env["VERIF_REPLAY"] = os.path.abspath(replay)
            reps = checklib.run_workers(cid, bin2, SPEC["test"], "quick", 1, 900, os.path.join(scratch, "r"), extra_env=env)
            nv = sum(r.get("n_violations", 0) for r in reps)
            for r in reps:
                for v in r.get("violations") or []:
                    print("REPLAY-VIOLATION kind=%s key=%s\n  %s" % (v["kind"], v["key"], v["detail"][:1500]))
            print("replay: %s" % ("still fails" if nv else "passes"))
            return 1 if nv else 0
        reports += checklib.run_workers(cid, bin2, SPEC["test"], tier, SPEC["workers"], max(120, dl // 2), os.path.join(scratch, "b"), extra_env=env)
        return checklib.finish(cid, tier, SPEC["level"], SPEC["rule"], reports, t0, SPEC.get("assumptions"))
    finally:
        shutil.rmtree(scratch, ignore_errors=True)


CLAIMED = True
MANIFEST = dict(
    level="fault_enumeration", engine="crashfs",
    technique="exhaustive crash-point enumeration (every file-system mutation and torn-write prefix of bounded write/flush/drop histories) with real recovery and a last-write-wins reference",
    text="For every bounded history and WAL partition count, every crash image between two file-system mutations (and torn variants of each write, "
         "and crashes inside recovery for the shortest histories) is recovered by the real code and compared with the reference of acknowledged writes.",
    note="Trusts the lib/fileops recorder (overlay), the sparse tree copy and the reference model; process-crash model only; one shard.",
)
