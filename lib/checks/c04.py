import json, os, subprocess
import checklib

PKGS = ["engine", "engine/immutable", "engine/mutable", "lib/scheduler"]


def overlay_extra(cid, tier):
    """sync -> vsync shim and go -> sched.Go in the packages under the controlled scheduler (from the CURRENT tree)."""
    bd = checklib.build_dir(cid)
    ovgen = os.path.join(bd, "ovgen")
    r = subprocess.run(["go", "build", "-o", ovgen, "."], cwd=os.path.join(checklib.VERIF, "ovgen"),
                       env=dict(checklib.goenv(), GOFLAGS=""), stdout=subprocess.PIPE, stderr=subprocess.STDOUT, text=True)
    if r.returncode != 0:
        checklib.tool_error("ovgen build failed:\n" + r.stdout)
    out = os.path.join(bd, "rewritten")
    subprocess.run(["rm", "-rf", out])
    r = subprocess.run([ovgen, "-repo", checklib.REPO, "-out", out] + PKGS, stdout=subprocess.PIPE, stderr=subprocess.PIPE, text=True)
    if r.returncode != 0:
        checklib.tool_error("ovgen failed:\n" + r.stderr)
    d = json.loads(r.stdout)
    checklib.log("ovgen: %d files rewritten, %s" % (len(d["replace"]), d["stats"]))
    return d["replace"]


SPEC = dict(
    pkg="engine",
    hooks=["engine", "engine/immutable", "lib/fileops"],
    test="TestVerifC04",
    overlay_extra=overlay_extra,
    level="exploration",
    workers=16,
    deadline={"quick": 240, "thorough": 2400},
    env={"GOMAXPROCS": "2"},
    rule="13 scenarios of 2-3 real goroutines (writer(s), reader with two consecutive dumps, ForceFlush, ONE TICK OF THE BACKGROUND "
         "SNAPSHOT LOOP as an explicit thread with the memtable over its size limit, level compaction, full compaction, out-of-order merge, "
         "DropMeasurement of the queried and of another measurement, Close) on a pre-loaded real shard run under a controlled scheduler whose "
         "scheduling points are the lock acquisitions of engine, engine/immutable, engine/mutable and lib/scheduler. "
         "PREEMPTION-BOUNDED (S5, S4a, S4b, S9 in both tiers; S1, S3, S4c, S4d in thorough): EVERY schedule with at most <bound> preemptions "
         "(at any of these points, plus one 'a timer fires now' choice) is executed; switches at points where the running thread blocked or "
         "finished are unbounded. "
         "DELAY-BOUNDED (S6, S7 = snapshot tick || ForceFlush || reader/writer, S8a, S8b = drop || reader || writer, in both tiers; S1, S2, S3, "
         "S4c, S4d in quick; S2 in thorough): choice 0 follows a family-first deterministic scheduler, every schedule with at most <bound> "
         "preemptions AND at most F switches away from that scheduler at blocking/finishing points is executed (F = 1 quick, 2 thorough); "
         "S6-S8 without the explicit timer choice; in S6/S7 preemptions are offered only where the thread to be pre-empted is about to lock "
         "inside enableForceFlush, disableForceFlush, shouldSnapshot, writeSnapshot, cloneReaders, writeRows, AddBothTSSPFiles, makeTSSPFiles, "
         "GetBothFilesRef (the snapshotLock / file-publication "
         "seam), elsewhere at every point. Depth-first over choice points, bounds iterated 0,1,(2); each execution is checked against the "
         "acknowledged-write history; evaluations = executions, distinct_nontrivial = distinct (scenario, schedule) pairs plus distinct "
         "outcomes; counters scenario_bounds_completed_<S> = (workers x bounds) that finished their share of <S>",
    assumptions=["sequential consistency between scheduling points; data races are outside this check",
                 "Go RWMutex writer preference is not modelled (a thread enters Lock only when the lock is free)",
                 "code of packages that are not rewritten (index, lib/*) runs atomically between points",
                 "virtual time (testing/synctest): timers fire only when no thread is enabled",
                 "S6/S7: the shard's own 100 ms snapshot ticker is gated off (its shouldSnapshot answers false); the background flush "
                 "happens only as the scenario's tick thread, at most once per execution, triggered by the size limit (set to 1 byte)",
                 "series of the scenario alphabet are created in the index one at a time before the preload (fixed series ids; the "
                 "mergeset index assigns ids from unscheduled queue goroutines)"],
)


def run(tier, replay):
    """Scheduler exploration (deciding step); thorough adds the free-running -race side pass (caveat only)."""
    import shutil, time
    if replay or tier != "thorough" or os.environ.get("VERIF_C04_SKIP_RACE"):
        return checklib.run_gotest_check("C04", tier if not replay else "quick", SPEC, replay)
    t0 = time.time()
    cid = "C04"
    ov = checklib.gen_overlay(cid, SPEC["hooks"], overlay_extra(cid, tier))
    binp = checklib.go_test_build(cid, SPEC["pkg"], ov)
    scratch = checklib.scratch_root(cid)
    try:
        dl = int(os.environ.get("VERIF_DEADLINE_S", SPEC["deadline"][tier]))
        reps = checklib.run_workers(cid, binp, SPEC["test"], tier, SPEC["workers"], dl, os.path.join(scratch, "a"), extra_env=SPEC.get("env"))
        extra = {}
        try:
            ov2 = checklib.gen_overlay(cid, SPEC["hooks"])  # no shim: plain sync, plain go statements
            rbin = checklib.go_test_build(cid, SPEC["pkg"], ov2, out=os.path.join(checklib.build_dir(cid), "t-race.bin"), race=True)
            rdir = os.path.join(scratch, "race")
            rreps = checklib.run_workers(cid, rbin, "TestVerifC04Race", tier, 8, 600, rdir, extra_env={"GORACE": "halt_on_error=0"},
                                         keep_logs=True, mem_kb=None, allow_nonzero=True)  # go test exits 1 when the detector fired
            races = 0
            sites = set()
            for i in range(8):
                lp = os.path.join(rdir, "w%d" % i, "log.txt")
                if os.path.exists(lp):
                    txt = open(lp, errors="replace").read()
                    races += txt.count("WARNING: DATA RACE")
                    for blk in txt.split("WARNING: DATA RACE")[1:]:
                        for line in blk.splitlines():
                            line = line.strip()
                            if line.startswith("/") and "/repo/" in line:
                                sites.add(line.split(" ")[0].split("/repo/")[-1])
                                break
            extra = {"race_pass": {"executions": sum(r.get("evaluations", 0) for r in rreps), "data_race_reports": races,
                                   "first_repo_frames": sorted(sites)[:20],
                                   "oracle_violations_free_running": sum(r.get("n_violations", 0) for r in rreps),
                                   "note": "auxiliary free-running -race pass; a caveat on the sequential-consistency assumption, not a verdict"}}
            for r in rreps:
                for v in r.get("violations") or []:
                    reps.append({"evaluations": 0, "violations": [v], "n_violations": 1, "counters": {}, "exhaustive": True, "notes": [], "_distinct": set()})
        except SystemExit:
            extra = {"race_pass": {"note": "race binary could not be built or run; side pass skipped"}}
        return checklib.finish(cid, tier, SPEC["level"], SPEC["rule"], reps, t0, SPEC.get("assumptions"), extra_cov=extra)
    finally:
        shutil.rmtree(scratch, ignore_errors=True)


CLAIMED = True
MANIFEST = dict(
    level="exploration", engine="sched",
    technique="stateless model checking of the real implementation: controlled scheduler over real goroutines, exhaustive preemption-bounded DFS of interleavings, history oracle per execution",
    text="All interleavings of small writer/reader/flush/compaction/merge/close harnesses with at most 1 (quick) / 2 (thorough) preemptions at lock "
         "acquisitions are executed on the real engine, plus delay-bounded enumerations (<= 1/2 preemptions and <= 1/2 departures from a "
         "family-first scheduler) of background-snapshot-tick || ForceFlush || reader/writer and DropMeasurement || reader || writer; every "
         "execution is checked for lost acknowledged points, torn or stale values, duplicates, disappearing rows (unless dropped), panics and "
         "deadlocks. A run that hits its deadline reports exhaustive=false and which (scenario, bound) shares were completed.",
    note="Trusts the sync shim (overlay rewrite of four packages), testing/synctest quiescence detection, and the history oracle.",
)
