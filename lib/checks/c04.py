import json, os, subprocess
import checklib

PKGS = ["engine", "engine/immutable", "engine/mutable", "lib/scheduler"]


def overlay_extra(cid, tier):
    """sync -> vsync shim and go -> sched.Go in the packages under the controlled scheduler (from the CURRENT tree)."""
    bd = checklib.build_dir(cid)
    ovgen = os.path.join(bd, "ovgen")
    r = subprocess.run(["go", "build", "-o", ovgen, "."], cwd=os.path.join(checklib.VERIF, "ovgen"),
                       env=dict(checklib.goenv(), GOFLAGS=""), stdout=subprocess.PIPE, stderr=subprocess.STDOUT, text=True)
    if r.returncode != 0:
        checklib.tool_error("ovgen build failed:\n" + r.stdout)
    out = os.path.join(bd, "rewritten")
    subprocess.run(["rm", "-rf", out])
    r = subprocess.run([ovgen, "-repo", checklib.REPO, "-out", out] + PKGS, stdout=subprocess.PIPE, stderr=subprocess.PIPE, text=True)
    if r.returncode != 0:
        checklib.tool_error("ovgen failed:\n" + r.stderr)
    d = json.loads(r.stdout)
    checklib.log("ovgen: %d files rewritten, %s" % (len(d["replace"]), d["stats"]))
    return d["replace"]


SPEC = dict(
    pkg="engine",
    hooks=["engine", "engine/immutable", "lib/fileops"],
    test="TestVerifC04",
    overlay_extra=overlay_extra,
    level="exploration",
    workers=16,
    deadline={"quick": 240, "thorough": 2400},
    env={"GOMAXPROCS": "2"},
    rule="8 scenarios of 2-3 real goroutines (writer(s), reader with two consecutive dumps, flush, level compaction, out-of-order merge, "
         "drop, close) on a pre-loaded real shard run under a controlled scheduler whose scheduling points are the lock acquisitions of "
         "engine, engine/immutable, engine/mutable and lib/scheduler; EVERY schedule with at most <bound> preemptions is executed "
         "(depth-first over choice points, bounds iterated 0,1,(2)); each execution is checked against the acknowledged-write history; "
         "evaluations = executions, distinct_nontrivial = distinct (scenario, schedule) pairs plus distinct outcomes",
    assumptions=["sequential consistency between scheduling points; data races are outside this check",
                 "Go RWMutex writer preference is not modelled (a thread enters Lock only when the lock is free)",
                 "code of packages that are not rewritten (index, lib/*) runs atomically between points",
                 "virtual time (testing/synctest): timers fire only when no thread is enabled"],
)
CLAIMED = True
MANIFEST = dict(
    level="exploration", engine="sched",
    technique="stateless model checking of the real implementation: controlled scheduler over real goroutines, exhaustive preemption-bounded DFS of interleavings, history oracle per execution",
    text="All interleavings of small writer/reader/flush/compaction/merge/close harnesses with at most 1 (quick) / 2 (thorough) preemptions at lock "
         "acquisitions are executed on the real engine; every execution is checked for lost acknowledged points, torn or stale values, "
         "duplicates, disappearing rows, panics and deadlocks.",
    note="Trusts the sync shim (overlay rewrite of four packages), testing/synctest quiescence detection, and the history oracle.",
)
