"""C06 - what is written through the line protocol is exactly what queries return.

Stage (a) "pure" (this file + hooks/lib/util/lifted/vm/protoparser/influx/c06_test.go): every text of a
bounded line-protocol grammar goes through the code the HTTP write handler schedules
(unmarshalWork.Unmarshal -> PointRows.Unmarshal -> Row), then into the series index key and a column record
(record.AppendRowToRecord -> AppendFieldsToRecord) and is read back typed; an independent strconv-based
reference reader of the documented grammar decides what the text means.
Stage (b) black box (/write + /query) is appended in run() by the lead.
"""
import json, os, shutil, sys, time

sys.path.insert(0, os.path.dirname(os.path.dirname(os.path.abspath(__file__))))
import checklib

CID = "C06"
PKG = "lib/util/lifted/vm/protoparser/influx"
TEST = "TestVerifC06"
LEVEL = "exploration"
WORKERS = 16
DEADLINE = {"quick": 150, "thorough": 1800}
RULE = ("every text of the grammar (identifier/tag value/string texts of length <= 6 (quick) / 7 (thorough) over "
        "{a , SP = \" \\ e-acute} in 10 line templates; every numeric spelling [+-]?d*(.d*)?([eE][+-]?d*)?[iuf]? with <= 2 "
        "digits per part + boundary integers + near-miss list; timestamps x precisions; all ordered pairs of 40 "
        "valid/odd/invalid lines x separators) is evaluated; every accepted batch is additionally shipped through the row "
        "batch codec (FastMarshalMultiRows -> FastUnmarshalMultiRows into the store-side decoder state) and must read back "
        "identically; every ordered pair of 60 (quick) / 156 (thorough) request bodies of one or two lines differing in "
        "measurement, tag count and field set goes through ONE reused store-side decoder; distinct_nontrivial = distinct (precision,text) accepted "
        "by the real write path or by the reference reader (texts rejected by both are trivial)")
ASSUMPTIONS = [
    "the reference reader (own scanner + strconv.ParseInt/ParseUint/ParseFloat) is the meaning of a line: InfluxDB v1 "
    "line protocol as documented; `\\\\` in identifiers and `\\=` in measurements are ambiguous in the docs and either reading is accepted",
    "unusual but unambiguous spellings (+1, .5, 5., 1f, leading zeros, extra spaces, negative timestamps, empty tag, "
    "unescaped = in a tag value, quote in a field key, duplicate keys) may be rejected or accepted with the fixed meaning",
    "stage (a) stops at the column record of the mem table; precision -> multiplier is a copy of the switch in serveWrite; "
    "points_writer (field de-duplication, time range check) and the query side are covered by the black-box stage",
    "a line without timestamp must get a timestamp inside the wall-clock window of the call",
]

CLAIMED = True
MANIFEST = dict(
    level=LEVEL,
    engine="enumx",
    technique="bounded exhaustive enumeration of line-protocol texts (all written forms up to a length bound, all numeric "
              "spellings up to 2 digits per part, boundary integers, timestamps x precisions, all ordered line pairs) with a "
              "differential oracle: independent strconv-based reference reader vs the real parser + index key + column record read back, "
              "also after the sql->store row batch codec with a reused decoder (all ordered pairs of request bodies); black-box stage "
              "over HTTP /write and /query incl. all ordered pairs of field sets of one series in one memtable",
    text="Every text of a finite line-protocol grammar is pushed through the real write-path parser "
         "(unmarshalWork.Unmarshal), the series index key and a column record, read back typed and compared with an "
         "independent reference reader of the documented grammar: valid line -> same measurement, tag set, timestamp, typed "
         "values (int64 exact, float64 bit-exact, strings byte-exact, booleans); invalid line -> error and nothing stored. "
         "Exhaustive within the stated bounds.",
    note="Trusts: Go strconv; the reference reader's reading of the documented grammar (leniency list in notes/C06.md); the "
         "copy of the precision table. Does not cover points_writer/query rendering (black-box stage) nor texts beyond the bounds.",
)


def _build():
    # only this check's own hook files: other checks keep harnesses in the same package directory
    import glob
    extra = {}
    for f in sorted(glob.glob(os.path.join(checklib.VERIF, "hooks", PKG, "c06_*.go"))):
        extra[os.path.join(checklib.REPO, PKG, "zz_verif_" + os.path.basename(f))] = f
    ov = checklib.gen_overlay(CID, [], extra)
    return checklib.go_test_build(CID, PKG, ov)


def run_pure(tier, binp=None):
    """Stage (a): returns the list of worker reports (to be merged by checklib.finish)."""
    binp = binp or _build()
    scratch = checklib.scratch_root(CID)
    try:
        dl = int(os.environ.get("VERIF_DEADLINE_S", DEADLINE[tier]))
        return checklib.run_workers(CID, binp, TEST, tier, WORKERS, dl, scratch)
    finally:
        shutil.rmtree(scratch, ignore_errors=True)


def replay_pure(path):
    binp = _build()
    scratch = checklib.scratch_root(CID)
    try:
        reps = checklib.run_workers(CID, binp, TEST, "quick", 1, 600, scratch,
                                    extra_env={"VERIF_REPLAY": os.path.abspath(path)})
    finally:
        shutil.rmtree(scratch, ignore_errors=True)
    nv = sum(r.get("n_violations", 0) for r in reps)
    for r in reps:
        for v in r.get("violations") or []:
            print("REPLAY-VIOLATION kind=%s key=%s\n  %s" % (v["kind"], v["key"], v["detail"][:1500]))
    print("replay: %s" % ("still fails" if nv else "passes"))
    return 1 if nv else 0


def run(tier, replay):
    t0 = time.time()
    if replay:
        stage = "pure"
        try:
            stage = (json.load(open(replay)).get("replay") or {}).get("stage", "pure")
        except (OSError, ValueError):
            pass
        if stage == "pure":
            return replay_pure(replay)
        if stage == "blackbox":
            import c06_blackbox
            case = json.load(open(replay))["replay"]["case"]
            reps = c06_blackbox.run_blackbox("quick", only_case=case)
            for v in reps[0]["violations"]:
                print("REPLAY-VIOLATION kind=%s key=%s\n  %s" % (v["kind"], v["key"], v["detail"][:1500]))
            print("replay: %s" % ("still fails" if reps[0]["n_violations"] else "passes"))
            return 1 if reps[0]["n_violations"] else 0
        checklib.tool_error("unknown replay stage %r" % stage)
    reports = run_pure(tier)
    # stage (b) black box: the same kind of texts through POST /write and GET /query of a real ts-server
    if os.environ.get("VERIF_C06_SKIP_BLACKBOX", "") == "":
        import c06_blackbox
        reports += c06_blackbox.run_blackbox(tier)
    return checklib.finish(CID, tier, LEVEL, RULE, reports, t0, ASSUMPTIONS)
