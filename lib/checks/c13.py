"""C13 - dropping removes exactly what was named, for every kind of read, for good (black box).

Bounded exhaustive enumeration (odometer, no randomness) of two families of histories on a real ts-server
(lib/blackbox.py):
    one drop :  layout x drop x pre-read x continuation x restart
    two drops:  layout x drop1 x re-creation step x drop2 x flush between x tail x restart   (c13_model, "two")
One-drop DROP SERIES histories share one database (a measurement pair per history), every other history has a database
of its own, so that hundreds of histories share one server start; flushes / compaction waits / kill -9 are global and
therefore batched: the histories are right-aligned on the server's barrier string (see c13_model.segments) so that a
foreign flush never hits a history whose memtable is non-empty. The two-drop histories run on servers of their own
(one driver process per server). Oracle: reference map with deletion (c13_model.Ref); every read shape must equal the
reference at every checkpoint (after each acknowledged drop, after the re-creation step, after the continuation, after
restart, after the points written since the drop were sent once more after the restart).
"""
import concurrent.futures as cf
import glob, hashlib, json, multiprocessing, os, shutil, sys, threading, time

sys.path.insert(0, os.path.dirname(os.path.dirname(os.path.abspath(__file__))))
import checklib, blackbox
import c13_model as M

CID = "C13"
LEVEL = "exploration"
RULE = ("odometer (no randomness) over two families of histories, every history executed on the real ts-server. ONE DROP: layout {memory, "
        "flushed, flushed + late out-of-order file, mixed files/memtable (thorough), compacted (thorough, second server with full "
        "compaction, two shared waits)} x drop {DROP SERIES with =, !=, =~, !~, AND, OR predicates and without WHERE, selecting none / "
        "some / all of 3 series (8 quick, 13 thorough); DROP MEASUREMENT; DROP RETENTION POLICY; DROP DATABASE} x pre-read {no, yes} x "
        "continuation {none, rewrite same series / re-create + write, flush, rewrite + flush, rewrite + flush + compaction (thorough), "
        "kill -9 right after the acknowledgement} x restart {no, kill -9 (+ a second, clean restart in thorough)}, plus one "
        "cross-database scenario. TWO DROPS (target measurement under retention policy rp2 of a database of its own, the same "
        "measurement name under the default policy, a bystander measurement, a bystander database): layout {memory, flushed, reopened = "
        "flushed and the server killed and started again before the first drop; thorough adds late, mixed, prior = an unrelated series "
        "dropped earlier} x drop1 {DROP SERIES WHERE host = 'a', DROP SERIES without WHERE, DROP MEASUREMENT, DROP RETENTION POLICY, DROP "
        "DATABASE} x re-creation step {nothing; the same series again; new series with a smaller tag set - both re-create the dropped "
        "database / policy under the same name first, the measurement is re-created by the write} x drop2 {DROP SERIES WHERE host = x "
        "selecting a strict subset of what is there, DROP SERIES without WHERE, DROP MEASUREMENT, DROP RETENTION POLICY, DROP DATABASE} "
        "pruned by one rule: drop2 is enumerated iff on the reference the object it names exists at that point and the statement "
        "removes at least one series (the subset form must also leave one) - 61 of 75 statement combinations; x tail {flush; write again "
        "(re-creating what drop2 removed) + flush; thorough adds: none, flush between re-creation and drop2} x kill -9 restart (+ a "
        "clean one in thorough), then the points written after the drops are sent once more. At every checkpoint (before drop if "
        "pre-read, after each drop, after the re-creation step / rewrite, after flush, after compaction, after each restart, after the "
        "repeated write) every read shape (plain; host =, !=, =~, !~ for two values; region =; field filter; tag+field filter; group "
        "by tag; count group by time(1m) with bounds; count group by tag; count; count with /*+ exact_statistic_query */; show "
        "series; show tag keys; show tag values with key = host) on the target measurement and 4 shapes on each bystander (other "
        "measurement, other retention policy, other database) are compared with the reference map with deletion. evaluations = "
        "(history, checkpoint, read shape) comparisons; distinct_nontrivial = distinct (history, read shape) pairs of histories whose "
        "drops removed at least one series while other series / measurements had to stay")
ASSUMPTIONS = [
    "single node (ts-server), one partition, default shard duration; all timestamps in one shard group",
    "a read that fails with 'not found' / 'is being delete' for a dropped database / retention policy / measurement counts as an empty answer",
    "SHOW TAG KEYS (answered from the catalogue schema) may keep listing tag keys of a measurement that still exists after its series were dropped",
    "visibility barrier (DESIGN 1): after every write and after every restart the driver polls the read shapes until every row of the "
    "reference is returned; a time-out is a tool error (or, in a history that already has a violation, the end of that history); no "
    "barrier between the acknowledgement of a drop and the reads that follow it",
    "memtable auto-flush is switched off (write-cold-duration = 1h) and compaction / out-of-order merge are switched off on the main "
    "servers so that the layout of a history is what the history says; the compaction server keeps them on",
    "one-drop DROP SERIES histories share one database (measurement names per history) and are driven concurrently in batches between the "
    "global barriers (flush, compaction wait, kill -9); the statement is about sequential histories, so the delete index of the shared "
    "database is created by one sequential DROP SERIES before the batches start; CREATE / DROP DATABASE statements of different "
    "histories are issued one at a time (concurrent database DDL crashes the server in getRetentionPolicyCount - not this property)",
    "rewrites after the drop use new timestamps (overwriting a surviving point across a flush is C09's subject); the repeated write "
    "after the restart sends identical points and is compared on the row-returning shapes and the listings only",
    "a re-created retention policy / database is a fresh container: nothing of the old one may be returned again (strict, the "
    "statement's 'never reappears'), the second drop inside it must remove exactly what it names (strict, first sentence of the "
    "statement applied to that drop); rows written into it that never become visible are a tool error, not a verdict (the statement "
    "promises 'as writes to a fresh one' for series and measurements only)",
    "two-drop histories keep the target measurement under two retention policies: a listing FROM the measurement may answer with the "
    "series under the named (default) policy or with those under every policy of the database (the statement does not define the "
    "span of a listing); dropped series are in neither",
    "a drop (or re-creation) statement refused with 'is being delete' / 'retention policy not found' while the store still carries out "
    "the previous drop of the same database is not acknowledged and is repeated until it is",
    "the crash part of DROP MEASUREMENT (crash images inside the drop) is explored in-process by C01, not here",
]

CLAIMED = True
MANIFEST = dict(
    level=LEVEL,
    engine="blackbox",
    technique="bounded exhaustive enumeration of drop histories (one drop: layout x drop statement x pre-read x continuation x restart; "
              "two drops: layout x drop1 x re-creation step x drop2 x tail x restart, pruned by a stated rule) on the real server over "
              "HTTP, with a reference map with deletion as differential oracle for 21 read shapes per checkpoint",
    text="Every history of the bounded alphabet (data in memory / flushed / out-of-order / mixed / compacted / re-opened; DROP SERIES with "
         "each predicate operator selecting none, some or all series, DROP MEASUREMENT, DROP RETENTION POLICY, DROP DATABASE; rewrite, "
         "re-create, flush, compaction, kill -9 + restart, kill -9 right after the acknowledgement; and every admissible sequence of two "
         "drop statements with a re-creation step - nothing, the same series, new series in the re-created measurement / policy / "
         "database - in between and a rewrite after) is executed on a real ts-server; after each acknowledged drop, after the "
         "re-creation, after the continuation and after each restart every read shape must equal the reference map with deletion, "
         "bystander measurements / retention policies / databases included. Exhaustive within the stated alphabet.",
    note="Trusts: the HTTP front end and JSON rendering (shared by all shapes), the reference model, single node / single shard group, "
         "the visibility barriers (a row that never becomes visible ends as tool error, not as a verdict). Does not cover crash points "
         "inside a drop (C01), multi-node drops, concurrent drops, sequences of three or more drops, time-bounded deletes, the hourly "
         "physical purge of dropped series.",
)

POOL = 48
BEING_DELETED = __import__('re').compile(r'being delete', __import__('re').I)
DROP_TRANSIENT = __import__('re').compile(r'being delete|retention policy not found', __import__('re').I)
BARRIER_TIMEOUT = 240  # generous: on the shared build machine the whole server process was seen frozen for minutes
FAILED_BARRIER_TIMEOUT = 60
COMPACT_TIMEOUT = 420
QUIET_BEFORE_KILL = 4.0
START_WAIT = 180  # a start with several hundred databases on the loaded build machine
PAD = 5000  # > duration of the longest run in seconds


class Server(blackbox.Server):
    """All requests of this check are idempotent (reads; writes of fixed points; create / drop statements), so a
    request that times out on an overloaded machine is repeated; a server that really hangs still ends as tool error."""
    timeouts = 0

    def request(self, method, path, params=None, body=None, headers=None, auth="default", timeout=120):
        for attempt in range(5):
            try:
                return blackbox.Server.request(self, method, path, params=params, body=body, headers=headers, auth=auth,
                                               timeout=timeout)
            except blackbox.ToolError as e:
                if "timed out" in str(e) and self.alive() and attempt < 4:
                    Server.timeouts += 1
                    continue
                raise


_T0 = time.time()


def tlog(msg):
    checklib.log("%s [t+%ds]" % (msg, time.time() - _T0))


class Abandon(Exception):
    pass


class Run:
    """State of one history while it is driven."""

    def __init__(self, h):
        self.h = h
        self.ref = M.Ref()
        self.db = M.dbname(h)
        self.dbb = M.OTHER_DB if h.get("two") else self.db + "b"
        self.m, self.n = M.mname(h), M.nname(h)  # target measurement, untouched bystander
        self.two = bool(h.get("two"))
        # two-drop histories: the kind of the last executed drop; target under rp2 so that every statement can be either drop
        self.dk = None if self.two else M.DROPS[h["drop"]]["kind"]
        self.trp = M.RP2 if (self.two or self.dk == "rp") else M.DEF_RP  # retention policy of the target measurement
        self.key = M.hkey(h)
        self.removed = 0
        self.drops_done = []  # [(n, kind)] acknowledged drops
        self.setup_done = False
        self.again_sent = False  # the points written after the drops were sent once more after the restart
        self.rewritten = []  # [(db, rp, rows)] written by the steps after a drop (sent once more after the restart)
        self.log = []  # executed statements (for the violation detail)
        self.offset = 0
        self.segs = M.segments(h)
        self.failed = False  # a read has already disagreed with the reference
        self.abandoned = False
        if self.db == M.SHARED_DB:
            self.ref.create_db(self.db)


class Driver:
    def __init__(self, tier, srv, runs, rep):
        self.tier, self.srv, self.runs, self.rep = tier, srv, runs, rep
        # CREATE DATABASE iterates the catalogue's database map without its lock (statement_executor.go:getRetentionPolicyCount
        # over metaclient Client.Databases()); a concurrent CREATE / DROP DATABASE applied to the same map kills the server with
        # "fatal error: concurrent map iteration and map write" (seen once with 366 concurrent histories). Concurrent DDL is not
        # this property (the histories are sequential; their concurrency is the harness's batching), so these two statements
        # are issued one at a time.
        self.dblock = threading.Lock()
        self.dblock2 = threading.Lock()
        self.other_db_created = False

    # ---------------------------------------------------------------- low level
    def ddl(self, r, q, db=None, must=True, retry=None):
        t0 = time.time()
        retry = must if retry is None else retry
        # a statement issued while the store is still carrying out an earlier drop in the same database is refused for a
        # moment: "... is being delete", or (DROP MEASUREMENT walking the policies of the database while a marked policy is
        # finally removed) "retention policy not found: <the dropped policy>". Not acknowledged, so it is repeated.
        transient = BEING_DELETED if must else DROP_TRANSIENT
        serial = q.lower().startswith(("create database", "drop database"))
        while True:
            if serial:
                with self.dblock:
                    st, js = self.srv.query(q, db=db, method="POST")
            else:
                st, js = self.srv.query(q, db=db, method="POST")
            err = None
            if st != 200 or js is None:
                err = "http %s %s" % (st, js)
            else:
                res = (js.get("results") or [{}])[0]
                err = res.get("error")
            # re-creating a container whose two-phase drop is still being carried out by the store is refused
            # for a moment ("is being delete"): retried, it is not a wrong answer
            if err and retry and transient.search(err) and time.time() - t0 < BARRIER_TIMEOUT:
                self.rep.count("statement_retries_while_being_deleted", 1)
                time.sleep(0.05)
                continue
            break
        if r is not None:
            r.log.append(q + (" -> ERROR " + err if err else ""))
        if err and must:
            raise blackbox.ToolError("%s failed: %s" % (q, err))
        return err

    def write(self, r, db, rp, rows, recreate=None):
        """rows: [(mst, series (sorted tag tuple), ts, {field: value})]"""
        lines = []
        for mst, series, ts, fields in rows:
            fl = ",".join("%s=%s" % (k, ("%di" % v) if isinstance(v, int) else repr(float(v))) for k, v in fields.items())
            lines.append("%s,%s %s %d" % (mst, ",".join("%s=%s" % kv for kv in series), fl, ts))
        t0 = time.time()
        while True:
            st, body = self.srv.write(db, "\n".join(lines), rp=None if rp == M.DEF_RP else rp)
            if st == 204:
                break
            # a database / retention policy created a moment ago may not be known to the write path yet
            # (catalogue cache): eventual visibility, retried; anything else is a tool error
            txt = body.decode(errors="replace")
            if (M.NOT_FOUND.search(txt) or BEING_DELETED.search(txt)) and time.time() - t0 < BARRIER_TIMEOUT:
                self.rep.count("write_retries_container_not_yet_visible", 1)
                time.sleep(0.05)
                if recreate and M.NOT_FOUND.search(txt):
                    # observed: CREATE RETENTION POLICY answered while the same-named policy is still marked as being
                    # deleted is acknowledged but has no effect; the re-creation is repeated until a write is accepted
                    for q in recreate:
                        self.ddl(r, q)
                    self.rep.count("recreate_statements_repeated", 1)
                continue
            raise blackbox.ToolError("write to %s.%s failed: %s %s" % (db, rp, st, body[:300]))
        if r is not None:
            r.log.append("write db=%s rp=%s %s" % (db, rp, "; ".join(lines)))
            for mst, series, ts, fields in rows:
                r.ref.write(db, rp, mst, series, ts, fields)

    def visible(self, r, containers, cold=False):
        """Visibility barrier (DESIGN 1): poll until every read shape returns at least what the reference holds
        (new series / measurements / containers become visible with a lag, the tag-filter cache of the index is
        invalidated with a lag). Only "not yet there" is waited for; a time-out is a tool error, never a verdict."""
        t0 = time.time()
        missing = None
        # a history that already has a violation only waits long enough to tell lag from divergence
        limit = FAILED_BARRIER_TIMEOUT if r.failed else BARRIER_TIMEOUT
        while time.time() - t0 < limit:
            missing = None
            for db, rp, mst in containers:
                # cold: the barrier after the initial load asks no tag-filter query, so that the index's tag-filter
                # cache is cold at the drop unless the history itself reads before the drop (pre = 1)
                full = (db, rp, mst) == (r.db, r.trp, r.m) and not cold
                for name, q, kind, params in self.shapes(r, rp, mst, full):
                    exp = self.bounds(r, db, rp, mst, kind, params)[0]
                    if exp == M.empty_of(kind):
                        continue
                    st, js = self.srv.query(q, db=db)
                    ok, got = M.normalise(kind, st, js)
                    if ok != "ok" or not M.covers(got, exp, kind):
                        missing = (db, rp, mst, name, got)
                        break
                if missing:
                    break
            if missing is None:
                return
            time.sleep(0.1)
        if r.failed:
            # the history has already diverged from the reference (violation recorded): waiting for the reference's
            # rows is meaningless; the rest of the history is not executed
            r.abandoned = True
            self.rep.violation("reference_rows_never_visible_after_divergence", "%s :: barrier :: %s" % (r.key, missing[3]),
                               "history %s: after an earlier violation in this history, rows of the reference did not become "
                               "visible within %ds\n  shape %s on %s.%s.%s\n  got: %s\n  statements: %s" % (
                                   r.key, FAILED_BARRIER_TIMEOUT, missing[3], missing[0], missing[1], missing[2],
                                   json.dumps(M.jsonable(missing[4]))[:600],
                                   " | ".join(x for x in r.log if not x.startswith("write"))), dict(r.h))
            raise Abandon()
        # Time-out. "Nothing of the reference is visible in any read shape" can be the environment (a frozen server) and stays a
        # tool error. But if, after the whole barrier time, one read shape of the container returns the reference's rows and another
        # still does not, the read shapes disagree for good - that is not lag (all shapes are served by the same index flush), it is
        # exactly what the statement forbids ("every kind of read consistently ...").
        db, rp, mst, name, got = missing
        covered = []
        full = (db, rp, mst) == (r.db, r.trp, r.m) and not cold
        for name2, q, kind, params in self.shapes(r, rp, mst, full):
            exp = self.bounds(r, db, rp, mst, kind, params)[0]
            if name2 == name or exp == M.empty_of(kind):
                continue
            st, js = self.srv.query(q, db=db)
            ok, got2 = M.normalise(kind, st, js)
            if ok == "ok" and M.covers(got2, exp, kind):
                covered.append(name2)
        if covered:
            r.abandoned = True
            self.rep.violation("read_shapes_disagree_rows_never_visible", "%s :: barrier :: %s" % (r.key, name),
                               "history %s: %ds after the acknowledgement the read shape %s on %s.%s.%s still does not return what "
                               "the reference holds, while %d other read shapes (%s ...) do\n  got: %s\n  statements: %s" % (
                                   r.key, BARRIER_TIMEOUT, name, db, rp, mst, len(covered), ", ".join(covered[:4]),
                                   json.dumps(M.jsonable(got))[:600],
                                   " | ".join(x for x in r.log if not x.startswith("write"))), dict(r.h))
            raise Abandon()
        raise blackbox.ToolError("visibility barrier timed out for history %s: %s" % (r.key, missing))

    @staticmethod
    def shapes(r, rp, mst, full):
        # two-drop histories have the target measurement under two retention policies: the target's listings name the policy
        return M.shapes_for(rp, mst, full, qualified=r.two and rp != M.DEF_RP)

    @staticmethod
    def bounds(r, db, rp, mst, kind, params):
        """(lower, upper) expectation. They differ only for the listings of a two-drop history, whose measurement exists under
        two retention policies: the statement does not say whether `SHOW ... FROM m` spans the policies of the database (the
        server answers by physical measurement name, name + version, which spans them exactly while the versions coincide), so
        anything from "the series under the named (or default) policy" to "the series under every policy" is accepted. Dropped
        series are in neither bound."""
        hi = M.expected(r.ref, db, rp, mst, kind, params)
        if r.two and kind in M.LISTINGS:
            return M.expected(r.ref, db, rp, mst, kind, params, scope="rp"), hi
        return hi, hi

    def containers(self, r):
        if r.two:
            return [(db, rp, mst) for _, db, rp, mst, _ in M.containers_two(r.h)]
        c = [(r.db, r.trp, r.m), (r.db, M.DEF_RP, r.n)]
        if r.dk == "rp":
            c.append((r.db, M.DEF_RP, r.m))
        if r.dk == "database":
            c.append((r.dbb, M.DEF_RP, r.m))
        return c

    # ---------------------------------------------------------------- tokens
    def do_setup(self, r):
        if r.db != M.SHARED_DB:
            self.ddl(r, 'create database "%s"' % r.db)
            r.ref.create_db(r.db)
        if r.dk == "rp" or r.two:
            self.ddl(r, 'create retention policy "%s" on "%s" duration 0s replication 1' % (M.RP2, r.db))
            r.ref.create_rp(r.db, M.RP2)
        if r.dk == "database":
            self.ddl(r, 'create database "%s"' % r.dbb)
            r.ref.create_db(r.dbb)
        if r.two and M.uses_otherdb(r.h):
            with self.dblock2:
                if not self.other_db_created:
                    self.ddl(None, 'create database "%s"' % r.dbb)
                    self.other_db_created = True
            r.ref.create_db(r.dbb)

    def do_load(self, r, tis):
        if r.two:
            for db, rp, rows in M.load_rows(r.h, tis):
                self.write(r, db, rp, rows)
            self.visible(r, self.containers(r), cold=True)
            return
        rows = []
        for mst, off in ((r.m, 0), (r.n, 1000)):
            for host in "abc":
                for ti in tis:
                    rows.append((mst, M.skey(host), M.TS[ti], {"v": M.val(host, ti, off), "w": M.wval(host, ti)}))
        self.write(r, r.db, M.DEF_RP, rows)
        if r.dk == "rp":
            self.write(r, r.db, M.RP2, [(r.m, M.skey(host), M.TS[ti], {"v": M.val(host, ti, 2000), "w": M.wval(host, ti)})
                                       for host in "abcd" for ti in tis])
        if r.dk == "database":
            self.write(r, r.dbb, M.DEF_RP, [(r.m, M.skey(host), M.TS[ti], {"v": M.val(host, ti, 3000), "w": M.wval(host, ti)})
                                           for host in "abc" for ti in tis])
        self.visible(r, self.containers(r), cold=True)

    def do_rewrite(self, r, second=False):
        """new values for existing / dropped series; re-creates the dropped container first."""
        recreate = []
        if r.db not in r.ref.dbs:
            recreate.append('create database "%s"' % r.db)
            r.ref.create_db(r.db)
        if not r.ref.container_exists(r.db, r.trp):
            recreate.append('create retention policy "%s" on "%s" duration 0s replication 1' % (r.trp, r.db))
            r.ref.create_rp(r.db, r.trp)
        for q in recreate:
            self.ddl(r, q)
        # same series (same tag set) after DROP SERIES; a measurement re-created after DROP MEASUREMENT / RETENTION
        # POLICY / DATABASE gets a smaller tag set so that a stale schema would show. New timestamps: overwriting a
        # surviving point across a flush is C09's subject (count from file statistics), not this property's.
        region = r.dk == "series"
        if not second:
            rows = [(r.m, M.skey("a", region), M.TS[3], {"v": 100001.5}), (r.m, M.skey("b", region), M.TS[3], {"v": 100002.5})]
        else:
            rows = [(r.m, M.skey("a", region), M.TS[4], {"v": 100003.5}), (r.m, M.skey("c", region), M.TS[4], {"v": 100004.5})]
        self.write(r, r.db, r.trp, rows, recreate=recreate)
        r.rewritten.append((r.db, r.trp, rows))
        self.visible(r, [(r.db, r.trp, r.m)])

    def do_recreate(self, r, which):
        """re-creation step of a two-drop history: re-creates what the drops removed (database, retention policy; the
        measurement by writing) and writes into the target; see c13_model.rc_rows"""
        recreate = []
        if r.db not in r.ref.dbs:
            recreate.append('create database "%s"' % r.db)
            r.ref.create_db(r.db)
        if not r.ref.container_exists(r.db, r.trp):
            recreate.append('create retention policy "%s" on "%s" duration 0s replication 1' % (r.trp, r.db))
            r.ref.create_rp(r.db, r.trp)
        for q in recreate:
            self.ddl(r, q)
        self.write(r, r.db, r.trp, M.rc_rows(r.h, which), recreate=recreate)
        r.rewritten.append((r.db, r.trp, M.rc_rows(r.h, which)))
        self.visible(r, [(r.db, r.trp, r.m)])

    def do_again(self, r):
        """After the restart: the points written by the steps after a drop are sent once more, unchanged (an idempotent
        overwrite, only points that are still live in the reference). The shapes that return rows and the listings must not
        change. (The count shapes are left out at this checkpoint: a point that is in a file and in the memtable is counted
        twice by count() without hint - C09's subject, see notes.)"""
        if r.failed:
            return  # the history has already left the reference (a violation is recorded); repeating writes adds nothing
        sent = False
        for db, rp, rows in r.rewritten:
            live = [(mst, series, ts, f) for mst, series, ts, f in rows
                    if r.ref.data.get((db, rp, mst), {}).get(series, {}).get(ts, {}).get("v") == f.get("v")]
            if live:
                self.write(r, db, rp, live)
                sent = True
        if not sent:
            return
        self.rep.count("histories_with_rewrite_after_restart", 1)
        r.again_sent = True
        self.visible(r, [(r.db, r.trp, r.m)])
        for name, q, kind, params in self.shapes(r, r.trp, r.m, True):
            if kind in ("rows", "grouped") or kind in M.LISTINGS:
                self.one_read(r, "after_restart_rewrite", name, q, kind, params, r.db, r.trp, r.m)

    def drop_sql(self, r, n=1):
        d = M.drop_spec(r.h, n)
        if d["kind"] == "series":
            return 'drop series from "%s"' % r.m + (" where " + d["where"] if d["where"] else "")
        if d["kind"] == "measurement":
            return 'drop measurement "%s"' % r.m
        if d["kind"] == "rp":
            return 'drop retention policy "%s" on "%s"' % (M.RP2, r.db)
        return 'drop database "%s"' % r.db

    def do_drop(self, r, n=1):
        q = self.drop_sql(r, n)
        # two-drop histories: a drop issued while the store is still carrying out the previous drop of the same database is
        # refused with "... is being delete" (observed: DROP MEASUREMENT right after DROP RETENTION POLICY; it had already marked
        # the measurement under the other policy, i.e. it is not atomic - DDL atomicity is not this property). Not acknowledged,
        # so the statement is repeated until it is; the pruning rule admits only drops whose object exists, any other refusal is a
        # harness error, not a verdict.
        err = self.ddl(r, q, db=r.db, must=False, retry=r.two)
        if err and r.two:
            raise blackbox.ToolError("history %s: %s refused: %s" % (r.key, q, err))
        if err:
            # not acknowledged: the statement's precondition does not hold; counted, reference unchanged
            self.rep.count("drops_not_acknowledged", 1)
            self.rep.note("drop answered with an error (not acknowledged, reference unchanged): %s -> %s" % (q, err))
            return
        self.rep.count("drops_acknowledged", 1)
        d = M.drop_spec(r.h, n)
        removed = r.ref.apply_drop(d, r.db, M.RP2, r.m, tag=n)
        r.drops_done.append((n, d["kind"]))
        if r.two:
            if n and (removed > 0) != (M.simulate(r.h)[n][1] > 0):
                raise blackbox.ToolError("history %s: drop %d removes %d series in the driver's reference, the enumeration "
                                         "said otherwise" % (r.key, n, removed))
            r.removed += removed
        else:
            r.removed = removed

    def do_check(self, r, label):
        if r.two:
            for prefix, db, rp, mst, full in M.containers_two(r.h):
                if label == "after_recreate" and not full:
                    continue  # the re-creation step only writes into the target; the bystanders are read again after the next drop
                for name, q, kind, params in self.shapes(r, rp, mst, full):
                    self.one_read(r, label, prefix + name, q, kind, params, db, rp, mst)
            return
        targets = [("", r.db, r.trp, r.m, True), ("bystander:", r.db, M.DEF_RP, r.n, False)]
        if r.dk == "rp":
            targets.append(("autogen:", r.db, M.DEF_RP, r.m, False))
        if r.dk == "database":
            targets.append(("otherdb:", r.dbb, M.DEF_RP, r.m, False))
        for prefix, db, rp, mst, full in targets:
            for name, q, kind, params in M.shapes_for(rp, mst, full):
                self.one_read(r, label, prefix + name, q, kind, params, db, rp, mst)

    def one_read(self, r, label, name, q, kind, params, db, rp, mst):
        if r.again_sent and kind in ("count", "gcount", "buckets") and (db, rp, mst) == (r.db, r.trp, r.m):
            # after the repeated write the same point exists in two places (file + memtable, or two files after a clean
            # restart) and count() counts it twice - C09's subject, not a statement about drops
            self.rep.count("count_shapes_skipped_after_repeated_write", 1)
            return
        lo, exp = self.bounds(r, db, rp, mst, kind, params)
        st, js = self.srv.query(q, db=db)
        ok, got = M.normalise(kind, st, js)
        self.rep.evaluation()
        self.rep.count("reads", 1)
        if r.removed > 0:
            self.rep.distinct(r.key + "|" + name)
        if ok == "error":
            gone = (not r.ref.container_exists(db, rp)) or ((db, rp, mst) not in r.ref.msts)
            if gone and lo == M.empty_of(kind) and (M.NOT_FOUND.search(got) or BEING_DELETED.search(got)):
                self.rep.count("not_found_error_read_as_empty", 1)
                return
            kindv = "read_error"
        elif got == exp:
            return
        elif lo != exp and set(lo) <= set(got) <= set(exp):
            self.rep.count("listing_between_policy_and_database_scope_accepted", 1)
            return
        elif kind == "tagkeys" and set(lo) <= set(got) <= r.ref.schema_tag_keys(db, mst):
            # SHOW TAG KEYS without a condition is answered from the schema of the (still existing) measurement;
            # the statement does not say that a schema shrinks when series are dropped
            self.rep.count("tag_keys_from_schema_accepted", 1)
            return
        else:
            kindv = (self.classify_two if r.two else self.classify)(r, label, name, kind, params, db, rp, mst, exp, got)
            if kindv == "dropped_rp_still_returned" and kind in ("series", "tagkeys", "tagvalues"):
                kindv = self.rp_listing(q, db, kind, lo, exp)
        r.failed = True
        detail = ("history %s (db %s) checkpoint %s\n  query: %s\n  expected: %s\n  got:      %s\n  statements: %s" % (
            r.key, db, label, q, json.dumps(M.jsonable(exp)), json.dumps(M.jsonable(got)) if ok == "ok" else got,
            " | ".join(x for x in r.log if not x.startswith("write"))))
        self.rep.violation(kindv, "%s :: %s :: %s" % (r.key, label, name), detail, dict(r.h))

    def rp_listing(self, q, db, kind, lo, exp):
        """The database-wide listings still show the series of a retention policy whose drop was acknowledged. Already
        a violation; this only tells the transient case (gone once the store has carried out the delete) from a
        permanent one, so that the two get different kinds."""
        t0 = time.time()
        while time.time() - t0 < 30:
            st, js = self.srv.query(q, db=db)
            ok, got = M.normalise(kind, st, js)
            if ok == "ok" and set(lo) <= set(got) <= set(exp):
                return "dropped_rp_listed_until_store_delete_done"
            if ok == "error" and lo == M.empty_of(kind) and (M.NOT_FOUND.search(got) or BEING_DELETED.search(got)):
                return "dropped_rp_listed_until_store_delete_done"
            time.sleep(0.2)
        return "dropped_rp_still_listed_after_30s"

    @staticmethod
    def duplicated_rewritten(r, kind, params, db, rp, mst, exp, got):
        """True if got = exp + a second copy of rows of series that were dropped by DROP SERIES and written again (the
        series then has two live series ids; classification only)."""
        import collections
        sub = M.Ref()
        k = (db, rp, mst)
        buried = {s for s, rows in r.ref.ghost.get(k, {}).items() if any(f.get("_by") == "series" for f in rows.values())}
        sub.data = {k: {s: rows for s, rows in r.ref.data.get(k, {}).items() if s in buried}}
        if not sub.data[k]:
            return False
        d = M.expected(sub, db, rp, mst, kind, params)
        try:
            if kind == "rows":
                extra = collections.Counter(map(tuple, got)) - collections.Counter(map(tuple, exp))
                return bool(extra) and not (collections.Counter(map(tuple, exp)) - collections.Counter(map(tuple, got))) and \
                    set(extra) <= set(map(tuple, d))
            if kind == "grouped":
                if set(got) != set(exp):
                    return False
                n = 0
                for h in exp:
                    extra = collections.Counter(map(tuple, got[h])) - collections.Counter(map(tuple, exp[h]))
                    if (collections.Counter(map(tuple, exp[h])) - collections.Counter(map(tuple, got[h]))) or \
                            not set(extra) <= set(map(tuple, d.get(h, []))):
                        return False
                    n += len(extra)
                return n > 0
            if kind == "count":
                return exp < got <= exp + 3 * d
            if kind in ("buckets", "gcount"):
                return got != exp and set(got) == set(exp) and all(exp[x] <= got[x] <= exp[x] + 3 * d.get(x, 0) for x in exp)
        except (TypeError, KeyError):
            return False
        return False

    def classify(self, r, label, name, kind, params, db, rp, mst, exp, got):
        """Names the defect (for the known-finding signatures); computed from the rows the drops buried; it never
        decides pass/fail: every mismatch is a violation whatever its name."""
        after_restart = label.startswith("after_restart")
        if r.ref.ghost:
            g_all = M.expected(r.ref, db, rp, mst, kind, params, with_ghost="all")
            if r.dk == "series":
                g_mem = M.expected(r.ref, db, rp, mst, kind, params, with_ghost="mem")
                if after_restart and g_mem != exp and got == g_mem:
                    return "dropped_series_unflushed_rows_back_after_restart"
                if got == g_all and after_restart and r.h.get("cont") == "kill_now":
                    # the whole drop is undone by the kill (every read shape returns the buried series again); checked before
                    # the scan-specific names below, which describe the same rows for the unfiltered shapes
                    return "drop_series_lost_by_kill_right_after_ack"
                if name in M.UNFILTERED and (
                        got == M.expected(r.ref, db, rp, mst, kind, params, with_ghost="all", ghost_bypass=True) or
                        (after_restart and got == M.expected(r.ref, db, rp, mst, kind, params, with_ghost="all", ghost_bypass="flushed"))):
                    # the buried series come back through the "all series of the measurement" scan, i.e. even past
                    # a negative tag filter they do not satisfy
                    return "dropped_series_returned_by_unfiltered_scan"
                if got == g_all:
                    if after_restart and r.h.get("cont") == "kill_now":
                        return "drop_series_lost_by_kill_right_after_ack"
                    if name in M.UNFILTERED:
                        return "dropped_series_returned_by_unfiltered_scan"
                    if r.h["pre"] and not after_restart and name.startswith("tag_"):
                        return "dropped_series_returned_from_tag_filter_cache"
                    return "dropped_series_back_after_restart" if after_restart else "dropped_series_still_returned"
            elif got == g_all:
                return "dropped_%s_%s" % (r.dk, "back_after_restart" if after_restart else "still_returned")
        if after_restart and self.duplicated_rewritten(r, kind, params, db, rp, mst, exp, got):
            return "rewritten_dropped_series_duplicated_after_restart"
        if self.subset(got, exp, kind):
            return "data_lost"
        return "read_mismatch"

    def classify_two(self, r, label, name, kind, params, db, rp, mst, exp, got):
        """Two-drop histories: names the mismatch by which drop's buried rows explain it (never decides pass/fail)."""
        after_restart = label.startswith("after_restart")
        last_n, last_kind = r.drops_done[-1] if r.drops_done else (None, None)

        def ex(pred):
            return M.expected(r.ref, db, rp, mst, kind, params, with_ghost=pred)
        if after_restart and got == ex(lambda f: f.get("_mem") and f.get("_by") == "series") != exp:
            return "dropped_series_unflushed_rows_back_after_restart"
        if after_restart and self.duplicated_rewritten(r, kind, params, db, rp, mst, exp, got):
            return "rewritten_dropped_series_duplicated_after_restart"
        last = last_n is not None and (got == ex(lambda f: f.get("_n") == last_n) or (kind in M.LISTINGS and got == M.expected(
            r.ref, db, rp, mst, kind, params, with_ghost=lambda f: f.get("_n") == last_n, scope="rp")))
        if last and last_kind == "rp" and label in ("after_drop", "after_drop2"):
            return "dropped_rp_still_returned"  # right after DROP RETENTION POLICY: the two-phase drop (see rp_listing)
        if kind in M.LISTINGS:
            def other(f):
                return f.get("_by") == "measurement" and f.get("_rp") != rp
            if got != exp and got in (ex(other), M.expected(r.ref, db, rp, mst, kind, params, with_ghost=other, scope="rp")):
                # series of a measurement dropped under ANOTHER retention policy are listed for the same-named measurement of this one
                return "dropped_measurement_listed_under_same_name_in_other_policy"
        if last:
            # what the most recent drop removed is (still / again) returned
            return "dropped_%s_%s" % (last_kind, "back_after_restart" if after_restart else "still_returned")
        for n, k in reversed(r.drops_done[:-1]):
            if got == ex(lambda f, n=n: f.get("_n") == n):
                return "dropped_%s_reappeared_after_later_steps" % k
        if r.ref.ghost and got == ex("all"):
            return "dropped_data_back_after_restart" if after_restart else "dropped_data_still_returned"
        if self.subset(got, exp, kind):
            return "data_lost"
        return "read_mismatch"

    @staticmethod
    def subset(got, exp, kind):  # got strictly inside exp
        try:
            if kind in ("rows", "series", "tagkeys", "tagvalues"):
                return set(map(tuple, got)) < set(map(tuple, exp)) if kind == "rows" else set(got) < set(exp)
            if kind == "count":
                return got < exp
            if kind == "grouped":
                return all(set(v) <= set(exp.get(k, [])) for k, v in got.items())
            if kind in ("buckets", "gcount"):
                return all(v <= exp.get(k, 0) for k, v in got.items())
        except TypeError:
            return False
        return False

    def run_segment(self, r, seg):
        if r.abandoned:
            return
        try:
            self._run_segment(r, seg)
        except Abandon:
            self.rep.count("histories_abandoned_after_violation", 1)
            self.rep.note("a history that had already produced a violation was not continued after a visibility barrier "
                          "timed out (its state no longer follows the reference)")

    def _run_segment(self, r, seg):
        for tok in seg:
            t0 = time.time()
            self._run_token(r, tok)
            self.rep.count("driver_ms_" + tok[0].lower() + (str(tok[1]) if tok[0] in ("DROP", "RC") and len(tok) > 1 else ""),
                           int((time.time() - t0) * 1000))

    def _run_token(self, r, tok):
        if tok[0] == "SETUP":
            if not r.setup_done:
                self.do_setup(r)
                r.setup_done = True
        elif tok[0] == "W":
            self.do_load(r, tok[1])
        elif tok[0] == "CHECK":
            self.do_check(r, tok[1])
        elif tok[0] == "DROP":
            self.do_drop(r, tok[1] if len(tok) > 1 else 1)
        elif tok[0] == "RC":
            self.do_recreate(r, tok[1])
        elif tok[0] == "RW":
            self.do_rewrite(r)
        elif tok[0] == "RW2":
            self.do_rewrite(r, second=True)
        elif tok[0] == "LATEDROP":
            pass  # executed right before kill -9
        else:
            raise ValueError(tok)

    # ---------------------------------------------------------------- cross-database scenario
    def crossdb(self):
        """Two databases with the same series; DROP SERIES in the first, selects on the first, then listings and a
        DROP SERIES in the second: the second database must not be influenced by the first one's drop."""
        xa, xb = "c13xa", "c13xb"
        rows = [("m", M.skey(h), M.TS[ti], {"v": M.val(h, ti)}) for h in "abc" for ti in range(3)]
        keys = sorted("m," + ",".join("%s=%s" % kv for kv in M.skey(h)) for h in "abc")
        # series ids start at the creation second of a database: 20 series in the first database cover the ids of
        # the second one's 3 series as long as the two are created within 17 s of each other
        rows_a = [("m", (("host", "h%02d" % i),), M.TS[0], {"v": float(i)}) for i in range(20)]

        def read(db, q, kind):
            st, js = self.srv.query(q, db=db)
            return M.normalise(kind, st, js)
        self.ddl(None, 'create database "%s"' % xa)
        self.ddl(None, 'create database "%s"' % xb)
        self.write(None, xa, M.DEF_RP, rows_a)
        self.write(None, xb, M.DEF_RP, rows)
        t0 = time.time()
        while (read(xa, "select count(v) from m", "count") != ("ok", 20) or read(xb, "show series from m", "series") != ("ok", keys)
               or read(xb, "select count(v) from m", "count") != ("ok", 9)):
            if time.time() - t0 > BARRIER_TIMEOUT:
                raise blackbox.ToolError("crossdb: loaded series never visible")
            time.sleep(0.1)
        self.ddl(None, "drop series from m", db=xa)
        hist = dict(srv="A", special="crossdb")

        def ev(kindv, key, q, exp, got):
            self.rep.evaluation()
            self.rep.count("reads", 1)
            self.rep.distinct("crossdb|" + key.split(" :: ")[-1])
            if got != ("ok", exp):
                self.rep.violation(kindv, "crossdb :: " + key, "database %s: 20 series, all dropped by `drop series from m`; database %s: 3 series, no drop "
                                   "so far (series ids are per database: creation second + n, so the ranges overlap); selects ran on %s\n  query on %s: %s\n  expected: %s\n  got:      %s" % (
                                       xa, xb, xa, xb, q, json.dumps(exp), json.dumps(got[1])), hist)
        for rnd in range(20):
            for q in ("select v from m", "select v from m where host = 'b'", "select v from m where host != 'c'"):
                self.srv.query(q, db=xa)
            ev("series_hidden_by_drop_in_other_database", "round%02d :: show_series" % rnd, "show series from m",
               keys, read(xb, "show series from m", "series"))
            ev("series_hidden_by_drop_in_other_database", "round%02d :: show_series_eq" % rnd,
               "show series from m where host = 'a'", keys[:1], read(xb, "show series from m where host = 'a'", "series"))
        for q in ("select v from m", "select v from m where host = 'b'"):
            self.srv.query(q, db=xa)
        self.ddl(None, "drop series from m where host != 'a'", db=xb)
        for q in ("select v from m", "select v from m where host = 'b'"):
            self.srv.query(q, db=xa)
        exp_rows = sorted((M.TS[ti], M.val("a", ti)) for ti in range(3))
        ev("drop_removed_unnamed_series_after_drop_in_other_database", "final :: tag_eq_a", "select v from m where host = 'a'",
           exp_rows, read(xb, "select v from m where host = 'a'", "rows"))
        ev("drop_removed_unnamed_series_after_drop_in_other_database", "final :: show_series", "show series from m",
           keys[:1], read(xb, "show series from m", "series"))
        self.rep.count("histories", 1)

    # ---------------------------------------------------------------- schedule
    def pool(self, fn, items):
        if not items:
            return
        with cf.ThreadPoolExecutor(max_workers=POOL) as ex:
            futs = [ex.submit(fn, x) for x in items]
            for f in futs:
                f.result()

    def wait_compacted(self, runs):
        t0 = time.time()
        pending = None
        while time.time() - t0 < COMPACT_TIMEOUT:
            pending = None
            for r in runs:
                for mst in (r.m, r.n):
                    # one directory per (partition, retention policy, shard, measurement)
                    for d in glob.glob(os.path.join(self.srv.dir, "data", "data", r.db, "*", "*", "*", "tssp", mst + "_*")):
                        n_ord = len(glob.glob(os.path.join(d, "*.tssp")))
                        n_ooo = len(glob.glob(os.path.join(d, "out-of-order", "*.tssp")))
                        if n_ord > 1 or n_ooo > 0:
                            pending = (r.key, d[len(self.srv.dir):], n_ord, n_ooo)
                            break
                    if pending:
                        break
                if pending:
                    break
            if pending is None:
                self.rep.count("compaction_waits", 1)
                self.rep.count("max_compaction_wait_s", int(time.time() - t0))
                return
            time.sleep(1.0)
        raise blackbox.ToolError("compaction did not finish within %ds: %s" % (COMPACT_TIMEOUT, pending))

    def prepare(self):
        """shared database. Series ids are per database partition and start at the Unix time (seconds) of the
        partition's creation, so the id ranges of databases created within the same hours overlap. The first PAD ids of
        the shared database go to a padding measurement: every id dropped in the shared database is then above
        creation time + PAD, i.e. above every id of the small per-history databases created during the run (see the
        crossdb scenario for the defect this keeps out of the other histories)."""
        self.ddl(None, 'create database "%s"' % M.SHARED_DB)
        for lo in range(0, PAD, 1000):
            self.write(None, M.SHARED_DB, M.DEF_RP, [("pad", (("i", "p%04d" % i),), M.TS[0], {"v": 1.0}) for i in range(lo, lo + 1000)])
        # one DROP SERIES before the histories start: the delete index of a partition is created by the first DROP
        # SERIES that finds something, and two concurrent first drops race there (one loses its deletions; observed,
        # see notes). Histories are sequential by the statement; their concurrency is only the harness's batching.
        # (the dropped series is written after the padding, so its id is above the padding as well)
        self.write(None, M.SHARED_DB, M.DEF_RP, [("padx", (("i", "x"),), M.TS[0], {"v": 1.0})])
        t0 = time.time()
        while True:
            st, js = self.srv.query("show series from padx", db=M.SHARED_DB)
            ok, got = M.normalise("series", st, js)
            if ok == "ok" and got == ["padx,i=x"]:
                break
            if time.time() - t0 > BARRIER_TIMEOUT:
                raise blackbox.ToolError("padding series never visible: %s" % (got,))
            time.sleep(0.1)
        self.ddl(None, "drop series from padx where i = 'x'", db=M.SHARED_DB)

    def execute(self, S, disable_compaction, special):
        self.disable_compaction = disable_compaction
        self.execute_histories(S, disable_compaction)
        if "crossdb" in special:
            # last: it leaves a deleted-id set with the smallest series id in the pooled search objects, which (on a
            # tree with that defect) would hide series of the small per-history databases
            self.crossdb()

    def reopen_phase(self):
        """Layout `reopened`: the histories with that layout load their data first, then one global flush + kill -9 + start,
        before any other history has begun (so the restart is nobody's foreign event)."""
        rs = [r for r in self.runs if M.pre_tokens(r.h)]
        if not rs:
            return
        tlog("C13 server %s reopen phase: %d histories" % (self.srv.name, len(rs)))
        self.pool(lambda r: self.run_segment(r, M.pre_tokens(r.h)), rs)
        st, body = self.srv.flush()
        if st != 200:
            raise blackbox.ToolError("flush failed: %s %s" % (st, body[:200]))
        self.rep.count("global_flushes", 1)
        for r in self.runs:
            r.ref.flushed()
        self.srv.kill9()
        self.srv.start(wait_s=START_WAIT)
        if self.disable_compaction:
            self.srv.ctrl("compen", allshards="false")
            self.srv.ctrl("merge", allshards="false")
        self.rep.count("restarts", 1)
        self.pool(lambda r: self.visible(r, self.containers(r), cold=True), rs)

    def execute_histories(self, S, disable_compaction):
        """S = barrier string of the server; every run is aligned on it (rightmost match; suffix if it ends dirty)."""
        # the databases / retention policies of all histories are created before anything is dropped (see dblock: CREATE
        # DATABASE must not run while the catalogue removes a dropped database; only re-creations remain inside the phases)
        tlog("C13 server %s setup: %d histories" % (self.srv.name, len(self.runs)))
        self.pool(lambda r: self.run_segment(r, [("SETUP",)]), self.runs)
        self.reopen_phase()
        if any(r.db == M.SHARED_DB for r in self.runs):
            self.prepare()
        for r in self.runs:
            s = M.barrier_string(r.h)
            o = S.rfind(s) if s else len(S)
            if o < 0 or (M.ends_dirty(r.h) and o + len(s) != len(S)):
                raise blackbox.ToolError("history %s (%r) cannot be aligned on server barriers %r" % (r.key, s, S))
            r.offset = o
        for p in range(len(S) + 1):
            todo = [(r, r.segs[p - r.offset]) for r in self.runs if r.offset <= p <= r.offset + len(r.segs) - 1]
            tlog("C13 server %s phase %d/%d: %d histories" % (self.srv.name, p, len(S), len(todo)))
            self.pool(lambda x: self.run_segment(x[0], x[1]), todo)
            if disable_compaction:
                self.srv.ctrl("compen", allshards="false")
                self.srv.ctrl("merge", allshards="false")
            if p < len(S):
                st, body = self.srv.flush()
                if st != 200:
                    raise blackbox.ToolError("flush failed: %s %s" % (st, body[:200]))
                self.rep.count("global_flushes", 1)
                for r in self.runs:
                    r.ref.flushed()
                if S[p] == "C":
                    self.wait_compacted([r for r in self.runs if r.offset <= p < r.offset + len(r.segs) - 1])
        # restart part
        rs = [r for r in self.runs if r.h["restart"]]
        if not rs:
            return
        late = [r for r in rs if r.h.get("cont") == "kill_now" and not r.abandoned]
        if late:
            # scheduling device, not an oracle: every drop issued so far is older than the index flush tick when the
            # kill comes, the drops issued now are not
            time.sleep(QUIET_BEFORE_KILL)
            self.pool(lambda r: self.do_drop(r), late)
        rounds = ["after_restart"] + (["after_restart2"] if self.tier == "thorough" else [])
        for label in rounds:
            if label == "after_restart2":
                self.srv.stop()  # second round: clean shutdown (memtables flushed on the way down) instead of kill -9
            self.srv.kill9()
            self.srv.start(wait_s=START_WAIT)
            if disable_compaction:
                # the switches are not persistent; a merge of out-of-order files cut by the next kill -9 is C03's subject
                self.srv.ctrl("compen", allshards="false")
                self.srv.ctrl("merge", allshards="false")
            self.rep.count("restarts", 1)
            tlog("C13 server %s restarted (%s): %d histories" % (self.srv.name, label, len(rs)))

            def after(r, label=label):
                if r.abandoned:
                    return
                try:
                    self.visible(r, self.containers(r))
                    self.do_check(r, label)
                    if label == "after_restart":
                        self.do_again(r)
                except Abandon:
                    self.rep.count("histories_abandoned_after_violation", 1)
            self.pool(after, rs)


class Rep:
    """Report in the shape checklib.finish expects from a worker."""

    def __init__(self):
        self.lock = threading.Lock()
        self.d = dict(evaluations=0, samples=[], violations=[], n_violations=0, counters={}, exhaustive=True, notes=[],
                      _distinct=set())
        self.per_kind = {}
        self.known = checklib.load_known(CID)
        self.all = []  # debugging aid: dumped to .build/C13/violations-<tier>.json

    def evaluation(self):
        with self.lock:
            self.d["evaluations"] += 1

    def count(self, k, n):
        with self.lock:
            c = self.d["counters"]
            c[k] = max(c.get(k, 0), n) if k.startswith("max_") else c.get(k, 0) + n

    def note(self, s):
        with self.lock:
            if s not in self.d["notes"] and len(self.d["notes"]) < 40:
                self.d["notes"].append(s)

    def distinct(self, s):
        with self.lock:
            self.d["_distinct"].add(int(hashlib.sha1(s.encode()).hexdigest()[:15], 16))

    def violation(self, kind, key, detail, replay):
        with self.lock:
            self.d["n_violations"] += 1
            # the front end only sees the kept violations: those that match a known-finding signature and those that do
            # not are capped separately, so that a flood of known instances of a kind cannot push a new one out
            matched = checklib.match_known(dict(kind=kind, key=key), self.known) is not None
            slot = (kind, matched)
            n = self.per_kind.get(slot, 0)
            self.per_kind[slot] = n + 1
            c = self.d["counters"]
            c["violations_" + kind] = c.get("violations_" + kind, 0) + 1
            if n < (10 if matched else 25):
                self.d["violations"].append(dict(kind=kind, key=key, detail=detail, replay=replay))
            if n < 2000:
                self.all.append(dict(kind=kind, key=key, detail=detail))


LIMITS = {"rp-limit": 100000}
SRV_EXTRA = {
    "A": {"coordinator": LIMITS, "data.memtable": {"write-cold-duration": "1h", "force-snapShot-duration": "1h"}},
    "B": {"coordinator": LIMITS, "data.memtable": {"write-cold-duration": "1h", "force-snapShot-duration": "1h"},
          "data.compact": {"compact-full-write-cold-duration": "2m"}},
}
SRV_EXTRA["C"] = SRV_EXTRA["A"]  # two-drop histories (a server of their own: their reopen barrier is a restart)
SRV_EXTRA["D"] = SRV_EXTRA["A"]


def run_server(tier, name, hs, scratch, rep):
    if not hs:
        return
    srv = Server(CID, scratch, name=name, extra=SRV_EXTRA[name])
    srv.build()
    srv.start(wait_s=START_WAIT)
    try:
        special = [h["special"] for h in hs if h.get("special")]
        runs = [Run(h) for h in hs if not h.get("special")]
        drv = Driver(tier, srv, runs, rep)
        S = max([M.barrier_string(r.h) for r in runs] or [""], key=len)
        drv.execute(S, disable_compaction=(name != "B"), special=special)
        rep.count("histories", len(runs))
        rep.count("histories_with_removal", sum(1 for r in runs if r.removed > 0))
        if Server.timeouts:
            rep.count("request_timeouts_retried", Server.timeouts)
    finally:
        srv.stop() if srv.alive() else None
        srv.kill9()
        # server logs of the last run are kept next to the build (debugging aid)
        keep = os.path.join(checklib.build_dir(CID), "srv-%s-logs" % name)
        shutil.rmtree(keep, ignore_errors=True)
        try:
            shutil.copytree(os.path.join(srv.dir, "logs"), keep)
        except OSError:
            pass


def server_process(tier, name, hs, scratch, outpath):
    """body of one driver process: all histories of one server; the report goes to a file"""
    rep = Rep()
    err = None
    try:
        run_server(tier, name, hs, scratch, rep)
    except blackbox.ToolError as e:
        err = str(e)
    except Exception as e:  # harness bug: tool error, never a verdict
        import traceback
        err = "%s: %s\n%s" % (type(e).__name__, e, traceback.format_exc())
    d = dict(rep.d)
    d["_distinct"] = sorted(d["_distinct"])
    with open(outpath, "w") as fh:
        json.dump(dict(rep=d, all=rep.all, err=err), fh, default=str)


def run(tier, replay):
    t0 = time.time()
    scratch = checklib.scratch_root(CID)
    rep = Rep()
    try:
        blackbox.build_server(CID)
        if replay:
            obj = json.load(open(replay))
            h = obj.get("replay") or obj
            h = dict(h)
            h.setdefault("idx", 0)
            try:
                run_server("thorough" if h.get("srv") == "B" else "quick", h.get("srv", "A"), [h], scratch, rep)
            except blackbox.ToolError as e:
                checklib.tool_error(str(e))
            for v in rep.d["violations"]:
                print("REPLAY-VIOLATION kind=%s key=%s\n  %s" % (v["kind"], v["key"], v["detail"][:2500]))
            print("replay: %s" % ("still fails" if rep.d["n_violations"] else "passes"))
            return 1 if rep.d["n_violations"] else 0
        hs = M.enumerate_histories(tier)
        if os.environ.get("C13_ONLY"):  # development aid: only the histories whose key matches (evidence is then partial)
            import re
            hs = [h for h in hs if not h.get("special") and re.search(os.environ["C13_ONLY"], M.hkey(h))]
            rep.d["exhaustive"] = False
            rep.note("C13_ONLY=%s: partial run" % os.environ["C13_ONLY"])
        drv0 = Driver(tier, None, [], rep)

        def sample(h):
            r = Run(h)
            d = dict(h, key=M.hkey(h), database=M.dbname(h), measurement=M.mname(h), tokens=M.pre_tokens(h) + M.tokens(h))
            if h.get("two"):
                d["drop_statements"] = [drv0.drop_sql(r, 1), drv0.drop_sql(r, 2)]
            else:
                d["drop_statement"] = drv0.drop_sql(r)
            return d
        one = [h for h in hs if not h.get("special") and not h.get("two")]
        two = [h for h in hs if h.get("two")]
        rep.d["samples"] = ([sample(h) for h in one[:: max(1, len(one) // 6)]][:6] +
                            [sample(h) for h in two[:: max(1, len(two) // 6)]][:6])
        rep.count("histories_two_drops_enumerated", len(two))
        rep.count("two_drop_statement_combinations", len(M.combos_two()))
        groups = {}
        for h in hs:
            groups.setdefault(h["srv"], []).append(h)
        # one process per server (the drivers are python threads; separate processes keep them off each other's GIL)
        ctx = multiprocessing.get_context("fork")
        procs = {}
        for name in sorted(groups):
            out = os.path.join(scratch, "report-%s.json" % name)
            pr = ctx.Process(target=server_process, args=(tier, name, groups[name], scratch, out))
            pr.start()
            procs[name] = (pr, out)
        errs, reports, allv = [], [rep.d], []
        for name, (pr, out) in procs.items():
            pr.join()
            try:
                o = json.load(open(out))
            except (OSError, ValueError) as e:
                errs.append("server %s: driver process ended without a report (exit %s): %s" % (name, pr.exitcode, e))
                continue
            if o["err"]:
                errs.append(o["err"])
            o["rep"]["_distinct"] = set(o["rep"]["_distinct"])
            reports.append(o["rep"])
            allv += o["all"]
        if errs:
            # a driver ended early (typically: the server died). Violations recorded before that are valid counterexamples
            # (seed C13-3: the stale deleted-ids index, re-opened in a removed directory, panics in its flush about a second
            # after the reads have disagreed); they are reported and the run counts as not exhaustive. Without any new
            # violation the early end is a tool error, never a verdict.
            known = checklib.load_known(CID)
            if not any(checklib.match_known(v, known) is None for r in reports for v in r.get("violations") or []):
                checklib.tool_error("; ".join(errs))
            checklib.log("C13: a driver ended early, reporting the violations recorded before that: " + "; ".join(errs)[:1500])
            for r in reports:
                r["exhaustive"] = False
            reports[0].setdefault("notes", []).append("exploration ended early on one server (%s); the violations were recorded "
                                                      "before that" % "; ".join(errs)[:600])
        if any(r["counters"].get("histories_abandoned_after_violation") for r in reports):
            for r in reports:
                r["exhaustive"] = False
        with open(os.path.join(checklib.build_dir(CID), "violations-%s.json" % tier), "w") as fh:
            json.dump(allv, fh, indent=1)
        return checklib.finish(CID, tier, LEVEL, RULE, reports, t0, ASSUMPTIONS)
    finally:
        if os.environ.get("C13_KEEP"):
            checklib.log("C13_KEEP: scratch kept at " + scratch)
        else:
            shutil.rmtree(scratch, ignore_errors=True)
