"""C06 stage (b): line protocol text -> POST /write -> storage -> GET /query (epoch=ns) == the values the text means.

Cases are generated from DECODED tuples (measurement, tags, field key, typed field value, timestamp, precision)
over small alphabets and rendered to line-protocol text in every escaping style the grammar allows, so the
meaning of each text is known by construction (no second parser needed here; the parser-level differential
oracle is stage (a)). Bounded exhaustive: the product of the menus below, no sampling."""
import itertools, json, math, os, struct, time
from concurrent.futures import ThreadPoolExecutor

import blackbox, checklib

SPECIAL = ["a", ",", " ", "=", "é"]          # characters for measurement / tag key / tag value / field key
STR_CHARS = ["a", ",", " ", "=", '"', "\\", "é"]  # characters for string field values


def esc_measurement(s, style):
    out = ""
    for ch in s:
        if ch in ", ":
            out += "\\" + ch
        elif ch == "=" and style == 1:
            out += "\\="  # needless but legal escape
        else:
            out += ch
    return out


def esc_tag(s, style):
    out = ""
    for ch in s:
        if ch in ", =":
            out += "\\" + ch
        else:
            out += ch
    return out


def esc_strval(s):
    return '"' + s.replace("\\", "\\\\").replace('"', '\\"') + '"'


def words(chars, maxlen):
    for n in range(1, maxlen + 1):
        for t in itertools.product(chars, repeat=n):
            yield "".join(t)


INT_VALUES = [0, 1, -1, 2**53 - 1, 2**53, 2**53 + 1, -(2**53 + 1), 2**63 - 1, -(2**63), 123456789012345678]
FLOAT_TEXTS = ["0", "-0.0", "1.5", "-1.5", "1e300", "5e-324", "1.7976931348623157e308", "0.1", "1e21", "123456789.123456789",
               "1E2", "1e+2", "1e-2", ".5", "5.", "+1.5", "0.30000000000000004", "9007199254740993", "1f", "1.5f", "00012"]
BOOL_TEXTS = [("t", True), ("T", True), ("true", True), ("True", True), ("TRUE", True),
              ("f", False), ("F", False), ("false", False), ("False", False), ("FALSE", False)]
TIMESTAMPS = [("ns", 1), ("ns", -1), ("ns", 0), ("ns", 1700000000123456789), ("u", 1700000000123456), ("ms", 1700000000123),
              ("s", 1700000000), ("m", 28333333), ("h", 472222)]
PREC_MULT = {"ns": 1, "u": 10**3, "ms": 10**6, "s": 10**9, "m": 60 * 10**9, "h": 3600 * 10**9}
INVALID_LINES = ["m", "m f", "m f=", "m f=x", "m f=1x", "m f=1e", "m f=\"a", "m,t f=1", "m f=1 x", "m f=1i2",
                 "m f=9223372036854775808i", "m f=-9223372036854775809i", "m f=1.5i", "m f=tru", " f=1", ",t=a f=1", "m f=1 1 1"]


def gen_cases(tier):
    """Yields dicts: line text, precision, and the decoded expectation."""
    thorough = tier == "thorough"
    n = 0

    def case(meas, tags, fkey, ftext, fval, ftype, prec="ns", ts=1700000000000000000 // 1, style=0):
        nonlocal n
        n += 1
        name = "c%d_%s" % (n, meas)
        line = esc_measurement(name, style)
        for k, v in tags:
            line += "," + esc_tag(k, style) + "=" + esc_tag(v, style)
        line += " " + esc_tag(fkey, style) + "=" + ftext + " " + str(ts)
        return {"id": n, "line": line, "prec": prec, "meas": name, "tags": dict(tags), "fkey": fkey, "fval": fval,
                "ftype": ftype, "ts": ts * PREC_MULT[prec]}

    wl = 2 if not thorough else 3
    # identifiers / tag values: every word up to length wl over SPECIAL (no leading/trailing/double spaces issues are
    # part of the point: they are escaped)
    for w in words(SPECIAL, wl):
        for style in (0, 1):
            yield case(w, [("host", "a")], "f", "1.5", 1.5, "float", style=style)
        yield case("m", [(w, "v")], "f", "1.5", 1.5, "float")
        yield case("m", [("host", w)], "f", "1.5", 1.5, "float")
        yield case("m", [("host", "a")], w, "1.5", 1.5, "float")
    # two tags, order given unsorted
    for a, b in itertools.product(["a", "b c", "x=y"], repeat=2):
        yield case("m", [("zone", a), ("host", b)], "f", "1i", 1, "int")
    # string values
    for w in words(STR_CHARS, 2 if not thorough else 3):
        yield case("m", [("host", "a")], "s", esc_strval(w), w, "string")
    yield case("m", [("host", "a")], "s", esc_strval(""), "", "string")
    yield case("m", [("host", "a")], "s", esc_strval("x" * 300), "x" * 300, "string")
    # integers
    for v in INT_VALUES:
        yield case("m", [("host", "a")], "i", "%di" % v, v, "int")
    # floats
    for t in FLOAT_TEXTS:
        txt = t[:-1] if t.endswith("f") and not t.startswith("0x") and t[-2:-1].isdigit() else t
        yield case("m", [("host", "a")], "f", t, float(txt), "float")
    # booleans
    for t, v in BOOL_TEXTS:
        yield case("m", [("host", "a")], "b", t, v, "bool")
    # timestamps x precisions
    for prec, ts in TIMESTAMPS:
        yield case("m", [("host", "a")], "f", "2.5", 2.5, "float", prec=prec, ts=ts)


def f64bits(x):
    return struct.unpack(">Q", struct.pack(">d", float(x)))[0]


def int_not_float_exact(v):
    return isinstance(v, int) and not isinstance(v, bool) and int(float(v)) != v or (isinstance(v, int) and abs(v) > 2**63 - 1)


def run_blackbox(tier, only_case=None):
    """Returns a list with one report dict (same keys as the Go kit writes)."""
    t0 = time.time()
    scratch = checklib.scratch_root("C06bb")
    rep = {"evaluations": 0, "samples": [], "violations": [], "n_violations": 0, "counters": {}, "exhaustive": True,
           "notes": [], "_distinct": set()}

    def vio(kind, key, detail, case):
        rep["n_violations"] += 1
        if sum(1 for v in rep["violations"] if v["kind"] == kind) < 8:
            rep["violations"].append({"kind": kind, "key": key, "detail": detail, "replay": {"stage": "blackbox", "case": case}})

    srv = blackbox.Server("C06", scratch, name="bb")
    try:
        srv.build()
        srv.start()
        st, _ = srv.query("create database c06", method="POST")
        if st != 200:
            raise blackbox.ToolError("create database failed: %s" % st)
        cases = [only_case] if only_case else list(gen_cases(tier))
        accepted = []
        # write one request per case so that a rejection is attributable
        def wr(c):
            st, body = srv.write("c06", c["line"], precision=None if c["prec"] == "ns" else c["prec"])
            return c, st, body
        with ThreadPoolExecutor(8) as ex:
            for c, st, body in ex.map(wr, cases):
                rep["evaluations"] += 1
                if st == 204:
                    accepted.append(c)
                elif st == 400:
                    rep["counters"]["valid_line_rejected"] = rep["counters"].get("valid_line_rejected", 0) + 1
                    # rejecting an oddly spelled but valid number is allowed by the statement only for invalid
                    # input; for canonical spellings it is a violation
                    if b"invalid measurement name" in body:
                        # openGemini documents a restricted measurement-name alphabet (no comma etc.): an explicit
                        # rejection, nothing stored, no different value - outside what the statement promises
                        rep["counters"]["rejected_restricted_measurement_name"] = rep["counters"].get("rejected_restricted_measurement_name", 0) + 1
                    elif c["ts"] < 0 and b"bad timestamp" in body:
                        rep["counters"]["rejected_negative_timestamp"] = rep["counters"].get("rejected_negative_timestamp", 0) + 1
                    elif c["ftype"] != "float" or c["line"].split("=")[-1].split(" ")[0] in ("1.5", "2.5"):
                        vio("valid_line_rejected", c["line"], "HTTP 400: %s" % body[:200], c)
                else:
                    raise blackbox.ToolError("write returned %s: %s" % (st, body[:200]))
        # invalid lines: alone, and after a valid line of another measurement
        inv_stored = 0
        for i, bad in enumerate([] if only_case else INVALID_LINES):
            name = "bad%d" % i
            line = bad.replace("m", name, 1) if bad.startswith("m") else bad
            st, body = srv.write("c06", line)
            rep["evaluations"] += 1
            if st == 204 and not line.startswith((" ", ",")):
                accepted.append({"id": -i, "line": line, "meas": name, "invalid": True})
            st, body = srv.write("c06", "ok%d f=1 1\n%s" % (i, line))
            rep["evaluations"] += 1
        # field-set pairs: two points of ONE series written one after the other (before any flush) whose field sets
        # differ in every way (first key, last key, count) - each value must come back under the key it was written with
        FSETS = [("hum", "temp"), ("dew", "temp"), ("hum", "zed"), ("temp",), ("dew",), ("dew", "hum", "temp"), ("a", "b"), ("b", "c")]
        pair_cases = []
        if not only_case:
            pi = 0
            for s1 in FSETS:
                for s2 in FSETS:
                    if s1 == s2:
                        continue
                    pi += 1
                    name = "p%d" % pi
                    rows = []
                    for ri, fs in enumerate((s1, s2)):
                        vals = {f: float(pi * 100 + ri * 10 + k) + 0.25 for k, f in enumerate(fs)}
                        ts = 1700000000000000000 + ri
                        line = "%s,host=a %s %d" % (name, ",".join("%s=%r" % (f, v) for f, v in vals.items()), ts)
                        st, body = srv.write("c06", line)
                        rep["evaluations"] += 1
                        if st != 204:
                            vio("valid_line_rejected", line, "HTTP %s: %s" % (st, body[:200]), {"line": line})
                        rows.append((ts, vals))
                    pair_cases.append((name, rows))
        # visibility barrier: the last measurement written (a pair case if there is one, else the last accepted line) must be
        # queryable; a new measurement / series becomes visible some time after the acknowledgement (catalogue cache of the
        # sql layer, index flush tick), longer on a loaded machine
        if accepted:
            last = [c for c in accepted if not c.get("invalid")][-1]
            if pair_cases:
                last = {"meas": pair_cases[-1][0]}
            deadline = time.time() + 120
            while True:
                st, js = srv.query('select * from "%s"' % last["meas"], db="c06")
                if st == 200 and js and js["results"][0].get("series"):
                    break
                if time.time() > deadline:
                    raise blackbox.ToolError("visibility barrier timed out for %s" % last["meas"])
                time.sleep(0.1)
            time.sleep(1.0)

        def query_visible(q, want):
            """An accepted point that is not returned yet is polled for (eventual visibility is not what C06 is about);
            only a point that stays absent for 30 s is reported."""
            st, js = srv.query(q, db="c06")
            t_end = time.time() + 30
            while want and time.time() < t_end and not (st == 200 and js and js["results"][0].get("series")):
                time.sleep(0.25)
                rep["counters"]["blackbox_read_retries"] = rep["counters"].get("blackbox_read_retries", 0) + 1
                st, js = srv.query(q, db="c06")
            return st, js

        def rd(c):
            st, js = query_visible('select * from "%s" group by *' % c["meas"], not c.get("invalid"))
            return c, st, js
        with ThreadPoolExecutor(8) as ex:
            for c, st, js in ex.map(rd, accepted):
                rep["evaluations"] += 1
                series = (js or {}).get("results", [{}])[0].get("series") if st == 200 else None
                if c.get("invalid"):
                    if series:
                        vio("invalid_line_stored_something", c["line"], "query returned %s" % json.dumps(series)[:300], c)
                    continue
                if not series:
                    vio("accepted_point_not_returned", c["line"], "status %s answer %s" % (st, json.dumps(js)[:300]), c)
                    continue
                s = series[0]
                rep["_distinct"].add(hash(("bb", c["line"])) & (2**63 - 1))
                if len(rep["samples"]) < 4:
                    rep["samples"].append({"stage": "blackbox", "line": c["line"], "precision": c["prec"], "answer": s})
                problems = []
                if s.get("name") != c["meas"]:
                    problems.append("measurement %r != %r" % (s.get("name"), c["meas"]))
                if (s.get("tags") or {}) != c["tags"]:
                    problems.append("tags %r != %r" % (s.get("tags"), c["tags"]))
                cols, vals = s.get("columns"), s.get("values")
                if len(series) != 1 or not vals or len(vals) != 1:
                    problems.append("expected exactly one row, got %s" % json.dumps(series)[:200])
                else:
                    row = dict(zip(cols, vals[0]))
                    if row.get("time") != c["ts"]:
                        problems.append("time %r != %r" % (row.get("time"), c["ts"]))
                    got = row.get(c["fkey"])
                    exp = c["fval"]
                    ok = False
                    if c["ftype"] == "float":
                        ok = isinstance(got, (int, float)) and not isinstance(got, bool) and f64bits(got) == f64bits(exp) \
                            or (exp == 0 and got == 0 and math.copysign(1, exp) < 0)  # JSON has no -0; value equal
                    elif c["ftype"] == "int":
                        ok = isinstance(got, int) and not isinstance(got, bool) and got == exp
                    elif c["ftype"] == "bool":
                        ok = got is exp
                    else:
                        ok = got == exp
                    if not ok:
                        problems.append("field %r = %r, text says %r" % (c["fkey"], got, exp))
                if problems:
                    kind = "value_differs_from_text"
                    if c["ftype"] == "int" and len(problems) == 1 and "field" in problems[0] and int(float(c["fval"])) != c["fval"]:
                        kind = "int_not_float64_exact"
                    vio(kind, "|" + c["line"], "; ".join(problems), c)
        def rdp(pc):
            st, js = query_visible('select * from "%s"' % pc[0], True)
            return pc, st, js
        with ThreadPoolExecutor(8) as ex:
            for (name, rows), st, js in ex.map(rdp, pair_cases):
                rep["evaluations"] += 1
                series = (js or {}).get("results", [{}])[0].get("series") if st == 200 else None
                key = "pair %s: %s" % (name, " ; ".join(",".join("%s=%r" % kv for kv in v.items()) for _, v in rows))
                if not series:
                    vio("accepted_point_not_returned", key, "status %s answer %s" % (st, json.dumps(js)[:300]), {"pair": name})
                    continue
                rep["_distinct"].add(hash(("pair", key)) & (2**63 - 1))
                cols = series[0]["columns"]
                got = {r[0]: {c: v for c, v in zip(cols[1:], r[1:]) if v is not None and c != "host"} for r in series[0]["values"]}
                exp = {ts: vals for ts, vals in rows}
                if got != exp:
                    vio("value_under_wrong_field_key", key, "returned %s, written %s" % (json.dumps(got, sort_keys=True), json.dumps(exp, sort_keys=True)), {"pair": name})
        rep["counters"]["blackbox_field_set_pairs"] = len(pair_cases)
        rep["counters"]["blackbox_cases"] = len(cases)
        rep["counters"]["blackbox_accepted"] = len(accepted)
    except blackbox.ToolError as e:
        checklib.tool_error("C06 black box: %s" % e)
    finally:
        srv.stop()
        import shutil
        shutil.rmtree(scratch, ignore_errors=True)
    rep["wall_s"] = time.time() - t0
    return [rep]
