#!/usr/bin/env python3
"""Front end shared by all checks: overlay generation, build, worker fan-out, merge, evidence,
known-finding matching, exit code.  See DESIGN.md §2.6 and §7."""
import array, glob, hashlib, json, os, re, shutil, subprocess, sys, tempfile, time

VERIF = os.path.dirname(os.path.dirname(os.path.abspath(__file__)))
REPO = os.environ.get("VERIF_REPO", "/repo")
GOBIN = "/root/go/pkg/mod/golang.org/toolchain@v0.0.1-go1.25.0.linux-amd64/bin"
MODPATH = "github.com/openGemini/openGemini"
# evidence/ and replays/ describe /repo only; a run against another tree (VERIF_REPO=<scratch worktree>) writes elsewhere
OUTROOT = VERIF if os.path.realpath(REPO) == "/repo" else os.path.join(VERIF, ".build", "alt-tree")


def goenv():
    e = dict(os.environ)
    e["PATH"] = GOBIN + ":" + e.get("PATH", "")
    e.update(GOTOOLCHAIN="local", GOFLAGS="-mod=mod", GOPROXY="off", GOSUMDB="off")
    return e


def log(*a):
    print("[check]", *a, file=sys.stderr, flush=True)


def tool_error(msg):
    print("TOOL-ERROR:", msg, file=sys.stderr, flush=True)
    sys.exit(3)


def build_dir(cid):
    # one build directory per (tree under test, check): a run against a scratch worktree (bin/seedrun) must not clobber
    # the overlay and test binary of a concurrent run against /repo
    if os.path.realpath(REPO) == "/repo":
        d = os.path.join(VERIF, ".build", cid)
    else:
        tag = hashlib.sha1(os.path.realpath(REPO).encode()).hexdigest()[:8]
        d = os.path.join(VERIF, ".build", "alt-" + tag, cid)
    os.makedirs(d, exist_ok=True)
    return d


def gen_overlay(cid, hook_pkgs, extra=None, also=()):
    """kit -> /repo/lib/verifkit, hooks/<pkg>/*.go -> /repo/<pkg>/zz_verif_*.go (+ extra replacements).
    Hook files named c<NN>_*.go belong to check C<NN> and are only overlaid for that check (or for checks
    listing that id in `also`); every other hook file (vbase_test.go, crashfs_hook.go ...) is shared."""
    own = [cid.lower()] + [a.lower() for a in also]
    rep = {}
    for f in sorted(glob.glob(os.path.join(VERIF, "kit", "*.go"))):
        rep[os.path.join(REPO, "lib/verifkit", os.path.basename(f))] = f
    for sub in sorted(glob.glob(os.path.join(VERIF, "kit", "*", ""))):
        name = os.path.basename(os.path.dirname(sub))
        for f in sorted(glob.glob(os.path.join(sub, "*.go"))):
            rep[os.path.join(REPO, "lib/verifkit", name, os.path.basename(f))] = f
    for pkg in hook_pkgs:
        for f in sorted(glob.glob(os.path.join(VERIF, "hooks", pkg, "*.go"))):
            m = re.match(r"^(c\d\d)_", os.path.basename(f))
            if m and m.group(1) not in own:
                continue
            rep[os.path.join(REPO, pkg, "zz_verif_" + os.path.basename(f))] = f
    if extra:
        rep.update(extra)
    p = os.path.join(build_dir(cid), "overlay.json")
    with open(p, "w") as fh:
        json.dump({"Replace": rep}, fh, indent=1)
    return p


def go_test_build(cid, pkg, overlay, out=None, tags="verif", race=False, cwd=None):
    out = out or os.path.join(build_dir(cid), "t.bin")
    cmd = ["go", "test", "-c", "-vet=off", "-tags", tags, "-overlay", overlay, "-o", out]
    if race:
        cmd.append("-race")
    cmd.append("./" + pkg)
    t0 = time.time()
    r = subprocess.run(cmd, cwd=cwd or REPO, env=goenv(), stdout=subprocess.PIPE, stderr=subprocess.STDOUT, text=True)
    if r.returncode != 0:
        tool_error("build failed for %s:\n%s" % (pkg, r.stdout[-6000:]))
    log("built %s in %.1fs" % (pkg, time.time() - t0))
    return out


def go_build(cid, pkg, overlay, out, tags="verif", cwd=None):
    cmd = ["go", "build", "-tags", tags, "-o", out]
    if overlay:
        cmd += ["-overlay", overlay]
    cmd.append(pkg)
    t0 = time.time()
    r = subprocess.run(cmd, cwd=cwd or REPO, env=goenv(), stdout=subprocess.PIPE, stderr=subprocess.STDOUT, text=True)
    if r.returncode != 0:
        tool_error("build failed for %s:\n%s" % (pkg, r.stdout[-6000:]))
    log("built %s in %.1fs" % (pkg, time.time() - t0))
    return out


def scratch_root(cid):
    base = os.environ.get("VERIF_TMP") or os.environ.get("TMPDIR") or "/tmp"
    d = tempfile.mkdtemp(prefix="verif-%s-" % cid, dir=base)
    return d


def run_workers(cid, binpath, testname, tier, nworkers, deadline_s, scratch, extra_env=None, args=None,
                hard_timeout_s=None, mem_kb=24 * 1024 * 1024, keep_logs=False, allow_nonzero=False):
    """Start nworkers subprocesses of a go test binary; return list of report dicts (+ distinct hash sets)."""
    seed = os.environ.get("VERIF_SEED", "0")
    procs = []
    for i in range(nworkers):
        wdir = os.path.join(scratch, "w%d" % i)
        os.makedirs(wdir, exist_ok=True)
        env = goenv()
        env.update(VERIF_TIER=tier, VERIF_SEED=seed, VERIF_SHARD=str(i), VERIF_NSHARD=str(nworkers),
                   VERIF_OUT=os.path.join(wdir, "report.json"), VERIF_SCRATCH=os.path.join(wdir, "s"),
                   VERIF_DEADLINE_S=str(deadline_s), VERIF_REPO=REPO, TMPDIR=wdir)
        if extra_env:
            env.update(extra_env)
        ht = hard_timeout_s or (deadline_s * 2 + 300)
        lim = "ulimit -v %d; " % mem_kb if mem_kb else ""  # race-detector binaries reserve terabytes of address space
        cmd = ["bash", "-c", lim + 'exec timeout -s KILL %d "$@"' % ht, "w",
               binpath, "-test.run", "^" + testname + "$", "-test.timeout", "0", "-test.count", "1"] + (args or [])
        lf = open(os.path.join(wdir, "log.txt"), "w")
        p = subprocess.Popen(cmd, cwd=wdir, env=env, stdout=lf, stderr=subprocess.STDOUT)
        procs.append((i, p, wdir, lf))
    reports = []
    for i, p, wdir, lf in procs:
        rc = p.wait()
        lf.close()
        rp = os.path.join(wdir, "report.json")
        if (rc != 0 and not allow_nonzero) or not os.path.exists(rp):
            tail = open(os.path.join(wdir, "log.txt"), errors="replace").read()[-5000:]
            keep = os.path.join(build_dir(cid), "failed-worker-%d.log" % i)
            shutil.copy(os.path.join(wdir, "log.txt"), keep)
            for q in procs:
                if q[1].poll() is None:
                    q[1].kill()
            tool_error("worker %d of %s exited %s (log kept at %s):\n%s" % (i, cid, rc, keep, tail))
        rep = json.load(open(rp))
        a = array.array("Q")
        dp = rp + ".distinct"
        if os.path.exists(dp):
            with open(dp, "rb") as fh:
                a.frombytes(fh.read())
        rep["_distinct"] = set(a)
        reports.append(rep)
    return reports


def load_known(cid):
    out = []
    p = os.path.join(VERIF, "KNOWN_FINDINGS.jsonl")
    if os.path.exists(p):
        for line in open(p):
            line = line.strip()
            if not line or line.startswith("#"):
                continue
            try:
                o = json.loads(line)
            except ValueError:
                continue
            if o.get("property") == cid and o.get("status") == "known":
                out.append(o)
    return out


def match_known(v, known):
    for k in known:
        sig = k.get("signature", {})
        if sig.get("kind") != v.get("kind"):
            continue
        rx = sig.get("key_regex")
        if rx and not re.search(rx, v.get("key", "")):
            continue
        return k
    return None


def finish(cid, tier, level, rule, reports, t0, assumptions=None, extra_cov=None, model=False):
    """Merge worker reports, write evidence, print KNOWN-FINDING / VIOLATION lines, return exit code."""
    ev = sum(r.get("evaluations", 0) for r in reports)
    distinct = set()
    for r in reports:
        distinct |= r.get("_distinct", set())
    samples, vios, notes = [], [], []
    counters = {}
    exhaustive = True
    nvio = 0
    for r in reports:
        for s in r.get("samples") or []:
            if len(samples) < 12:
                samples.append(s)
        vios += r.get("violations") or []
        nvio += r.get("n_violations", 0)
        for n in r.get("notes") or []:
            if n not in notes:
                notes.append(n)
        for k, v in (r.get("counters") or {}).items():
            if k.startswith("max_"):
                counters[k] = max(counters.get(k, 0), v)
            else:
                counters[k] = counters.get(k, 0) + v
        exhaustive = exhaustive and r.get("exhaustive", False)
    known = load_known(cid)
    matched, unmatched = {}, []
    for v in vios:
        k = match_known(v, known)
        if k is not None:
            matched.setdefault(json.dumps(k, sort_keys=True), (k, []))[1].append(v)
        else:
            unmatched.append(v)
    # violations beyond the per-kind cap were counted but not kept; they share the kind of kept ones
    cov = {"evaluations": ev, "distinct_nontrivial": len(distinct), "rule": rule, "samples": samples,
           "exhaustive": exhaustive, "counters": counters, "notes": notes,
           "workers": len(reports)}
    if "states" in counters:
        cov["states"] = counters["states"]
    if "transitions" in counters:
        cov["transitions"] = counters["transitions"]
    if model:
        cov.setdefault("states", len(distinct))
        cov.setdefault("transitions", ev)
        cov["traces_validated_against_impl"] = counters.get("traces_validated_against_impl", ev)
    if extra_cov:
        cov.update(extra_cov)
    evd = {"property_id": cid, "tier": tier, "seed": int(os.environ.get("VERIF_SEED", "0") or 0), "level": level,
           "coverage": cov, "assumptions": assumptions or [], "wall_s": round(time.time() - t0, 2),
           "violations": len(unmatched),
           "known_findings_matched": [{"what": k.get("what"), "signature": k.get("signature"),
                                       "instances_this_run": len(vs), "example": vs[0].get("key")}
                                      for k, vs in matched.values()],
           "violations_total_including_known": nvio}
    os.makedirs(os.path.join(OUTROOT, "evidence"), exist_ok=True)
    with open(os.path.join(OUTROOT, "evidence", cid + ".json"), "w") as fh:
        json.dump(evd, fh, indent=1, default=str)
    for k, vs in matched.values():
        print("KNOWN-FINDING: property=%s %s (e.g. %s)" % (cid, k.get("what"), vs[0].get("key")), flush=True)
    rc = 0
    seen = set()
    per_kind = {}
    for v in unmatched:
        per_kind[v.get("kind")] = per_kind.get(v.get("kind"), 0) + 1
        if per_kind[v.get("kind")] > 3:
            rc = 1
            continue
        h = hashlib.sha1((v.get("kind", "") + "|" + v.get("key", "")).encode()).hexdigest()[:12]
        if h in seen:
            continue
        seen.add(h)
        d = os.path.join(OUTROOT, "replays", cid)
        os.makedirs(d, exist_ok=True)
        p = os.path.join(d, h + ".json")
        with open(p, "w") as fh:
            json.dump({"property": cid, "kind": v.get("kind"), "key": v.get("key"), "detail": v.get("detail"),
                       "replay": v.get("replay"), "command": "bin/check %s replay %s" % (cid, p)}, fh, indent=1, default=str)
        print("VIOLATION property=%s replay=%s" % (cid, p), flush=True)
        print("  kind=%s key=%s\n  %s" % (v.get("kind"), v.get("key"), (v.get("detail") or "")[:600]), flush=True)
        rc = 1
    for kind, n in per_kind.items():
        if n > 3:
            print("  (+%d more kept violations of kind %s; see evidence counters)" % (n - 3, kind), flush=True)
    evd["violation_kinds"] = per_kind
    with open(os.path.join(OUTROOT, "evidence", cid + ".json"), "w") as fh:
        json.dump(evd, fh, indent=1, default=str)
    log("%s %s: evaluations=%d distinct_nontrivial=%d exhaustive=%s violations=%d known=%d wall=%.1fs" % (
        cid, tier, ev, len(distinct), exhaustive, len(unmatched), len(matched), time.time() - t0))
    return rc


def run_gotest_check(cid, tier, spec, replay=None):
    """Generic in-package overlay check."""
    t0 = time.time()
    extra = spec["overlay_extra"](cid, tier) if spec.get("overlay_extra") else None
    ov = gen_overlay(cid, spec.get("hooks", [spec["pkg"]]), extra, also=spec.get("also", ()))
    binp = go_test_build(cid, spec["pkg"], ov)
    scratch = scratch_root(cid)
    try:
        if replay:
            env = {"VERIF_REPLAY": os.path.abspath(replay)}
            reps = run_workers(cid, binp, spec["test"], "quick", 1, 600, scratch, extra_env=env)
            nv = sum(r.get("n_violations", 0) for r in reps)
            for r in reps:
                for v in r.get("violations") or []:
                    print("REPLAY-VIOLATION kind=%s key=%s\n  %s" % (v["kind"], v["key"], v["detail"][:1500]))
            print("replay: %s" % ("still fails" if nv else "passes"))
            return 1 if nv else 0
        nw = spec.get("workers", 16)
        if isinstance(nw, dict):
            nw = nw[tier]
        dl = spec.get("deadline", {"quick": 300, "thorough": 2400})[tier]
        dl = int(os.environ.get("VERIF_DEADLINE_S", dl))
        reps = run_workers(cid, binp, spec["test"], tier, nw, dl, scratch, extra_env=spec.get("env"))
        return finish(cid, tier, spec["level"], spec["rule"], reps, t0, spec.get("assumptions"),
                      model=(spec["level"] == "model_checking"))
    finally:
        shutil.rmtree(scratch, ignore_errors=True)
