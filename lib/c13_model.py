"""C13 model: universe, history enumeration (odometer), reference map with deletion, read shapes.

A history = (layout, drop, pre, cont, restart).  It runs in its own database h<idx> (bystander database
h<idx>b for DROP DATABASE histories).  The driver (checks/c13.py) executes the tokens produced by
`tokens(h)`; the reference (`Ref`) is advanced by the same tokens, every read shape is evaluated on the
reference (`expected`) and compared with the normalised server answer (`compare`)."""
import copy, json, re

T0 = 1700000040  # minute aligned, inside one 7-day shard group
TS = [(T0 + 60 * i) * 10 ** 9 for i in range(5)]  # t0..t2: loaded data; t3, t4: rewrites after the drop
T_END = TS[4] + 60 * 10 ** 9
HOSTS = {"a": "x", "b": "x", "c": "y", "d": "y"}  # host -> region ("d" exists only under rp2 in DROP RP / two-drop histories)
HIDX = {"a": 0, "b": 1, "c": 2, "d": 3, "e": 4, "f": 5}  # e, f: "new" series of two-drop histories (tag set = host only)
RP2 = "rp2"
DEF_RP = "autogen"


def val(host, ti, off=0):
    v = (HIDX[host] + 1) * 10 + ti + 0.5 + off
    if host == "c" and ti == 0:
        v = -v  # one non-positive value so that `where v > 0` is a real filter
    return v


def wval(host, ti):
    return (HIDX[host] + 1) * 100 + ti


def skey(host, region=True):
    return (("host", host), ("region", HOSTS[host])) if region and host in HOSTS else (("host", host),)


# ------------------------------------------------------------------ drops
def _p(where, fn):
    return dict(kind="series", where=where, fn=fn)


DROPS = {
    # name: predicate text, python predicate on the tag dict
    "s_eq_none": _p("host = 'z'", lambda t: t.get("host") == "z"),
    "s_eq_some": _p("host = 'a'", lambda t: t.get("host") == "a"),
    "s_eq_some2": _p("region = 'x'", lambda t: t.get("region") == "x"),
    "s_all_nowhere": _p("", lambda t: True),
    "s_neq_some": _p("host != 'a'", lambda t: t.get("host") != "a"),
    "s_neq_all": _p("host != 'z'", lambda t: t.get("host") != "z"),
    "s_neq_none": _p("region != 'x' and region != 'y'", lambda t: t.get("region") not in ("x", "y")),
    "s_re_none": _p("host =~ /z/", lambda t: "z" in t.get("host", "")),
    "s_re_some": _p("host =~ /a/", lambda t: "a" in t.get("host", "")),
    "s_re_all": _p("host =~ /.+/", lambda t: len(t.get("host", "")) > 0),
    "s_nre_some": _p("host !~ /a/", lambda t: "a" not in t.get("host", "")),
    "s_and_some": _p("host = 'b' and region = 'x'", lambda t: t.get("host") == "b" and t.get("region") == "x"),
    "s_or_some": _p("host = 'a' or host = 'c'", lambda t: t.get("host") in ("a", "c")),
    "measurement": dict(kind="measurement"),
    "rp": dict(kind="rp"),
    "database": dict(kind="database"),
}
DROPS_QUICK = ["s_eq_none", "s_eq_some", "s_all_nowhere", "s_neq_some", "s_neq_all", "s_re_some", "s_re_all",
               "s_or_some", "measurement", "rp", "database"]
DROPS_THOROUGH = list(DROPS)

# layout -> token list; W(i, j, ..) = write timestamps i, j ..; F = global flush barrier; C = flush + wait for full compaction
LAYOUTS = {
    "memory": [("W", (0, 1, 2))],
    "flushed": [("W", (0, 1, 2)), ("F",)],
    "late": [("W", (0, 2)), ("F",), ("W", (1,)), ("F",)],  # t1 arrives after t2 was flushed: out-of-order file
    "mixed": [("W", (0, 1)), ("F",), ("W", (2,))],  # part in files, part in the memtable
    "compacted": [("W", (0,)), ("F",), ("W", (1, 2)), ("C",)],
}

# continuation -> tokens after the first check
CONTS = {
    "none": [],
    "rewrite": [("RW",), ("CHECK", "after_rewrite")],
    "flush": [("F",), ("CHECK", "after_flush")],
    "rewrite_flush": [("RW",), ("CHECK", "after_rewrite"), ("F",), ("CHECK", "after_flush")],
    "compact": [("RW",), ("CHECK", "after_rewrite"), ("F",), ("RW2",), ("C",), ("CHECK", "after_compact")],
    "kill_now": [],  # the drop itself is delayed to the instant before kill -9
}


def enumerate_histories(tier):
    """Odometer over the bounded alphabet; returns list of history dicts (idx = position)."""
    hs = []
    if tier == "quick":
        layouts = ["memory", "flushed", "late"]
        drops = DROPS_QUICK
        variants = [("none", 0, 0), ("none", 0, 1), ("rewrite", 0, 0), ("flush", 0, 0), ("rewrite_flush", 0, 0),
                    ("none", 1, 0), ("rewrite", 1, 0), ("rewrite_flush", 1, 0), ("kill_now", 1, 0)]
    else:
        layouts = ["memory", "flushed", "late", "mixed"]
        drops = DROPS_THOROUGH
        variants = [("none", 0, 0), ("none", 0, 1), ("rewrite", 0, 0), ("rewrite", 0, 1), ("flush", 0, 0),
                    ("rewrite_flush", 0, 0), ("none", 1, 0), ("none", 1, 1), ("rewrite", 1, 0), ("flush", 1, 0),
                    ("rewrite_flush", 1, 0), ("kill_now", 1, 0)]
    for lay in layouts:
        for d in drops:
            for cont, restart, pre in variants:
                hs.append(dict(srv="A", layout=lay, drop=d, cont=cont, restart=restart, pre=pre))
    if tier == "thorough":
        for d in drops:
            for cont, restart, pre in [("none", 0, 0), ("none", 1, 1), ("rewrite", 1, 0), ("flush", 0, 0),
                                       ("compact", 0, 0), ("compact", 1, 0)]:
                hs.append(dict(srv="B", layout="compacted", drop=d, cont=cont, restart=restart, pre=pre))
    hs += enumerate_two(tier)
    for i, h in enumerate(hs):
        h["idx"] = i
    hs.append(dict(srv="A", special="crossdb", idx=len(hs)))
    return hs


def hkey(h):
    if h.get("two"):
        return "two/%s/%s>%s>%s/%s%s%s" % (h["layout"], h["d1"], h["rc"], h["d2"], h["tail"], "+mid" if h["mid"] else "",
                                           "+restart" if h["restart"] else "")
    return "%s/%s/%s%s%s" % (h["layout"], h["drop"], h["cont"], "+restart" if h["restart"] else "", "+pre" if h["pre"] else "")


SHARED_DB = "c13"


def dbname(h):
    """DROP SERIES histories share one database (one index, one deleted-id set, one shard; measurement names are
    per history): series ids are per database, and with a database per history the ids dropped in one history
    coincide with live ids of all the others (see the crossdb scenario for that defect). DROP MEASUREMENT /
    RETENTION POLICY / DATABASE histories get a database of their own: the store flushes the whole shard when it
    carries out a DROP MEASUREMENT, which would change the layout of every other history in a shared shard."""
    if h.get("two"):
        return "t%04d" % h["idx"]
    if DROPS[h["drop"]]["kind"] != "series":
        return "h%04d" % h["idx"]
    return SHARED_DB


def mname(h):
    return "m%04d" % h["idx"]


def nname(h):
    return "n%04d" % h["idx"]


# read shapes whose series search starts from "all series of the measurement" (no tag filter, or a negative one)
UNFILTERED = {"plain", "tag_neq_a", "tag_neq_b", "tag_nre_a", "tag_nre_b", "field_gt", "tag_and_field", "group_tag",
              "group_time", "count_group_tag", "count", "count_exact"}


def tokens(h):
    """Flat token list of a history up to (not including) the restart part (two-drop histories: after the reopen
    barrier R of the layout, if it has one; see pre_tokens)."""
    if h.get("two"):
        t = tokens_two(h)
        return t[t.index(("R",)) + 1:] if ("R",) in t else t
    dk = DROPS[h["drop"]]["kind"]
    t = [("SETUP",)]
    t += LAYOUTS[h["layout"]]
    if h["pre"]:
        t.append(("CHECK", "before_drop"))
    if h["cont"] == "kill_now":
        t.append(("LATEDROP",))
    else:
        t.append(("DROP",))
        t.append(("CHECK", "after_drop"))
        t += CONTS[h["cont"]]
    return t


def pre_tokens(h):
    """tokens executed before the reopen barrier R (flush + kill -9 + start before anything else happens on the server)."""
    if h.get("two"):
        t = tokens_two(h)
        if ("R",) in t:
            return t[:t.index(("R",))]
    return []


def barrier_string(h):
    return "".join(x[0] for x in tokens(h) if x[0] in ("F", "C"))


def segments(h):
    """tokens split at barriers: [[tok..], [tok..], ...] (len = len(barrier_string)+1)."""
    segs = [[]]
    for x in tokens(h):
        if x[0] in ("F", "C"):
            segs.append([])
        else:
            segs[-1].append(x)
    return segs


def ends_dirty(h):
    """True if the last segment leaves rows in the memtable (then no foreign flush may follow)."""
    last = segments(h)[-1]
    return any(x[0] in ("W", "RW", "RW2", "RC") for x in last)


# ------------------------------------------------------------------ two-drop histories
# history = layout x drop1 x re-creation x drop2 x flush between x tail x restart, in a database of its own (t<idx>) with
#   target     (t<idx>, rp2, m<idx>)      hosts a b c d
#   sibling    (t<idx>, autogen, m<idx>)  hosts a b c   (same measurement name under the default policy)
#   bystander  (t<idx>, autogen, n<idx>)  hosts a b c
#   other db   (c13ob, autogen, m<idx>)   hosts a b c   (only if one of the drops is DROP DATABASE; the other database is
#                                                        shared by the histories of a server: nothing is dropped in it)
# so that every statement of the menu can be the first or the second drop on the same target.
D1 = ["s_some", "s_all", "measurement", "rp", "database"]
RCS = ["none", "same", "new"]  # nothing | the same series again | new series (tag set host only); both re-create what is missing
D2 = ["s_sub", "s_all", "measurement", "rp", "database"]
SUB_HOST = {"none": "b", "same": "a", "new": "e"}  # DROP SERIES ... WHERE host = X as second drop: a strict subset of what is there

LAYOUTS_TWO = dict(LAYOUTS)
LAYOUTS_TWO["reopened"] = [("W", (0, 1, 2)), ("R",)]  # flushed, then the server was killed and started again before the drops
LAYOUTS_TWO["prior"] = [("W", (0, 1, 2)), ("F",), ("DROP", 0), ("CHECK", "after_prior")]  # an earlier DROP SERIES of series d
del LAYOUTS_TWO["compacted"]

TAILS = {
    "none": [],
    "flush": [("F",), ("CHECK", "after_flush")],
    "rewrite_flush": [("RC", "again"), ("CHECK", "after_rewrite"), ("F",), ("CHECK", "after_flush")],
}


def _host_eq(x):
    return _p("host = '%s'" % x, lambda t, x=x: t.get("host") == x)


def drop_spec(h, n=1):
    """statement n of a history (0 = the prior drop of layout `prior`, 1, 2) -> dict(kind, [where, fn])"""
    if not h.get("two"):
        return DROPS[h["drop"]]
    if n == 0:
        return _host_eq("d")
    name = h["d1"] if n == 1 else h["d2"]
    if name == "s_some":
        return _host_eq("a")
    if name == "s_sub":
        return _host_eq(SUB_HOST[h["rc"]])
    if name == "s_all":
        return _p("", lambda t: True)
    return dict(kind=name)


def tokens_two(h):
    t = [("SETUP",)] + LAYOUTS_TWO[h["layout"]]
    t += [("DROP", 1), ("CHECK", "after_drop")]
    if h["rc"] != "none":
        t += [("RC", h["rc"]), ("CHECK", "after_recreate")]
    if h["mid"]:
        t += [("F",), ("CHECK", "after_midflush")]
    t += [("DROP", 2), ("CHECK", "after_drop2")]
    return t + TAILS[h["tail"]]


OTHER_DB = "c13ob"


def uses_otherdb(h):
    return "database" in (h["d1"], h["d2"])


def containers_two(h):
    """[(prefix, db, rp, mst, full)]: what a two-drop history reads at its checkpoints"""
    db, m, n = dbname(h), mname(h), nname(h)
    c = [("", db, RP2, m, True), ("bystander:", db, DEF_RP, n, False), ("autogen:", db, DEF_RP, m, False)]
    if uses_otherdb(h):
        c.append(("otherdb:", OTHER_DB, DEF_RP, m, False))
    return c


def load_rows(h, tis):
    """initial load of a two-drop history: [(db, rp, rows)]"""
    db, m, n = dbname(h), mname(h), nname(h)

    def rows(mst, hosts, off):
        return [(mst, skey(x), TS[ti], {"v": val(x, ti, off), "w": wval(x, ti)}) for x in hosts for ti in tis]
    out = [(db, DEF_RP, rows(m, "abc", 0) + rows(n, "abc", 1000)), (db, RP2, rows(m, "abcd", 2000))]
    if uses_otherdb(h):
        out.append((OTHER_DB, DEF_RP, rows(m, "abc", 3000)))
    return out


def rc_rows(h, which):
    """rows of a re-creation step (always into the target, at a new timestamp): same = the series a, b with their old tag
    set; new = series e, f with the tag set host only (a schema kept from before a container drop would show); again = the
    step after the second drop (series a, c with their old tag set at t4)"""
    m = mname(h)
    if which == "same":
        return [(m, skey("a"), TS[3], {"v": 100001.5}), (m, skey("b"), TS[3], {"v": 100002.5})]
    if which == "new":
        return [(m, skey("e"), TS[3], {"v": 100005.5}), (m, skey("f"), TS[3], {"v": 100006.5})]
    return [(m, skey("a"), TS[4], {"v": 100003.5}), (m, skey("c"), TS[4], {"v": 100004.5})]


def simulate(h):
    """Runs a two-drop history on the reference alone. Returns {n: (named object exists, series removed, series of the
    measurement m left in the database)} for the drops; used by the pruning rule and by the driver's self-check."""
    ref = Ref()
    db, m = dbname(h), mname(h)
    out = {}
    for tok in pre_tokens(h) + [("R",)] + tokens(h):
        if tok[0] == "SETUP":
            ref.create_db(db)
            ref.create_rp(db, RP2)
            if uses_otherdb(h):
                ref.create_db(OTHER_DB)
        elif tok[0] == "W":
            for d, rp, rows in load_rows(h, tok[1]):
                for mst, series, ts, fields in rows:
                    ref.write(d, rp, mst, series, ts, fields)
        elif tok[0] in ("F", "R"):
            ref.flushed()
        elif tok[0] == "RC":
            if db not in ref.dbs:
                ref.create_db(db)
            if not ref.container_exists(db, RP2):
                ref.create_rp(db, RP2)
            for mst, series, ts, fields in rc_rows(h, tok[1]):
                ref.write(db, RP2, mst, series, ts, fields)
        elif tok[0] == "DROP":
            spec = drop_spec(h, tok[1])
            exists = db in ref.dbs and (spec["kind"] != "rp" or ref.container_exists(db, RP2)) and (
                spec["kind"] not in ("series", "measurement") or any(k[0] == db and k[2] == m for k in ref.msts))
            removed = ref.apply_drop(spec, db, RP2, m, tag=tok[1]) if exists else 0
            out[tok[1]] = (exists, removed, len(ref.series_db(db, m)))
    return out


def admissible(h):
    """Pruning rule of the two-drop product: the second drop is enumerated iff, on the reference, the object it names
    exists at that point and the statement removes at least one series; the subset form (s_sub) must in addition leave at
    least one series of the measurement. (After 'nothing' as re-creation step that excludes every second drop on a
    container the first drop emptied or removed; DROP SERIES / MEASUREMENT after DROP RETENTION POLICY then act on the
    same measurement under the default policy.)"""
    exists, removed, left = simulate(dict(h, layout="memory", mid=0, tail="none", restart=0, idx=0))[2]
    if not exists or removed == 0:
        return False
    if h["d2"] == "s_sub" and left == 0:
        return False
    return True


def combos_two():
    return [dict(d1=d1, rc=rc, d2=d2) for d1 in D1 for rc in RCS for d2 in D2 if admissible(dict(two=1, d1=d1, rc=rc, d2=d2))]


def enumerate_two(tier):
    if tier == "quick":
        layouts = ["memory", "flushed", "reopened"]
        variants = [(0, "flush", 1), (0, "rewrite_flush", 1)]
    else:
        layouts = ["memory", "flushed", "late", "mixed", "reopened", "prior"]
        variants = [(0, "flush", 1), (0, "none", 1), (1, "flush", 1), (0, "rewrite_flush", 1)]
    hs = []
    for lay in layouts:
        for c in combos_two():
            for mid, tail, restart in variants:
                # two servers (by layout): CREATE DATABASE has to be issued one at a time per server (see the driver), and in
                # thorough neither server carries more than ~750 databases
                srv = "D" if lay in ("mixed", "reopened", "prior") else "C"
                hs.append(dict(c, srv=srv, two=1, layout=lay, mid=mid, tail=tail, restart=restart))
    return hs


# ------------------------------------------------------------------ reference
class Ref:
    """Reference map with deletion. data[(db, rp, mst)][series][ts] = {field: value}.
    `ghost` keeps what drops removed (same shape + flag mem = was in the memtable when dropped) for
    classification only; it never influences a verdict."""

    def __init__(self):
        self.data = {}
        self.ghost = {}
        self.dbs = set()
        self.rps = {}  # db -> set
        self.msts = set()  # (db, rp, mst) known to the catalogue
        self.unflushed = set()  # (key, series, ts) written since the last flush
        self.schema_tags = {}  # (db, rp, mst) -> tag keys ever written while the measurement existed
        self.dropped_kind = None
        self.drop_tag = 1  # ordinal of the drop being applied (0 = prior drop, 1, 2), set by the driver; classification only

    def create_db(self, db):
        self.dbs.add(db)
        self.rps.setdefault(db, set()).add(DEF_RP)

    def create_rp(self, db, rp):
        self.rps.setdefault(db, set()).add(rp)

    def write(self, db, rp, mst, series, ts, fields):
        k = (db, rp, mst)
        self.msts.add(k)
        self.schema_tags.setdefault(k, set()).update(t for t, _ in series)
        row = self.data.setdefault(k, {}).setdefault(series, {}).setdefault(ts, {})
        row.update(fields)
        self.unflushed.add((k, series, ts))

    def flushed(self):
        self.unflushed = set()

    def _bury(self, k, series, rows):
        g = self.ghost.setdefault(k, {}).setdefault(series, {})
        for ts, f in rows.items():
            g[ts] = dict(f, _mem=((k, series, ts) in self.unflushed), _n=self.drop_tag, _by=self.dropped_kind, _rp=k[1])

    def drop_series(self, db, mst, fn):
        n = 0
        self.dropped_kind = "series"
        for k in list(self.data):
            if k[0] == db and k[2] == mst:
                for s in list(self.data[k]):
                    if fn(dict(s)):
                        self._bury(k, s, self.data[k].pop(s))
                        n += 1
        return n

    def _drop_keys(self, pred):
        if self.dropped_kind in ("rp", "database"):
            # rows buried earlier inside this container: their write-ahead log goes away with the container's directory
            for k in self.ghost:
                if pred(k):
                    for r in self.ghost[k].values():
                        for f in r.values():
                            f["_mem"] = False
        for k in list(self.data):
            if pred(k):
                for s, rows in self.data.pop(k).items():
                    self._bury(k, s, rows)
        for k in list(self.msts):
            if pred(k):
                self.msts.discard(k)
                self.schema_tags.pop(k, None)

    def drop_measurement(self, db, mst):
        self.dropped_kind = "measurement"
        self._drop_keys(lambda k: k[0] == db and k[2] == mst)

    def drop_rp(self, db, rp):
        self.dropped_kind = "rp"
        self._drop_keys(lambda k: k[0] == db and k[1] == rp)
        self.rps[db].discard(rp)

    def drop_db(self, db):
        self.dropped_kind = "database"
        self._drop_keys(lambda k: k[0] == db)
        self.dbs.discard(db)
        self.rps.pop(db, None)

    def apply_drop(self, spec, db, rp, mst, tag=1):
        """spec = dict(kind=series|measurement|rp|database[, fn]); returns the number of series removed."""
        self.drop_tag = tag
        before = self.n_series()
        if spec["kind"] == "series":
            self.drop_series(db, mst, spec["fn"])
        elif spec["kind"] == "measurement":
            self.drop_measurement(db, mst)
        elif spec["kind"] == "rp":
            self.drop_rp(db, rp)
        else:
            self.drop_db(db)
        return before - self.n_series()

    def n_series(self):
        return sum(len(s) for s in self.data.values())

    # views
    def rows(self, db, rp, mst, with_ghost=None):
        """{series: {ts: fields}}; with_ghost in (None, 'all', 'mem', predicate on the buried row's fields + flags) adds
        buried rows not shadowed by live ones."""
        k = (db, rp, mst)
        out = {s: {ts: dict(f) for ts, f in r.items()} for s, r in self.data.get(k, {}).items()}
        if with_ghost:
            for s, r in self.ghost.get(k, {}).items():
                for ts, f in r.items():
                    if with_ghost == "mem" and not f.get("_mem"):
                        continue
                    if callable(with_ghost) and not with_ghost(f):
                        continue
                    if ts not in out.get(s, {}):
                        out.setdefault(s, {})[ts] = dict(f)  # keeps the classification flag "_mem"
        return {s: r for s, r in out.items() if r}

    def series_db(self, db, mst, with_ghost=None):
        """series of measurement mst over all retention policies of db (listings are database wide)."""
        out = set()
        keys = set(self.data) | (set(self.ghost) if with_ghost else set())
        for k in keys:
            if k[0] == db and k[2] == mst:
                out |= set(self.rows(k[0], k[1], k[2], with_ghost))
        return out

    def schema_tag_keys(self, db, mst):
        out = set()
        for k, v in self.schema_tags.items():
            if k[0] == db and k[2] == mst:
                out |= v
        return out

    def container_exists(self, db, rp):
        return db in self.dbs and rp in self.rps.get(db, ())


# ------------------------------------------------------------------ read shapes
def src(rp, mst):
    return '"%s"' % mst if rp == DEF_RP else '"%s"."%s"' % (rp, mst)


def _tagf(op, key, v):
    if op == "=":
        return lambda t: t.get(key, "") == v
    if op == "!=":
        return lambda t: t.get(key, "") != v
    if op == "=~":
        return lambda t: v in t.get(key, "")
    return lambda t: v not in t.get(key, "")


LISTINGS = ("series", "tagkeys", "tagvalues")


def shapes_for(rp, mst, full=True, qualified=False):
    """[(name, query text, kind, params)]; qualified: the listings name the retention policy as well"""
    s = src(rp, mst)
    ls = s if qualified else '"%s"' % mst
    out = [("plain", "select v from %s" % s, "rows", dict())]
    if full:
        for op, nm in (("=", "eq"), ("!=", "neq"), ("=~", "re"), ("!~", "nre")):
            for v in ("a", "b"):
                lit = "/%s/" % v if "~" in op else "'%s'" % v
                out.append(("tag_%s_%s" % (nm, v), "select v from %s where host %s %s" % (s, op, lit), "rows",
                            dict(tagf=_tagf(op, "host", v))))
        out.append(("tag_eq_region", "select v from %s where region = 'x'" % s, "rows", dict(tagf=_tagf("=", "region", "x"))))
        out.append(("field_gt", "select v from %s where v > 0" % s, "rows", dict(fieldf=lambda v: v > 0)))
        out.append(("tag_and_field", "select v from %s where host != 'b' and v > 0" % s, "rows",
                    dict(tagf=_tagf("!=", "host", "b"), fieldf=lambda v: v > 0)))
    out.append(("group_tag", "select v from %s group by host" % s, "grouped", dict()))
    if full:
        out.append(("group_time", "select count(v) from %s where time >= %d and time < %d group by time(1m)" % (
            s, TS[0], T_END), "buckets", dict()))
        out.append(("count_group_tag", "select count(v) from %s group by host" % s, "gcount", dict()))
    out.append(("count", "select count(v) from %s" % s, "count", dict()))
    if full:
        out.append(("count_exact", "select /*+ exact_statistic_query */ count(v) from %s" % s, "count", dict()))
    out.append(("show_series", 'show series from %s' % ls, "series", dict()))
    if full:
        out.append(("show_tag_keys", 'show tag keys from %s' % ls, "tagkeys", dict()))
        out.append(("show_tag_values", 'show tag values from %s with key = host' % ls, "tagvalues", dict()))
    return out


def expected(ref, db, rp, mst, kind, params, with_ghost=None, ghost_bypass=False, scope="db"):
    """Canonical expected answer of one shape on the reference (with_ghost / ghost_bypass: classification only;
    ghost_bypass = buried rows are not subjected to the tag filter of the shape). scope: what a listing FROM a measurement
    spans - the measurement under every retention policy of the database ("db") or under the named / default one ("rp")."""
    if kind in LISTINGS:
        ss = ref.series_db(db, mst, with_ghost) if scope == "db" else set(ref.rows(db, rp, mst, with_ghost))
        if kind == "series":
            return sorted(mst + "," + ",".join("%s=%s" % kv for kv in s) for s in ss)
        if kind == "tagkeys":
            return sorted({k for s in ss for k, _ in s})
        return sorted({v for s in ss for k, v in s if k == "host"})
    live = ref.rows(db, rp, mst)
    both = ref.rows(db, rp, mst, with_ghost) if with_ghost else live
    tagf = params.get("tagf")
    fieldf = params.get("fieldf")
    sel = {}
    for s, r in both.items():
        tag_ok = not tagf or tagf(dict(s))
        for ts, f in r.items():
            is_ghost = ts not in live.get(s, {})
            bypass = ghost_bypass and is_ghost and not (ghost_bypass == "flushed" and f.get("_mem"))
            if not tag_ok and not bypass:
                continue
            if "v" not in f:
                continue
            if fieldf and not fieldf(f["v"]):
                continue
            sel.setdefault(s, []).append((ts, f["v"]))
    if kind == "rows":
        return sorted(x for r in sel.values() for x in r)
    if kind == "grouped":
        g = {}
        for s, r in sel.items():
            g.setdefault(dict(s).get("host", ""), []).extend(r)
        return {h: sorted(r) for h, r in g.items()}
    if kind == "buckets":
        b = {}
        for r in sel.values():
            for ts, _ in r:
                if TS[0] <= ts < T_END:
                    bt = ts - ts % (60 * 10 ** 9)
                    b[bt] = b.get(bt, 0) + 1
        return b
    if kind == "gcount":
        g = {}
        for s, r in sel.items():
            h = dict(s).get("host", "")
            g[h] = g.get(h, 0) + len(r)
        return g
    if kind == "count":
        return sum(len(r) for r in sel.values())
    raise ValueError(kind)


NOT_FOUND = re.compile(r"not found|doesn'?t exist|does not exist|not exist", re.I)


def normalise(kind, status, js):
    """server answer -> ('ok', canonical) | ('error', text)"""
    if js is None:
        return ("error", "http %s, unparsable body" % status)
    if "error" in js and "results" not in js:
        return ("error", "http %s: %s" % (status, js["error"]))
    res = (js.get("results") or [{}])[0]
    if "error" in res:
        return ("error", res["error"])
    ser = res.get("series") or []
    try:
        if kind == "rows":
            out = []
            for s in ser:
                ci = s["columns"].index("v")
                out += [(r[0], r[ci]) for r in s["values"]]
            return ("ok", sorted(out))
        if kind == "grouped":
            g = {}
            for s in ser:
                ci = s["columns"].index("v")
                g.setdefault((s.get("tags") or {}).get("host", ""), []).extend((r[0], r[ci]) for r in s["values"])
            return ("ok", {h: sorted(r) for h, r in g.items()})
        if kind == "buckets":
            b = {}
            for s in ser:
                ci = s["columns"].index("count")
                for r in s["values"]:
                    if r[ci]:
                        b[r[0]] = b.get(r[0], 0) + r[ci]
            return ("ok", b)
        if kind == "gcount":
            g = {}
            for s in ser:
                ci = s["columns"].index("count")
                n = sum(r[ci] or 0 for r in s["values"])
                if n:
                    h = (s.get("tags") or {}).get("host", "")
                    g[h] = g.get(h, 0) + n
            return ("ok", g)
        if kind == "count":
            n = 0
            for s in ser:
                ci = s["columns"].index("count")
                n += sum(r[ci] or 0 for r in s["values"])
            return ("ok", n)
        if kind == "series":
            return ("ok", sorted(r[0] for s in ser for r in s["values"]))
        if kind == "tagkeys":
            return ("ok", sorted({r[0] for s in ser for r in s["values"]}))
        if kind == "tagvalues":
            return ("ok", sorted({r[1] for s in ser for r in s["values"] if r[0] == "host"}))
    except (KeyError, ValueError, IndexError, TypeError) as e:
        return ("error", "unexpected answer format (%s): %s" % (e, json.dumps(js)[:300]))
    raise ValueError(kind)


def covers(got, exp, kind):
    """got contains at least exp (used by the visibility barrier only)."""
    import collections
    if kind == "rows":
        return not (collections.Counter(map(tuple, exp)) - collections.Counter(map(tuple, got)))
    if kind == "grouped":
        return all(not (collections.Counter(map(tuple, v)) - collections.Counter(map(tuple, got.get(k, [])))) for k, v in exp.items())
    if kind in ("buckets", "gcount"):
        return all(got.get(k, 0) >= v for k, v in exp.items())
    if kind == "count":
        return got >= exp
    return set(exp) <= set(got)


def empty_of(kind):
    return {"rows": [], "grouped": {}, "buckets": {}, "gcount": {}, "count": 0, "series": [], "tagkeys": [],
            "tagvalues": []}[kind]


def jsonable(x):
    if isinstance(x, dict):
        return {str(k): jsonable(v) for k, v in sorted(x.items(), key=lambda kv: str(kv[0]))}
    if isinstance(x, (list, tuple)):
        return [jsonable(v) for v in x]
    return x
