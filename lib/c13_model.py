"""C13 model: universe, history enumeration (odometer), reference map with deletion, read shapes.

A history = (layout, drop, pre, cont, restart).  It runs in its own database h<idx> (bystander database
h<idx>b for DROP DATABASE histories).  The driver (checks/c13.py) executes the tokens produced by
`tokens(h)`; the reference (`Ref`) is advanced by the same tokens, every read shape is evaluated on the
reference (`expected`) and compared with the normalised server answer (`compare`)."""
import copy, json, re

T0 = 1700000040  # minute aligned, inside one 7-day shard group
TS = [(T0 + 60 * i) * 10 ** 9 for i in range(5)]  # t0..t2: loaded data; t3, t4: rewrites after the drop
T_END = TS[4] + 60 * 10 ** 9
HOSTS = {"a": "x", "b": "x", "c": "y", "d": "y"}  # host -> region ("d" exists only under rp2 in DROP RP histories)
HIDX = {"a": 0, "b": 1, "c": 2, "d": 3}
RP2 = "rp2"
DEF_RP = "autogen"


def val(host, ti, off=0):
    v = (HIDX[host] + 1) * 10 + ti + 0.5 + off
    if host == "c" and ti == 0:
        v = -v  # one non-positive value so that `where v > 0` is a real filter
    return v


def wval(host, ti):
    return (HIDX[host] + 1) * 100 + ti


def skey(host, region=True):
    return (("host", host), ("region", HOSTS[host])) if region else (("host", host),)


# ------------------------------------------------------------------ drops
def _p(where, fn):
    return dict(kind="series", where=where, fn=fn)


DROPS = {
    # name: predicate text, python predicate on the tag dict
    "s_eq_none": _p("host = 'z'", lambda t: t.get("host") == "z"),
    "s_eq_some": _p("host = 'a'", lambda t: t.get("host") == "a"),
    "s_eq_some2": _p("region = 'x'", lambda t: t.get("region") == "x"),
    "s_all_nowhere": _p("", lambda t: True),
    "s_neq_some": _p("host != 'a'", lambda t: t.get("host") != "a"),
    "s_neq_all": _p("host != 'z'", lambda t: t.get("host") != "z"),
    "s_neq_none": _p("region != 'x' and region != 'y'", lambda t: t.get("region") not in ("x", "y")),
    "s_re_none": _p("host =~ /z/", lambda t: "z" in t.get("host", "")),
    "s_re_some": _p("host =~ /a/", lambda t: "a" in t.get("host", "")),
    "s_re_all": _p("host =~ /.+/", lambda t: len(t.get("host", "")) > 0),
    "s_nre_some": _p("host !~ /a/", lambda t: "a" not in t.get("host", "")),
    "s_and_some": _p("host = 'b' and region = 'x'", lambda t: t.get("host") == "b" and t.get("region") == "x"),
    "s_or_some": _p("host = 'a' or host = 'c'", lambda t: t.get("host") in ("a", "c")),
    "measurement": dict(kind="measurement"),
    "rp": dict(kind="rp"),
    "database": dict(kind="database"),
}
DROPS_QUICK = ["s_eq_none", "s_eq_some", "s_all_nowhere", "s_neq_some", "s_neq_all", "s_re_some", "s_re_all",
               "s_or_some", "measurement", "rp", "database"]
DROPS_THOROUGH = list(DROPS)

# layout -> token list; W(i, j, ..) = write timestamps i, j ..; F = global flush barrier; C = flush + wait for full compaction
LAYOUTS = {
    "memory": [("W", (0, 1, 2))],
    "flushed": [("W", (0, 1, 2)), ("F",)],
    "late": [("W", (0, 2)), ("F",), ("W", (1,)), ("F",)],  # t1 arrives after t2 was flushed: out-of-order file
    "mixed": [("W", (0, 1)), ("F",), ("W", (2,))],  # part in files, part in the memtable
    "compacted": [("W", (0,)), ("F",), ("W", (1, 2)), ("C",)],
}

# continuation -> tokens after the first check
CONTS = {
    "none": [],
    "rewrite": [("RW",), ("CHECK", "after_rewrite")],
    "flush": [("F",), ("CHECK", "after_flush")],
    "rewrite_flush": [("RW",), ("CHECK", "after_rewrite"), ("F",), ("CHECK", "after_flush")],
    "compact": [("RW",), ("CHECK", "after_rewrite"), ("F",), ("RW2",), ("C",), ("CHECK", "after_compact")],
    "kill_now": [],  # the drop itself is delayed to the instant before kill -9
}


def enumerate_histories(tier):
    """Odometer over the bounded alphabet; returns list of history dicts (idx = position)."""
    hs = []
    if tier == "quick":
        layouts = ["memory", "flushed", "late"]
        drops = DROPS_QUICK
        variants = [("none", 0, 0), ("none", 0, 1), ("rewrite", 0, 0), ("flush", 0, 0), ("rewrite_flush", 0, 0),
                    ("none", 1, 0), ("rewrite", 1, 0), ("rewrite_flush", 1, 0), ("kill_now", 1, 0)]
    else:
        layouts = ["memory", "flushed", "late", "mixed"]
        drops = DROPS_THOROUGH
        variants = [("none", 0, 0), ("none", 0, 1), ("rewrite", 0, 0), ("rewrite", 0, 1), ("flush", 0, 0),
                    ("rewrite_flush", 0, 0), ("none", 1, 0), ("none", 1, 1), ("rewrite", 1, 0), ("flush", 1, 0),
                    ("rewrite_flush", 1, 0), ("kill_now", 1, 0)]
    for lay in layouts:
        for d in drops:
            for cont, restart, pre in variants:
                hs.append(dict(srv="A", layout=lay, drop=d, cont=cont, restart=restart, pre=pre))
    if tier == "thorough":
        for d in drops:
            for cont, restart, pre in [("none", 0, 0), ("none", 1, 1), ("rewrite", 1, 0), ("flush", 0, 0),
                                       ("compact", 0, 0), ("compact", 1, 0)]:
                hs.append(dict(srv="B", layout="compacted", drop=d, cont=cont, restart=restart, pre=pre))
    for i, h in enumerate(hs):
        h["idx"] = i
    hs.append(dict(srv="A", special="crossdb", idx=len(hs)))
    return hs


def hkey(h):
    return "%s/%s/%s%s%s" % (h["layout"], h["drop"], h["cont"], "+restart" if h["restart"] else "", "+pre" if h["pre"] else "")


SHARED_DB = "c13"


def dbname(h):
    """DROP SERIES histories share one database (one index, one deleted-id set, one shard; measurement names are
    per history): series ids are per database, and with a database per history the ids dropped in one history
    coincide with live ids of all the others (see the crossdb scenario for that defect). DROP MEASUREMENT /
    RETENTION POLICY / DATABASE histories get a database of their own: the store flushes the whole shard when it
    carries out a DROP MEASUREMENT, which would change the layout of every other history in a shared shard."""
    if DROPS[h["drop"]]["kind"] != "series":
        return "h%04d" % h["idx"]
    return SHARED_DB


def mname(h):
    return "m%04d" % h["idx"]


def nname(h):
    return "n%04d" % h["idx"]


# read shapes whose series search starts from "all series of the measurement" (no tag filter, or a negative one)
UNFILTERED = {"plain", "tag_neq_a", "tag_neq_b", "tag_nre_a", "tag_nre_b", "field_gt", "tag_and_field", "group_tag",
              "group_time", "count_group_tag", "count", "count_exact"}


def tokens(h):
    """Flat token list of a history up to (not including) the restart part."""
    dk = DROPS[h["drop"]]["kind"]
    t = [("SETUP",)]
    t += LAYOUTS[h["layout"]]
    if h["pre"]:
        t.append(("CHECK", "before_drop"))
    if h["cont"] == "kill_now":
        t.append(("LATEDROP",))
    else:
        t.append(("DROP",))
        t.append(("CHECK", "after_drop"))
        t += CONTS[h["cont"]]
    return t


def barrier_string(h):
    return "".join(x[0] for x in tokens(h) if x[0] in ("F", "C"))


def segments(h):
    """tokens split at barriers: [[tok..], [tok..], ...] (len = len(barrier_string)+1)."""
    segs = [[]]
    for x in tokens(h):
        if x[0] in ("F", "C"):
            segs.append([])
        else:
            segs[-1].append(x)
    return segs


def ends_dirty(h):
    """True if the last segment leaves rows in the memtable (then no foreign flush may follow)."""
    last = segments(h)[-1]
    return any(x[0] in ("W", "RW", "RW2") for x in last)


# ------------------------------------------------------------------ reference
class Ref:
    """Reference map with deletion. data[(db, rp, mst)][series][ts] = {field: value}.
    `ghost` keeps what drops removed (same shape + flag mem = was in the memtable when dropped) for
    classification only; it never influences a verdict."""

    def __init__(self):
        self.data = {}
        self.ghost = {}
        self.dbs = set()
        self.rps = {}  # db -> set
        self.msts = set()  # (db, rp, mst) known to the catalogue
        self.unflushed = set()  # (key, series, ts) written since the last flush
        self.schema_tags = {}  # (db, rp, mst) -> tag keys ever written while the measurement existed
        self.dropped_kind = None

    def create_db(self, db):
        self.dbs.add(db)
        self.rps.setdefault(db, set()).add(DEF_RP)

    def create_rp(self, db, rp):
        self.rps.setdefault(db, set()).add(rp)

    def write(self, db, rp, mst, series, ts, fields):
        k = (db, rp, mst)
        self.msts.add(k)
        self.schema_tags.setdefault(k, set()).update(t for t, _ in series)
        row = self.data.setdefault(k, {}).setdefault(series, {}).setdefault(ts, {})
        row.update(fields)
        self.unflushed.add((k, series, ts))

    def flushed(self):
        self.unflushed = set()

    def _bury(self, k, series, rows):
        g = self.ghost.setdefault(k, {}).setdefault(series, {})
        for ts, f in rows.items():
            g[ts] = dict(f, _mem=((k, series, ts) in self.unflushed))

    def drop_series(self, db, mst, fn):
        n = 0
        for k in list(self.data):
            if k[0] == db and k[2] == mst:
                for s in list(self.data[k]):
                    if fn(dict(s)):
                        self._bury(k, s, self.data[k].pop(s))
                        n += 1
        self.dropped_kind = "series"
        return n

    def _drop_keys(self, pred):
        for k in list(self.data):
            if pred(k):
                for s, rows in self.data.pop(k).items():
                    self._bury(k, s, rows)
        for k in list(self.msts):
            if pred(k):
                self.msts.discard(k)
                self.schema_tags.pop(k, None)

    def drop_measurement(self, db, mst):
        self._drop_keys(lambda k: k[0] == db and k[2] == mst)
        self.dropped_kind = "measurement"

    def drop_rp(self, db, rp):
        self._drop_keys(lambda k: k[0] == db and k[1] == rp)
        self.rps[db].discard(rp)
        self.dropped_kind = "rp"

    def drop_db(self, db):
        self._drop_keys(lambda k: k[0] == db)
        self.dbs.discard(db)
        self.rps.pop(db, None)
        self.dropped_kind = "database"

    # views
    def rows(self, db, rp, mst, with_ghost=None):
        """{series: {ts: fields}}; with_ghost in (None, 'all', 'mem') adds buried rows not shadowed by live ones."""
        k = (db, rp, mst)
        out = {s: {ts: dict(f) for ts, f in r.items()} for s, r in self.data.get(k, {}).items()}
        if with_ghost:
            for s, r in self.ghost.get(k, {}).items():
                for ts, f in r.items():
                    if with_ghost == "mem" and not f.get("_mem"):
                        continue
                    if ts not in out.get(s, {}):
                        out.setdefault(s, {})[ts] = dict(f)  # keeps the classification flag "_mem"
        return {s: r for s, r in out.items() if r}

    def series_db(self, db, mst, with_ghost=None):
        """series of measurement mst over all retention policies of db (listings are database wide)."""
        out = set()
        keys = set(self.data) | (set(self.ghost) if with_ghost else set())
        for k in keys:
            if k[0] == db and k[2] == mst:
                out |= set(self.rows(k[0], k[1], k[2], with_ghost))
        return out

    def schema_tag_keys(self, db, mst):
        out = set()
        for k, v in self.schema_tags.items():
            if k[0] == db and k[2] == mst:
                out |= v
        return out

    def container_exists(self, db, rp):
        return db in self.dbs and rp in self.rps.get(db, ())


# ------------------------------------------------------------------ read shapes
def src(rp, mst):
    return '"%s"' % mst if rp == DEF_RP else '"%s"."%s"' % (rp, mst)


def _tagf(op, key, v):
    if op == "=":
        return lambda t: t.get(key, "") == v
    if op == "!=":
        return lambda t: t.get(key, "") != v
    if op == "=~":
        return lambda t: v in t.get(key, "")
    return lambda t: v not in t.get(key, "")


def shapes_for(rp, mst, full=True):
    """[(name, query text, kind, params)]"""
    s = src(rp, mst)
    out = [("plain", "select v from %s" % s, "rows", dict())]
    if full:
        for op, nm in (("=", "eq"), ("!=", "neq"), ("=~", "re"), ("!~", "nre")):
            for v in ("a", "b"):
                lit = "/%s/" % v if "~" in op else "'%s'" % v
                out.append(("tag_%s_%s" % (nm, v), "select v from %s where host %s %s" % (s, op, lit), "rows",
                            dict(tagf=_tagf(op, "host", v))))
        out.append(("tag_eq_region", "select v from %s where region = 'x'" % s, "rows", dict(tagf=_tagf("=", "region", "x"))))
        out.append(("field_gt", "select v from %s where v > 0" % s, "rows", dict(fieldf=lambda v: v > 0)))
        out.append(("tag_and_field", "select v from %s where host != 'b' and v > 0" % s, "rows",
                    dict(tagf=_tagf("!=", "host", "b"), fieldf=lambda v: v > 0)))
    out.append(("group_tag", "select v from %s group by host" % s, "grouped", dict()))
    if full:
        out.append(("group_time", "select count(v) from %s where time >= %d and time < %d group by time(1m)" % (
            s, TS[0], T_END), "buckets", dict()))
        out.append(("count_group_tag", "select count(v) from %s group by host" % s, "gcount", dict()))
    out.append(("count", "select count(v) from %s" % s, "count", dict()))
    if full:
        out.append(("count_exact", "select /*+ exact_statistic_query */ count(v) from %s" % s, "count", dict()))
    out.append(("show_series", 'show series from "%s"' % mst, "series", dict()))
    if full:
        out.append(("show_tag_keys", 'show tag keys from "%s"' % mst, "tagkeys", dict()))
        out.append(("show_tag_values", 'show tag values from "%s" with key = host' % mst, "tagvalues", dict()))
    return out


def expected(ref, db, rp, mst, kind, params, with_ghost=None, ghost_bypass=False):
    """Canonical expected answer of one shape on the reference (with_ghost / ghost_bypass: classification only;
    ghost_bypass = buried rows are not subjected to the tag filter of the shape)."""
    if kind in ("series", "tagkeys", "tagvalues"):
        ss = ref.series_db(db, mst, with_ghost)
        if kind == "series":
            return sorted(mst + "," + ",".join("%s=%s" % kv for kv in s) for s in ss)
        if kind == "tagkeys":
            return sorted({k for s in ss for k, _ in s})
        return sorted({v for s in ss for k, v in s if k == "host"})
    live = ref.rows(db, rp, mst)
    both = ref.rows(db, rp, mst, with_ghost) if with_ghost else live
    tagf = params.get("tagf")
    fieldf = params.get("fieldf")
    sel = {}
    for s, r in both.items():
        tag_ok = not tagf or tagf(dict(s))
        for ts, f in r.items():
            is_ghost = ts not in live.get(s, {})
            bypass = ghost_bypass and is_ghost and not (ghost_bypass == "flushed" and f.get("_mem"))
            if not tag_ok and not bypass:
                continue
            if "v" not in f:
                continue
            if fieldf and not fieldf(f["v"]):
                continue
            sel.setdefault(s, []).append((ts, f["v"]))
    if kind == "rows":
        return sorted(x for r in sel.values() for x in r)
    if kind == "grouped":
        g = {}
        for s, r in sel.items():
            g.setdefault(dict(s).get("host", ""), []).extend(r)
        return {h: sorted(r) for h, r in g.items()}
    if kind == "buckets":
        b = {}
        for r in sel.values():
            for ts, _ in r:
                if TS[0] <= ts < T_END:
                    bt = ts - ts % (60 * 10 ** 9)
                    b[bt] = b.get(bt, 0) + 1
        return b
    if kind == "gcount":
        g = {}
        for s, r in sel.items():
            h = dict(s).get("host", "")
            g[h] = g.get(h, 0) + len(r)
        return g
    if kind == "count":
        return sum(len(r) for r in sel.values())
    raise ValueError(kind)


NOT_FOUND = re.compile(r"not found|doesn'?t exist|does not exist|not exist", re.I)


def normalise(kind, status, js):
    """server answer -> ('ok', canonical) | ('error', text)"""
    if js is None:
        return ("error", "http %s, unparsable body" % status)
    if "error" in js and "results" not in js:
        return ("error", "http %s: %s" % (status, js["error"]))
    res = (js.get("results") or [{}])[0]
    if "error" in res:
        return ("error", res["error"])
    ser = res.get("series") or []
    try:
        if kind == "rows":
            out = []
            for s in ser:
                ci = s["columns"].index("v")
                out += [(r[0], r[ci]) for r in s["values"]]
            return ("ok", sorted(out))
        if kind == "grouped":
            g = {}
            for s in ser:
                ci = s["columns"].index("v")
                g.setdefault((s.get("tags") or {}).get("host", ""), []).extend((r[0], r[ci]) for r in s["values"])
            return ("ok", {h: sorted(r) for h, r in g.items()})
        if kind == "buckets":
            b = {}
            for s in ser:
                ci = s["columns"].index("count")
                for r in s["values"]:
                    if r[ci]:
                        b[r[0]] = b.get(r[0], 0) + r[ci]
            return ("ok", b)
        if kind == "gcount":
            g = {}
            for s in ser:
                ci = s["columns"].index("count")
                n = sum(r[ci] or 0 for r in s["values"])
                if n:
                    h = (s.get("tags") or {}).get("host", "")
                    g[h] = g.get(h, 0) + n
            return ("ok", g)
        if kind == "count":
            n = 0
            for s in ser:
                ci = s["columns"].index("count")
                n += sum(r[ci] or 0 for r in s["values"])
            return ("ok", n)
        if kind == "series":
            return ("ok", sorted(r[0] for s in ser for r in s["values"]))
        if kind == "tagkeys":
            return ("ok", sorted({r[0] for s in ser for r in s["values"]}))
        if kind == "tagvalues":
            return ("ok", sorted({r[1] for s in ser for r in s["values"] if r[0] == "host"}))
    except (KeyError, ValueError, IndexError, TypeError) as e:
        return ("error", "unexpected answer format (%s): %s" % (e, json.dumps(js)[:300]))
    raise ValueError(kind)


def covers(got, exp, kind):
    """got contains at least exp (used by the visibility barrier only)."""
    import collections
    if kind == "rows":
        return not (collections.Counter(map(tuple, exp)) - collections.Counter(map(tuple, got)))
    if kind == "grouped":
        return all(not (collections.Counter(map(tuple, v)) - collections.Counter(map(tuple, got.get(k, [])))) for k, v in exp.items())
    if kind in ("buckets", "gcount"):
        return all(got.get(k, 0) >= v for k, v in exp.items())
    if kind == "count":
        return got >= exp
    return set(exp) <= set(got)


def empty_of(kind):
    return {"rows": [], "grouped": {}, "buckets": {}, "gcount": {}, "count": 0, "series": [], "tagkeys": [],
            "tagvalues": []}[kind]


def jsonable(x):
    if isinstance(x, dict):
        return {str(k): jsonable(v) for k, v in sorted(x.items(), key=lambda kv: str(kv[0]))}
    if isinstance(x, (list, tuple)):
        return [jsonable(v) for v in x]
    return x
