"""C08 model: data sets, statement grammar, and a direct evaluator of the documented InfluxQL semantics.

Everything here is pure Python over small tuples; nothing talks to a server.

Universe
  series   s0 = {host=a,region=x}, s1 = {host=b,region=x}, s2 = {host=b,region=y}
  times    T+0s, T+10s, T+20s, T+40s   (T is a multiple of 20 s; "straddle" data sets put T 20 s before a
           shard-group boundary so that the last two timestamps live in the next shard group)
  cell     '.' absent | 'B' f and g | 'F' f only (g null) | 'G' g only (f null)
  fields   f float (multiples of 0.5 so that sums are exact in every evaluation order), g int or string
"""
import itertools, json

NS = 10 ** 9
SERIES = [{"host": "a", "region": "x"}, {"host": "b", "region": "x"}, {"host": "b", "region": "y"}]
OFFS = [0, 10, 20, 40]
T_IN = 1700000000            # inside the shard group 2023-11-13 .. 2023-11-20
T_STRADDLE = 1700438400 - 20  # 2023-11-20T00:00:00Z is a shard-group (week) boundary
FV = [[1.5, 2.5, -1.0, 4.0], [1.5, 7.0, -2.0, 0.5], [3.0, 2.5, -2.0, 8.0]]
GV = [[1, 2, 3, 4], [1, 5, -3, 2], [6, 2, -3, 0]]

# per-series pattern menus (odometer: s0 fastest)
MENU = [
    ["BB.B", "FBG.", ".B.B", "F..."],
    ["B.BB", "GF.F", ".BB.", "...."],
    ["....", ".B..", "FF.G", "G.G."],
]


class DataSet:
    def __init__(self, idx, cells, gtype="int", base="in"):
        self.idx, self.cells, self.gtype, self.base = idx, tuple(cells), gtype, base
        self.T = T_IN if base == "in" else T_STRADDLE

    def key(self):
        return "%s/%s/%s" % ("|".join(self.cells), self.gtype, self.base)

    def to_json(self):
        return {"cells": list(self.cells), "gtype": self.gtype, "base": self.base, "idx": self.idx}

    @staticmethod
    def from_json(o):
        return DataSet(o.get("idx", 0), o["cells"], o.get("gtype", "int"), o.get("base", "in"))

    def gval(self, si, ti):
        v = GV[si][ti]
        return v if self.gtype == "int" else "v%d" % v

    def points(self):
        """[(si, ti, time_ns, f|None, g|None)] in series-major order."""
        out = []
        for si, pat in enumerate(self.cells):
            for ti, c in enumerate(pat):
                if c == ".":
                    continue
                t = (self.T + OFFS[ti]) * NS
                f = FV[si][ti] if c in "BF" else None
                g = self.gval(si, ti) if c in "BG" else None
                out.append((si, ti, t, f, g))
        return out

    def npoints(self):
        return sum(1 for p in self.cells for c in p if c != ".")

    def nseries(self):
        return sum(1 for p in self.cells if p.strip("."))

    def nvalues(self):
        """(number of non-null f, number of non-null g) - used by the visibility barrier."""
        pts = self.points()
        return sum(1 for p in pts if p[3] is not None), sum(1 for p in pts if p[4] is not None)

    # ---- line protocol -------------------------------------------------------------------------------------
    def _line(self, mst, si, t, f, g):
        fs = []
        if f is not None:
            fs.append("f=%r" % f)
        if g is not None:
            fs.append("g=%di" % g if self.gtype == "int" else 'g="%s"' % g)
        s = SERIES[si]
        return "%s,host=%s,region=%s %s %d" % (mst, s["host"], s["region"], ",".join(fs), t)

    def lines_all(self, mst):
        return [self._line(mst, si, t, f, g) for si, ti, t, f, g in self.points()]

    def split_point(self):
        """(si, ti) of the row that the late layout completes after the flush: the newest point of the first series whose
        newest point carries both fields (f is written before the flush, g after it); None if there is no such row."""
        pts = self.points()
        for si in range(3):
            sp = [p for p in pts if p[0] == si]
            if sp and sp[-1][3] is not None and sp[-1][4] is not None:
                return (si, sp[-1][1])
        return None

    def lines_late(self, mst):
        """(first batch, late batch). Late = the earliest point of every series that has >= 2 points (out of order
        w.r.t. the flushed file of that series) + the g field of split_point() (same row completed after the flush)."""
        pts = self.points()
        first, late = [], []
        split = self.split_point()
        for si in range(3):
            sp = [p for p in pts if p[0] == si]
            for j, (s, ti, t, f, g) in enumerate(sp):
                if (s, ti) == split:
                    first.append(self._line(mst, s, t, f, None))
                    late.append(self._line(mst, s, t, None, g))
                elif len(sp) >= 2 and j == 0:
                    late.append(self._line(mst, s, t, f, g))
                else:
                    first.append(self._line(mst, s, t, f, g))
        return first, late

    def lines_seq(self, mst):
        """(first batch, second batch) for the sequential layouts: points at the first two timestamps are flushed before the
        points at the last two timestamps are written (a second, newer, in-order file / newer memtable rows)."""
        first, second = [], []
        for si, ti, t, f, g in self.points():
            (first if ti <= 1 else second).append(self._line(mst, si, t, f, g))
        return first, second

    def has_seq(self):
        a, b = self.lines_seq("m")
        return bool(a) and bool(b)

    def has_late(self):
        return bool(self.lines_late("m")[1])

    def features(self):
        fs = set()
        pts = self.points()
        cells = "".join(self.cells)
        for c in "BFG":
            if c in cells:
                fs.add("cell" + c)
        times = [p[1] for p in pts]
        if len(times) != len(set(times)):
            fs.add("equal_ts_across_series")
        ftimes = sorted(set(p[1] for p in pts if p[3] is not None))
        if any(b - a > 1 for a, b in zip(ftimes, ftimes[1:])) or (ftimes and 3 in ftimes and 2 not in ftimes):
            fs.add("gap")
        for pat in self.cells:
            core = pat.replace(".", "")
            if core and set(core) == {"F"}:
                fs.add("series_only_f")
            if core and set(core) == {"G"}:
                fs.add("series_only_g")
            if len(core) >= 3:
                fs.add("series_3pts")
            if "F" in core and "G" in core:
                fs.add("series_alternating_nulls")
        fs.add("nseries%d" % self.nseries())
        fs.add("g_" + self.gtype)
        fs.add("base_" + self.base)
        if self.has_late():
            fs.add("late")
        if self.has_seq():
            fs.add("seq")
        if sum(1 for p in pts if p[3] is not None) >= 5:
            fs.add("f_values_5")
        return fs


def all_datasets():
    """Odometer over the three pattern menus, restricted to 3..6 points and >= 2 non-empty series."""
    out = []
    n = 0
    for c2 in MENU[2]:
        for c1 in MENU[1]:
            for c0 in MENU[0]:
                ds = DataSet(0, (c0, c1, c2))
                if not (3 <= ds.npoints() <= 6) or ds.nseries() < 2:
                    continue
                gtype = "str" if n % 4 == 3 else "int"
                base = "straddle" if n % 3 == 2 else "in"
                out.append(DataSet(n, (c0, c1, c2), gtype, base))
                n += 1
    return out


def datasets(tier):
    """thorough: all data sets of the odometer, ordered by greedy feature cover (most new features first, lowest index on
    ties) so that a deadline cut loses the least diverse ones; quick: the first three of that order."""
    al = all_datasets()
    chosen, covered = [], set()
    while len(chosen) < len(al):
        best, gain = None, -1
        for ds in al:
            if ds in chosen:
                continue
            g = len(ds.features() - covered) * 10 + ds.npoints()
            if g > gain:
                best, gain = ds, g
        chosen.append(best)
        covered |= best.features()
        if len(covered) == len(set().union(*[d.features() for d in al])) and len(chosen) % 3 == 0:
            covered = set()   # start a new cover round
    return chosen if tier == "thorough" else chosen[:3]


# ---- statements --------------------------------------------------------------------------------------------
AGGS = ["count", "sum", "mean", "min", "max", "first", "last"]


def _pred(name, ds):
    """-> (text, tag_fn(series dict) | None, field_fn(f, g) | None)"""
    if name is None:
        return None, None, None
    if name == "T1":
        return "host = 'a'", (lambda s: s["host"] == "a"), None
    if name == "T2":
        return "host != 'a'", (lambda s: s["host"] != "a"), None
    if name == "T3":
        return "region = 'x' AND host = 'b'", (lambda s: s["region"] == "x" and s["host"] == "b"), None
    if name == "T4":
        return "host = 'a' OR region = 'y'", (lambda s: s["host"] == "a" or s["region"] == "y"), None
    if name == "F1":
        return "f > 1.5", None, (lambda f, g: f is not None and f > 1.5)
    if name == "F2":
        if ds.gtype == "int":
            return "g <= 2", None, (lambda f, g: g is not None and g <= 2)
        return "g = 'v2'", None, (lambda f, g: g is not None and g == "v2")
    if name == "TF":
        return "host = 'b' AND f > 0", (lambda s: s["host"] == "b"), (lambda f, g: f is not None and f > 0)
    raise KeyError(name)


def _range(name, T):
    """-> (text(abs), text(relative), lo_ns|None, hi_ns|None (both inclusive), label alternatives for the lower bound)"""
    if name is None:
        return None, None, None, None, [0]
    if name == "Ra":
        return ("time >= %ds AND time < %ds" % (T + 5, T + 45), "time >= T+5s AND time < T+45s",
                (T + 5) * NS, (T + 45) * NS - 1, [(T + 5) * NS])
    if name == "Rb":
        return ("time >= %ds AND time <= %ds" % (T + 10, T + 20), "time >= T+10s AND time <= T+20s",
                (T + 10) * NS, (T + 20) * NS, [(T + 10) * NS])
    if name == "Rc":
        return ("time > %ds AND time <= %ds" % (T, T + 40), "time > T AND time <= T+40s",
                T * NS + 1, (T + 40) * NS, [T * NS + 1, T * NS])
    if name == "Rf":
        return ("time >= %ds AND time <= %ds" % (T, T + 40), "time >= T AND time <= T+40s",
                T * NS, (T + 40) * NS, [T * NS])
    if name == "Rd":
        return ("time >= %ds" % (T + 10), "time >= T+10s", (T + 10) * NS, None, [(T + 10) * NS])
    if name == "Re":
        return ("time < %ds" % (T + 20), "time < T+20s", None, (T + 20) * NS - 1, [0])
    raise KeyError(name)


def stmt(sel, pred=None, rng=None, gbtag=None, w=None, fill=None, desc=False, limit=None):
    return {"sel": sel, "pred": pred, "rng": rng, "gbtag": gbtag, "w": w, "fill": fill, "desc": desc,
            "limit": list(limit) if limit else None}


def render(st, ds, mst="m", relative=False):
    sel = st["sel"]
    s = "SELECT %s FROM %s" % (sel if sel in ("f", "f,g") else "%s(f)" % sel, mst)
    conds = []
    rt = _range(st["rng"], ds.T)
    if rt[0]:
        conds.append(rt[1] if relative else rt[0])
    pt = _pred(st["pred"], ds)[0]
    if pt:
        conds.append("(%s)" % pt if (" OR " in pt and conds) else pt)
    if conds:
        s += " WHERE " + " AND ".join(conds)
    gb = []
    if st["w"]:
        gb.append("time(%ds)" % st["w"])
    if st["gbtag"]:
        gb.append(st["gbtag"])
    if gb:
        s += " GROUP BY " + ", ".join(gb)
    if st["fill"]:
        s += " fill(%s)" % st["fill"]
    if st["desc"]:
        s += " ORDER BY time DESC"
    if st["limit"]:
        s += " LIMIT %d" % st["limit"][0]
        if st["limit"][1]:
            s += " OFFSET %d" % st["limit"][1]
    return s


def shape(st, ds):
    """Query text with measurement `m` and T-relative times: the key of violations / known-finding regexes."""
    return render(st, ds, "m", relative=True)


def is_agg(st):
    return st["sel"] not in ("f", "f,g")


def klass(st):
    """'ref'  - answer asserted against the reference evaluator;
       'meta' - limit/offset on a grouped query: compared only across configurations (statement is silent)."""
    if st["limit"] and (st["gbtag"] or st["w"] or is_agg(st)):
        return "meta"
    return "ref"


def statements(tier):
    th = tier == "thorough"
    out = []
    preds_raw = [None, "T1", "T2", "T3", "T4", "F1", "F2", "TF"] if th else [None, "T2", "T4", "F1", "F2"]
    rng_raw = [None, "Ra", "Rb"] if th else [None, "Rb"]
    lim_raw = [None, (2, 0), (2, 1), (1, 3)] if th else [None, (2, 1)]
    # plain selections
    for sel in ("f", "f,g"):
        for p in preds_raw:
            for r in rng_raw:
                for gb in (None, "host"):
                    lims = lim_raw if gb is None else ([None, (1, 1)] if th or (p is None and r is None) else [None])
                    for lim in lims:
                        for desc in (False, True):
                            out.append(stmt(sel, p, r, gb, None, None, desc, lim))
    # aggregates overall / per tag group
    preds_agg = [None, "T1", "T3", "T4", "F1", "F2"] if th else [None, "T4", "F1"]
    rng_agg = [None, "Ra", "Rc", "Rd", "Re"] if th else [None, "Rd"]
    for a in AGGS:
        for p in preds_agg:
            for r in rng_agg:
                if not th and p is not None and r is not None:
                    continue
                if th and r in ("Rc", "Re") and p not in (None, "F1"):
                    continue
                for gb in (None, "host", "region"):
                    if gb == "region" and not th and p is not None:
                        continue
                    for desc in (False, True):
                        if desc and gb == "region" and r is not None:
                            continue
                        out.append(stmt(a, p, r, gb, None, None, desc, None))
    # aggregates per epoch-aligned time bucket (always explicit time bounds)
    preds_t = [None, "T2", "F1"] if th else [None, "F1"]
    rng_t = ["Ra", "Rb", "Rc"] if th else ["Ra"]
    wf = [(10, None), (10, "none"), (10, "0"), (10, "previous"), (20, None), (20, "previous")] if th else \
         [(10, None), (10, "previous"), (20, "0"), (10, "none")]
    for a in AGGS:
        for p in preds_t:
            for r in rng_t:
                if th and r == "Rc" and p is not None:
                    continue
                for w, fill in wf:
                    if p is not None and (fill not in (None, "previous") or (th and (w, fill) == (20, None))):
                        continue
                    for gb in (None, "host"):
                        for desc in (False, True):
                            out.append(stmt(a, p, r, gb, w, fill, desc, None))
    # limit/offset on grouped queries: configuration invariance only
    for a in (AGGS if th else ["count", "last"]):
        for gb in (None, "host"):
            for desc in (False, True):
                out.append(stmt(a, None, "Ra", gb, 10, None, desc, (2, 1)))
                out.append(stmt(a, None, "Rf", gb, 10, "none", desc, (2, 1)))
    return out


# ---- reference evaluator -----------------------------------------------------------------------------------
def _agg_value(a, vals):
    """vals = [(t, f)] non-empty. -> list of alternative (time, value); time None = no own time (non-selector)."""
    fs = [v for _, v in vals]
    if a == "count":
        return [(None, len(fs))]
    if a == "sum":
        return [(None, sum(fs))]
    if a == "mean":
        return [(None, sum(fs) / len(fs))]
    if a in ("min", "max"):
        m = min(fs) if a == "min" else max(fs)
        return sorted(set((t, m) for t, v in vals if v == m))
    tt = min(t for t, _ in vals) if a == "first" else max(t for t, _ in vals)
    return sorted(set((tt, v) for t, v in vals if t == tt))


def evaluate(ds, st, fill_prev_iteration_order=False, keep_null_rows=False, split_row=False, swap_first_last=False):
    """Expected answer of the statement over the logical contents, ascending orientation.
    -> list of series dicts {tags: {..}, columns: [..], groups: [(time, [value tuples], need)]} or {.., alts: [(time, tuple)]}.
    groups: the actual rows at `time` must be exactly `need` rows forming a sub-multiset of the candidates
            (need < len(candidates) only where limit/offset cuts through rows of equal timestamp, or where the language
             does not say which of several points a selector returns).
    alts:   exactly one row, equal to one of the alternatives (selectors return the time of the selected point).
    The keyword options are NOT part of the semantics: they are models of known defects, used only to give a mismatch a
    specific kind (fill(previous) walking buckets in output order; rows whose selected fields are all null kept when the
    filter is on another field; the field filter applied separately to the two halves of a row completed after a flush;
    first/last picked in iteration order under ORDER BY time DESC)."""
    _, tagfn, fieldfn = _pred(st["pred"], ds)
    _, _, lo, hi, labels = _range(st["rng"], ds.T)
    sel = st["sel"]
    agg = is_agg(st)
    sel_eval = sel
    pts = []
    sp = ds.split_point() if split_row else None
    for si, ti, t, f, g in ds.points():
        if sp == (si, ti):
            pts.append((si, ti, t, f, None))
            pts.append((si, ti, t, None, g))
        else:
            pts.append((si, ti, t, f, g))
    kept = []
    for si, ti, t, f, g in pts:
        s = SERIES[si]
        if tagfn and not tagfn(s):
            continue
        if lo is not None and t < lo:
            continue
        if hi is not None and t > hi:
            continue
        if fieldfn and not fieldfn(f, g):
            continue
        if kept and sp == (si, ti) and kept[-1][0] == si and kept[-1][1] == ti:
            o = kept.pop()
            f, g = (o[3] if f is None else f), (o[4] if g is None else g)
        kept.append((si, ti, t, f, g))
    grp = {}
    for si, ti, t, f, g in kept:
        s = SERIES[si]
        if agg:
            if f is None:
                continue
        elif not (keep_null_rows and fieldfn):
            if sel == "f" and f is None:
                continue
            if f is None and g is None:
                continue
        k = s[st["gbtag"]] if st["gbtag"] else ""
        grp.setdefault(k, []).append((t, f, g))
    out = []
    for k in sorted(grp):
        tags = {st["gbtag"]: k} if st["gbtag"] else {}
        rows = grp[k]
        if not agg:
            cols = ["time", "f"] if sel == "f" else ["time", "f", "g"]
            rr = [(t, (f,) if sel == "f" else (f, g)) for t, f, g in rows]
            rr.sort(key=lambda r: r[0], reverse=st["desc"])
            need_by_t = None
            if st["limit"]:
                n, off = st["limit"]
                picked = rr[off:off + n]
                need_by_t = {}
                for t, _ in picked:
                    need_by_t[t] = need_by_t.get(t, 0) + 1
            cand = {}
            for t, v in rr:
                cand.setdefault(t, []).append(v)
            groups = []
            for t in sorted(cand):
                need = len(cand[t]) if need_by_t is None else need_by_t.get(t, 0)
                if need:
                    groups.append((t, cand[t], need))
            if groups or not st["limit"]:
                if groups:
                    out.append({"tags": tags, "columns": cols, "groups": groups})
            continue
        cols = ["time", sel]
        vals = [(t, f) for t, f, g in rows]
        if not st["w"]:
            alts = _agg_value(sel_eval, vals)
            if swap_first_last and sel in ("first", "last"):
                # defect model: time and value each taken from the oldest or the newest point
                both = _agg_value("first", vals) + _agg_value("last", vals)
                alts = sorted(set((t, v) for t, _ in both for _, v in both))
            if alts[0][0] is None:
                out.append({"tags": tags, "columns": cols, "alts": [(lb, (alts[0][1],)) for lb in labels]})
            else:
                out.append({"tags": tags, "columns": cols, "alts": [(t, (v,)) for t, v in alts]})
            continue
        w = st["w"] * NS
        b0, b1 = lo // w * w, hi // w * w
        buckets = []
        b = b0
        while b <= b1:
            inb = [(t, v) for t, v in vals if b <= t < b + w]
            buckets.append((b, [(v,) for _, v in _agg_value(sel_eval, inb)] if inb else None))
            b += w
        fill = st["fill"]
        groups = []
        seq = list(reversed(buckets)) if fill_prev_iteration_order and st["desc"] else buckets
        prev = None
        for b, c in seq:
            if c is None:
                if fill == "none":
                    continue
                if fill == "0":
                    c = [(0,)]
                elif fill == "previous":
                    c = prev if prev is not None else [(None,)]
                else:
                    c = [(0,)] if sel == "count" else [(None,)]
            else:
                prev = c
            groups.append((b, c, 1))
        groups.sort(key=lambda g_: g_[0])
        out.append({"tags": tags, "columns": cols, "groups": groups})
    return out


def ambiguous(exp):
    """True when the language leaves a choice in the expected answer (ties)."""
    for s in exp:
        if "alts" in s:
            if len(s["alts"]) > 1:
                return True
        else:
            for _, cand, need in s["groups"]:
                if len(cand) > 1:
                    return True
    return False


def nonempty(exp):
    return bool(exp)


# ---- comparing an actual answer ------------------------------------------------------------------------------
ANY = ("<any>",)


def relaxed_fill_expectation(ds, st):
    """Expected answer of a GROUP BY time statement in which the value of every EMPTY bucket is a wildcard (used only to
    recognise the known fill(previous) defects: everything except the filled-in cells must still be right)."""
    full = evaluate(ds, st)
    st1 = dict(st)
    st1["fill"] = "none"
    nonempty_ = {json.dumps(e["tags"], sort_keys=True): set(t for t, _, _ in e["groups"]) for e in evaluate(ds, st1)}
    out = []
    for e in full:
        ne = nonempty_.get(json.dumps(e["tags"], sort_keys=True), set())
        out.append({"tags": e["tags"], "columns": e["columns"],
                    "groups": [(t, c if t in ne else [(ANY,)], n) for t, c, n in e["groups"]]})
    return out


def rows_not_in_unlimited_answer(ans, ds, st):
    """For limit/offset on a grouped query: the rows of the actual answer that are no rows of the reference answer of the
    same statement without LIMIT/OFFSET (a limit may select rows, it must not change them)."""
    st0 = dict(st)
    st0["limit"] = None
    unl = {json.dumps(e["tags"], sort_keys=True): e for e in evaluate(ds, st0)}
    bad = []
    for s in ans.get("series", []):
        e = unl.get(json.dumps(s["tags"], sort_keys=True))
        for r in s["values"]:
            ok = False
            if e is not None:
                if "alts" in e:
                    ok = any(r[0] == t and _teq(r[1:], v) for t, v in e["alts"])
                else:
                    ok = any(r[0] == t and any(_teq(r[1:], c) for c in cand) for t, cand, _ in e["groups"])
            if not ok:
                bad.append(r)
    return bad


def relaxed_selector_expectation(ds, st, any_row_time=False):
    """Like relaxed_desc_selector_expectation; with any_row_time the time may be the time of ANY row of the group's series
    (also rows whose f is null or that lie outside the time range)."""
    exp = relaxed_desc_selector_expectation(ds, st)
    if not any_row_time:
        return exp
    _, tagfn, _ = _pred(st["pred"], ds)
    times = {}
    for si, ti, t, f, g in ds.points():
        if tagfn and not tagfn(SERIES[si]):
            continue
        times.setdefault(SERIES[si][st["gbtag"]] if st["gbtag"] else "", set()).add(t)
    ref = {json.dumps(e["tags"], sort_keys=True): e for e in evaluate(ds, st)}
    out = []
    for e in exp:
        k = e["tags"][st["gbtag"]] if st["gbtag"] else ""
        vals = set(v for _, v in e["alts"])
        r = ref[json.dumps(e["tags"], sort_keys=True)]
        tmax = max(t for t, _ in r["alts"])
        # the right row, or a wrong row that carries the time of a NEWER row of the group
        out.append({"tags": e["tags"], "columns": e["columns"],
                    "alts": list(r["alts"]) + sorted((t, v) for t in times.get(k, ()) if t > tmax for v in vals)})
    return out


def relaxed_desc_selector_expectation(ds, st):
    """first()/last() under ORDER BY time DESC (known defect): same series as the reference, one row each, whose time is the
    time of SOME point of the group and whose value is the value of SOME point of the group (tag predicate only)."""
    _, tagfn, _ = _pred(st["pred"], ds)
    pts = {}
    for si, ti, t, f, g in ds.points():
        if f is None or (tagfn and not tagfn(SERIES[si])):
            continue
        pts.setdefault(SERIES[si][st["gbtag"]] if st["gbtag"] else "", []).append((t, f))
    out = []
    for e in evaluate(ds, st):
        k = e["tags"][st["gbtag"]] if st["gbtag"] else ""
        ps = pts.get(k, [])
        out.append({"tags": e["tags"], "columns": e["columns"],
                    "alts": sorted(set((t, (v,)) for t, _ in ps for _, v in ps))})
    return out


def null_f_row_passes_filter(ds, st, split_row=False):
    """Trigger of a known defect family: some row inside the tag/time predicates passes the field filter although f is null
    (only possible when the filter is on g). With split_row the two halves of the row completed after the flush count as rows."""
    _, tagfn, fieldfn = _pred(st["pred"], ds)
    if fieldfn is None:
        return False
    _, _, lo, hi, _ = _range(st["rng"], ds.T)
    sp = ds.split_point() if split_row else None
    for si, ti, t, f, g in ds.points():
        if tagfn and not tagfn(SERIES[si]):
            continue
        if (lo is not None and t < lo) or (hi is not None and t > hi):
            continue
        halves = [(f, None), (None, g)] if sp == (si, ti) else [(f, g)]
        for hf, hg in halves:
            if hf is None and fieldfn(hf, hg):
                return True
    return False


def veq(a, b):
    if a is ANY or b is ANY:
        return True
    if a is None or b is None:
        return a is None and b is None
    if isinstance(a, str) or isinstance(b, str):
        return a == b
    if isinstance(a, bool) or isinstance(b, bool):
        return a is b
    return abs(a - b) <= 1e-9 * max(1.0, abs(a), abs(b))


def _teq(x, y):
    return len(x) == len(y) and all(veq(a, b) for a, b in zip(x, y))


def merge_docs(body):
    """A /query body (one JSON document, or several for chunked answers) -> {statement_id: {"series": [...]} | {"error": ..}}.
    Consecutive pieces of one series (same name and tags) are concatenated."""
    dec = json.JSONDecoder()
    txt = body.decode() if isinstance(body, bytes) else body
    i, n = 0, len(txt)
    res = {}
    while i < n:
        while i < n and txt[i] in " \r\n\t":
            i += 1
        if i >= n:
            break
        doc, i = dec.raw_decode(txt, i)
        if "error" in doc and "results" not in doc:
            res.setdefault(-1, {})["error"] = doc["error"]
            continue
        for r in doc.get("results", []):
            sid = r.get("statement_id", 0)
            cur = res.setdefault(sid, {"series": []})
            if "error" in r:
                cur["error"] = r["error"]
            for s in r.get("series") or []:
                tags = s.get("tags") or {}
                if cur["series"] and cur["series"][-1]["tags"] == tags and cur["series"][-1]["name"] == s.get("name") \
                        and cur["series"][-1]["columns"] == s.get("columns"):
                    cur["series"][-1]["values"].extend(s.get("values") or [])
                else:
                    cur["series"].append({"name": s.get("name"), "tags": tags, "columns": s.get("columns"),
                                          "values": list(s.get("values") or [])})
    return res


def canon(ans, desc):
    """Canonical text of an actual answer: series sorted by tags (the language fixes no series order across ASC/DESC),
    rows in ascending orientation."""
    if ans is None:
        return "null"
    if "error" in ans:
        return json.dumps({"error": ans["error"]})
    ss = []
    for s in ans["series"]:
        vals = list(reversed(s["values"])) if desc else s["values"]
        ss.append([sorted(s["tags"].items()), s["columns"], vals])
    ss.sort(key=lambda x: json.dumps(x[0]))
    return json.dumps(ss, sort_keys=True)


def match(ans, exp, desc, mst=None):
    """None when the actual answer `ans` ({"series": [...]}) is one of the answers the reference allows, else a reason."""
    if ans is None:
        return "no result for the statement"
    if "error" in ans:
        return "error: %s" % ans["error"]
    seen = {}
    for s in ans["series"]:
        if mst is not None and s["name"] != mst:
            return "series name %r" % s["name"]
        k = tuple(sorted(s["tags"].items()))
        if k in seen:
            return "series %s returned twice (non-adjacent pieces)" % dict(k)
        seen[k] = s
    want = {tuple(sorted(e["tags"].items())): e for e in exp}
    if set(seen) != set(want):
        return "series set %s, expected %s" % (sorted(seen), sorted(want))
    for k, e in want.items():
        s = seen[k]
        if s["columns"] != e["columns"]:
            return "columns %s, expected %s" % (s["columns"], e["columns"])
        rows = list(reversed(s["values"])) if desc else s["values"]
        if "alts" in e:
            if len(rows) != 1:
                return "series %s: %d rows, expected 1" % (dict(k), len(rows))
            r = rows[0]
            if not any(r[0] == t and _teq(r[1:], v) for t, v in e["alts"]):
                return "series %s: row %s, expected one of %s" % (dict(k), r, e["alts"])
            continue
        # group actual rows by time, in order
        ag = []
        for r in rows:
            if ag and ag[-1][0] == r[0]:
                ag[-1][1].append(tuple(r[1:]))
            else:
                ag.append((r[0], [tuple(r[1:])]))
        at = [g[0] for g in ag]
        et = [g[0] for g in e["groups"]]
        if at != et:
            if sorted(at) == et:
                return "series %s: rows out of time order %s" % (dict(k), at)
            return "series %s: row times %s, expected %s" % (dict(k), _rel(at), _rel(et))
        for (t, arows), (_, cand, need) in zip(ag, e["groups"]):
            if len(arows) != need:
                return "series %s: %d rows at %d, expected %d" % (dict(k), len(arows), t, need)
            pool = list(cand)
            for r in arows:
                for j, c in enumerate(pool):
                    if _teq(r, c):
                        del pool[j]
                        break
                else:
                    return "series %s: row %s at %d, expected %s%s" % (
                        dict(k), list(r), t, "" if need == len(cand) else "%d of " % need, [list(c) for c in cand])
    return None


def _rel(ts):
    return ts


def exp_to_json(exp):
    return json.loads(json.dumps(exp))
