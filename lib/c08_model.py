"""C08 model: data sets, statement grammar, and a direct evaluator of the documented InfluxQL semantics.

Everything here is pure Python over small tuples; nothing talks to a server.

Universe
  series   s0 = {host=a,region=x}, s1 = {host=b,region=x}, s2 = {host=b,region=y}
  times    T+0s, T+10s, T+20s, T+40s   (T is a multiple of 20 s; "straddle" data sets put T 20 s before a
           shard-group boundary so that the last two timestamps live in the next shard group)
  cell     '.' absent | 'B' f and g | 'F' f only (g null) | 'G' g only (f null)
  fields   f float (multiples of 0.5 so that sums are exact in every evaluation order), g int or string

Typed family (TypedDataSet): the same three series over TEN timestamps T+0s .. T+90s and four fields of the four field types
  f float | s string | i integer | b boolean       cell = a letter naming the set of fields the row carries (CELLS)
The first series is long (9-10 rows) so that with batch size 1 or 2 more than 4 (and more than 8) batches of ONE output series
flow through every operator: every fixed-size ring of chunks / records in the executor and the cursors wraps around.
"""
import itertools, json

NS = 10 ** 9
SERIES = [{"host": "a", "region": "x"}, {"host": "b", "region": "x"}, {"host": "b", "region": "y"}]
OFFS = [0, 10, 20, 40]
T_IN = 1700000000            # inside the shard group 2023-11-13 .. 2023-11-20
T_STRADDLE = 1700438400 - 20  # 2023-11-20T00:00:00Z is a shard-group (week) boundary
FV = [[1.5, 2.5, -1.0, 4.0], [1.5, 7.0, -2.0, 0.5], [3.0, 2.5, -2.0, 8.0]]
GV = [[1, 2, 3, 4], [1, 5, -3, 2], [6, 2, -3, 0]]

# per-series pattern menus (odometer: s0 fastest)
MENU = [
    ["BB.B", "FBG.", ".B.B", "F..."],
    ["B.BB", "GF.F", ".BB.", "...."],
    ["....", ".B..", "FF.G", "G.G."],
]


TAGS = ["host", "region"]


def lp_value(v):
    """Line-protocol text of a field value, by Python type."""
    if isinstance(v, bool):
        return "true" if v else "false"
    if isinstance(v, int):
        return "%di" % v
    if isinstance(v, float):
        return "%r" % v
    return '"%s"' % v.replace("\\", "\\\\").replace('"', '\\"')


def lp_line(mst, si, t, fields):
    s = SERIES[si]
    return "%s,host=%s,region=%s %s %d" % (mst, s["host"], s["region"],
                                          ",".join("%s=%s" % (k, lp_value(v)) for k, v in fields.items()), t)


class _Base:
    """What the driver and the evaluator need from a data set:
       fields, T, idx, key(), to_json(), rows() -> [(si, ti, time_ns, {field: value})] (series-major, non-null fields only),
       split_point()/split_halves(), batches(family) -> list of write batches [(si, ti, t, {field: value})]."""

    def npoints(self):
        return len(self.rows())

    def nseries(self):
        return len(set(r[0] for r in self.rows()))

    def series_rows(self, si):
        return [r for r in self.rows() if r[0] == si]

    def split_point(self):
        """(si, ti) of the row that the late layout completes after the flush: the newest point of the first series whose
        newest point carries fields of both halves (the first half is written before the flush, the second after it);
        None if there is no such row."""
        if self.split_halves() is None:
            return None
        h1, h2 = self.split_halves()
        for si in range(3):
            sp = self.series_rows(si)
            if sp and any(k in h1 for k in sp[-1][3]) and any(k in h2 for k in sp[-1][3]):
                return (si, sp[-1][1])
        return None

    def batches(self, family):
        """a: [everything]
           b: [first, late]   late = the earliest point of every series that has >= 2 points (out of order w.r.t. the flushed
                              file of that series) + the second half of split_point() (same row completed after the flush)
           c: [first, second] points at the older timestamps (ti <= seq_cut) are flushed before the newer ones are written"""
        rows = self.rows()
        if family == "a":
            return [rows]
        if family == "b":
            first, late = [], []
            split = self.split_point()
            h1, h2 = self.split_halves() or ((), ())
            for si in range(3):
                sp = self.series_rows(si)
                for j, (s, ti, t, v) in enumerate(sp):
                    if (s, ti) == split:
                        first.append((s, ti, t, {k: x for k, x in v.items() if k in h1}))
                        late.append((s, ti, t, {k: x for k, x in v.items() if k in h2}))
                    elif len(sp) >= 2 and j == 0:
                        late.append((s, ti, t, v))
                    else:
                        first.append((s, ti, t, v))
            return [first, late]
        if family == "c":
            return [[r for r in rows if r[1] <= self.seq_cut], [r for r in rows if r[1] > self.seq_cut]]
        raise KeyError(family)

    def lines(self, mst, batch):
        return [lp_line(mst, si, t, v) for si, ti, t, v in batch]

    def counts(self, *batches_):
        """{field: number of non-null values} over the given batches - what the visibility barrier waits for."""
        c = {k: 0 for k in self.fields}
        for b in batches_:
            for _, _, _, v in b:
                for k in v:
                    c[k] += 1
        return c

    def has_seq(self):
        a, b = self.batches("c")
        return bool(a) and bool(b)

    def has_late(self):
        return bool(self.batches("b")[1])

    # old names, still used by tools
    def lines_all(self, mst):
        return self.lines(mst, self.batches("a")[0])

    def lines_late(self, mst):
        a, b = self.batches("b")
        return self.lines(mst, a), self.lines(mst, b)

    def lines_seq(self, mst):
        a, b = self.batches("c")
        return self.lines(mst, a), self.lines(mst, b)


class DataSet(_Base):
    family = "fg"
    fields = ["f", "g"]
    seq_cut = 1

    def __init__(self, idx, cells, gtype="int", base="in"):
        self.idx, self.cells, self.gtype, self.base = idx, tuple(cells), gtype, base
        self.T = T_IN if base == "in" else T_STRADDLE

    def key(self):
        return "%s/%s/%s" % ("|".join(self.cells), self.gtype, self.base)

    def to_json(self):
        return {"cells": list(self.cells), "gtype": self.gtype, "base": self.base, "idx": self.idx}

    @staticmethod
    def from_json(o):
        if o.get("family") == "typed":
            return TypedDataSet(o.get("idx", 100), o["cells"], o.get("base", "in"))
        return DataSet(o.get("idx", 0), o["cells"], o.get("gtype", "int"), o.get("base", "in"))

    def split_halves(self):
        return ({"f"}, {"g"})

    def gval(self, si, ti):
        v = GV[si][ti]
        return v if self.gtype == "int" else "v%d" % v

    def points(self):
        """[(si, ti, time_ns, f|None, g|None)] in series-major order."""
        out = []
        for si, pat in enumerate(self.cells):
            for ti, c in enumerate(pat):
                if c == ".":
                    continue
                t = (self.T + OFFS[ti]) * NS
                f = FV[si][ti] if c in "BF" else None
                g = self.gval(si, ti) if c in "BG" else None
                out.append((si, ti, t, f, g))
        return out

    def rows(self):
        out = []
        for si, ti, t, f, g in self.points():
            v = {}
            if f is not None:
                v["f"] = f
            if g is not None:
                v["g"] = g
            out.append((si, ti, t, v))
        return out

    def nvalues(self):
        """(number of non-null f, number of non-null g)"""
        c = self.counts(self.rows())
        return c["f"], c["g"]

    def features(self):
        fs = set()
        pts = self.points()
        cells = "".join(self.cells)
        for c in "BFG":
            if c in cells:
                fs.add("cell" + c)
        times = [p[1] for p in pts]
        if len(times) != len(set(times)):
            fs.add("equal_ts_across_series")
        ftimes = sorted(set(p[1] for p in pts if p[3] is not None))
        if any(b - a > 1 for a, b in zip(ftimes, ftimes[1:])) or (ftimes and 3 in ftimes and 2 not in ftimes):
            fs.add("gap")
        for pat in self.cells:
            core = pat.replace(".", "")
            if core and set(core) == {"F"}:
                fs.add("series_only_f")
            if core and set(core) == {"G"}:
                fs.add("series_only_g")
            if len(core) >= 3:
                fs.add("series_3pts")
            if "F" in core and "G" in core:
                fs.add("series_alternating_nulls")
        fs.add("nseries%d" % self.nseries())
        fs.add("g_" + self.gtype)
        fs.add("base_" + self.base)
        if self.has_late():
            fs.add("late")
        if self.has_seq():
            fs.add("seq")
        if sum(1 for p in pts if p[3] is not None) >= 5:
            fs.add("f_values_5")
        return fs


# ---- typed family ------------------------------------------------------------------------------------------------
TOFFS = [0, 10, 20, 30, 40, 50, 60, 70, 80, 90]
CELLS = {"A": "fsib", "S": "s", "I": "i", "F": "f", "N": "sb", "M": "fi", "P": "fsi", "Q": "sib", "R": "fb"}
BIG = 4503599627370497          # 2^52 + 1: written exactly; three of them sum to an odd number > 2^53 (no float64 holds it)
TFV = [[-1.0, 2.5, 0.5, 4.0, 1.5, -2.0, 3.0, 2.5, 0.5, 7.0],
       [1.5, 7.0, -2.0, 0.5, 2.5, 1.0, -1.0, 3.0, 0.5, 2.0],
       [3.0, 2.5, -2.0, 8.0, 0.5, 1.5, 2.0, -1.0, 4.0, 1.0]]
TIV = [[-2, 5, 0, 2, BIG, 3, BIG, 2, -7, BIG],
       [4, BIG, 2, -1, 5, BIG, 0, 3, 2, BIG],
       [BIG, 2, BIG, -3, 1, BIG, 6, 0, 2, -5]]
TSV = [["v0", 'he said "hi", ü', "", "naïve 世界", "v0", "x=y z\\w", "a,b", "v0", "it's a longer string value 0123456789", "z"],
       ["b0", "v0", "äö", "b3", 'q"', "v0", "b6", ",", "b8", "v0"],
       ["c0", "c1", "v0", "c3", "c,4", "世", "v0", "c7", "", 'c"9']]
TBV = [[True, False, False, True, True, False, True, False, False, True],
       [False, True, True, False, False, True, False, True, True, False],
       [True, True, False, False, True, False, False, True, False, True]]
TVALS = {"f": TFV, "i": TIV, "s": TSV, "b": TBV}

# per-series pattern menus of the typed family (odometer: s0 fastest).  The first series is the long one.
TMENU = [
    ["APNNMSAAQA", "SAAM.ANAAI"],
    [".A...S....", "..N.M....A", ".........."],
    ["..M..I...Q", "....A....."],
]


class TypedDataSet(_Base):
    family = "typed"
    fields = ["b", "f", "i", "s"]
    seq_cut = 4

    def __init__(self, idx, cells, base="in"):
        self.idx, self.cells, self.base = idx, tuple(cells), base
        self.gtype = "typed"
        self.T = T_IN if base == "in" else T_STRADDLE

    def key(self):
        return "%s/typed/%s" % ("|".join(self.cells), self.base)

    def to_json(self):
        return {"family": "typed", "cells": list(self.cells), "base": self.base, "idx": self.idx}

    def split_halves(self):
        """No row of the typed family is completed after the flush: that layout feature belongs to known defect 5 (the field
        filter is applied to the halves), which would only mask the typed field filters in the late layouts."""
        return None

    def rows(self):
        out = []
        for si, pat in enumerate(self.cells):
            for ti, c in enumerate(pat):
                if c == ".":
                    continue
                out.append((si, ti, (self.T + TOFFS[ti]) * NS, {k: TVALS[k][si][ti] for k in CELLS[c]}))
        return out


def typed_datasets():
    """Odometer over TMENU restricted to >= 2 non-empty series; index 100.. (measurement names must not collide with the f/g
    family); every second one straddles a shard-group boundary (two timestamps in the older shard group, eight in the newer)."""
    out = []
    n = 0
    for c2 in TMENU[2]:
        for c1 in TMENU[1]:
            for c0 in TMENU[0]:
                ds = TypedDataSet(100 + n, (c0, c1, c2), "straddle" if n % 2 == 1 else "in")
                if ds.nseries() < 2:
                    continue
                out.append(ds)
                n += 1
    return out


def all_datasets():
    """Odometer over the three pattern menus, restricted to 3..6 points and >= 2 non-empty series."""
    out = []
    n = 0
    for c2 in MENU[2]:
        for c1 in MENU[1]:
            for c0 in MENU[0]:
                ds = DataSet(0, (c0, c1, c2))
                if not (3 <= ds.npoints() <= 6) or ds.nseries() < 2:
                    continue
                gtype = "str" if n % 4 == 3 else "int"
                base = "straddle" if n % 3 == 2 else "in"
                out.append(DataSet(n, (c0, c1, c2), gtype, base))
                n += 1
    return out


def datasets(tier):
    """thorough: all data sets of the odometer, ordered by greedy feature cover (most new features first, lowest index on
    ties) so that a deadline cut loses the least diverse ones; quick: the first three of that order."""
    al = all_datasets()
    chosen, covered = [], set()
    while len(chosen) < len(al):
        best, gain = None, -1
        for ds in al:
            if ds in chosen:
                continue
            g = len(ds.features() - covered) * 10 + ds.npoints()
            if g > gain:
                best, gain = ds, g
        chosen.append(best)
        covered |= best.features()
        if len(covered) == len(set().union(*[d.features() for d in al])) and len(chosen) % 3 == 0:
            covered = set()   # start a new cover round
    return chosen if tier == "thorough" else chosen[:3]


# ---- statements --------------------------------------------------------------------------------------------
AGGS = ["count", "sum", "mean", "min", "max", "first", "last"]


FIELD_PREDS = ("F1", "F2", "TF", "S1", "S2", "S3", "I1", "I2", "B1", "B2", "TS")
S3_TEXT = 'he said "hi", ü'


def _pred(name, ds):
    """-> (text, tag_fn(series dict) | None, field_fn({field: value}) | None).  A comparison with a null field is false."""
    def fv(fn, *names):
        def g(v):
            xs = [v.get(n) for n in names]
            return all(x is not None for x in xs) and fn(*xs)
        return g
    if name is None:
        return None, None, None
    if name == "T1":
        return "host = 'a'", (lambda s: s["host"] == "a"), None
    if name == "T2":
        return "host != 'a'", (lambda s: s["host"] != "a"), None
    if name == "T3":
        return "region = 'x' AND host = 'b'", (lambda s: s["region"] == "x" and s["host"] == "b"), None
    if name == "T4":
        return "host = 'a' OR region = 'y'", (lambda s: s["host"] == "a" or s["region"] == "y"), None
    if name == "F1":
        return "f > 1.5", None, fv(lambda f: f > 1.5, "f")
    if name == "F2":
        if ds.gtype != "str":
            return "g <= 2", None, fv(lambda g: g <= 2, "g")
        return "g = 'v2'", None, fv(lambda g: g == "v2", "g")
    if name == "TF":
        return "host = 'b' AND f > 0", (lambda s: s["host"] == "b"), fv(lambda f: f > 0, "f")
    # typed family
    if name == "S1":
        return "s = 'v0'", None, fv(lambda s: s == "v0", "s")
    if name == "S2":
        return "s != 'v0'", None, fv(lambda s: s != "v0", "s")
    if name == "S3":
        return "s = '%s'" % S3_TEXT, None, fv(lambda s: s == S3_TEXT, "s")
    if name == "I1":
        return "i > 1", None, fv(lambda i: i > 1, "i")
    if name == "I2":
        return "i <= 2", None, fv(lambda i: i <= 2, "i")
    if name == "B1":
        return "b = true", None, fv(lambda b: b is True, "b")
    if name == "B2":
        return "b != true", None, fv(lambda b: b is not True, "b")
    if name == "TS":
        return "host = 'a' AND s != 'v0'", (lambda s: s["host"] == "a"), fv(lambda s: s != "v0", "s")
    raise KeyError(name)


def is_field_pred(st):
    return st["pred"] in FIELD_PREDS


def _range(name, T):
    """-> (text(abs), text(relative), lo_ns|None, hi_ns|None (both inclusive), label alternatives for the lower bound)"""
    if name is None:
        return None, None, None, None, [0]
    if name == "Ra":
        return ("time >= %ds AND time < %ds" % (T + 5, T + 45), "time >= T+5s AND time < T+45s",
                (T + 5) * NS, (T + 45) * NS - 1, [(T + 5) * NS])
    if name == "Rb":
        return ("time >= %ds AND time <= %ds" % (T + 10, T + 20), "time >= T+10s AND time <= T+20s",
                (T + 10) * NS, (T + 20) * NS, [(T + 10) * NS])
    if name == "Rc":
        return ("time > %ds AND time <= %ds" % (T, T + 40), "time > T AND time <= T+40s",
                T * NS + 1, (T + 40) * NS, [T * NS + 1, T * NS])
    if name == "Rf":
        return ("time >= %ds AND time <= %ds" % (T, T + 40), "time >= T AND time <= T+40s",
                T * NS, (T + 40) * NS, [T * NS])
    if name == "Rd":
        return ("time >= %ds" % (T + 10), "time >= T+10s", (T + 10) * NS, None, [(T + 10) * NS])
    if name == "Re":
        return ("time < %ds" % (T + 20), "time < T+20s", None, (T + 20) * NS - 1, [0])
    # typed family (ten timestamps T .. T+90s)
    if name == "Ua":
        return ("time >= %ds AND time < %ds" % (T + 5, T + 95), "time >= T+5s AND time < T+95s",
                (T + 5) * NS, (T + 95) * NS - 1, [(T + 5) * NS])
    if name == "Ub":
        return ("time >= %ds AND time <= %ds" % (T + 20, T + 70), "time >= T+20s AND time <= T+70s",
                (T + 20) * NS, (T + 70) * NS, [(T + 20) * NS])
    if name == "Uc":
        return ("time >= %ds AND time < %ds" % (T, T + 100), "time >= T AND time < T+100s",
                T * NS, (T + 100) * NS - 1, [T * NS])
    if name == "Ud":
        return ("time >= %ds" % (T + 30), "time >= T+30s", (T + 30) * NS, None, [(T + 30) * NS])
    raise KeyError(name)


def stmt(sel, pred=None, rng=None, gbtag=None, w=None, fill=None, desc=False, limit=None):
    return {"sel": sel, "pred": pred, "rng": rng, "gbtag": gbtag, "w": w, "fill": fill, "desc": desc,
            "limit": list(limit) if limit else None}


def render(st, ds, mst="m", relative=False):
    sel = st["sel"]
    s = "SELECT %s FROM %s" % ("%s(f)" % sel if sel in AGGS else sel, mst)
    conds = []
    rt = _range(st["rng"], ds.T)
    if rt[0]:
        conds.append(rt[1] if relative else rt[0])
    pt = _pred(st["pred"], ds)[0]
    if pt:
        conds.append("(%s)" % pt if (" OR " in pt and conds) else pt)
    if conds:
        s += " WHERE " + " AND ".join(conds)
    gb = []
    if st["w"]:
        gb.append("time(%ds)" % st["w"])
    if st["gbtag"]:
        gb.append(st["gbtag"])
    if gb:
        s += " GROUP BY " + ", ".join(gb)
    if st["fill"]:
        s += " fill(%s)" % st["fill"]
    if st["desc"]:
        s += " ORDER BY time DESC"
    if st["limit"]:
        s += " LIMIT %d" % st["limit"][0]
        if st["limit"][1]:
            s += " OFFSET %d" % st["limit"][1]
    return s


def shape(st, ds):
    """Query text with measurement `m` and T-relative times: the key of violations / known-finding regexes."""
    return render(st, ds, "m", relative=True)


def is_agg(st):
    return st["sel"] in AGGS or "(" in st["sel"]


def parse_sel(st):
    """Select list -> items ('col', name) | ('agg', function, field) | ('star',).  The f/g family writes 'count' for count(f)."""
    sel = st["sel"]
    if sel in AGGS:
        return [("agg", sel, "f")]
    items = []
    for p in sel.split(","):
        p = p.strip()
        if p == "*":
            items.append(("star",))
        elif p.endswith(")"):
            fn, fld = p[:-1].split("(")
            items.append(("agg", fn, fld))
        else:
            items.append(("col", p))
    return items


def agg_items(st):
    return [it for it in parse_sel(st) if it[0] == "agg"]


def single_selector(st):
    """'first' / 'last' / 'min' / 'max' when the statement is exactly one call of that selector, else None."""
    its = parse_sel(st)
    if len(its) == 1 and its[0][0] == "agg" and its[0][1] in ("first", "last", "min", "max"):
        return its[0][1]
    return None


def klass(st):
    """'ref'  - answer asserted against the reference evaluator;
       'meta' - limit/offset on a grouped query: compared only across configurations (statement is silent)."""
    if st["limit"] and (st["gbtag"] or st["w"] or is_agg(st)):
        return "meta"
    return "ref"


def statements(tier):
    th = tier == "thorough"
    out = []
    preds_raw = [None, "T1", "T2", "T3", "T4", "F1", "F2", "TF"] if th else [None, "T2", "T4", "F1", "F2"]
    rng_raw = [None, "Ra", "Rb"] if th else [None, "Rb"]
    lim_raw = [None, (2, 0), (2, 1), (1, 3)] if th else [None, (2, 1)]
    # plain selections
    for sel in ("f", "f,g"):
        for p in preds_raw:
            for r in rng_raw:
                for gb in (None, "host"):
                    lims = lim_raw if gb is None else ([None, (1, 1)] if th or (p is None and r is None) else [None])
                    for lim in lims:
                        for desc in (False, True):
                            out.append(stmt(sel, p, r, gb, None, None, desc, lim))
    # aggregates overall / per tag group
    preds_agg = [None, "T1", "T3", "T4", "F1", "F2"] if th else [None, "T4", "F1"]
    rng_agg = [None, "Ra", "Rc", "Rd", "Re"] if th else [None, "Rd"]
    for a in AGGS:
        for p in preds_agg:
            for r in rng_agg:
                if not th and p is not None and r is not None:
                    continue
                if th and r in ("Rc", "Re") and p not in (None, "F1"):
                    continue
                for gb in (None, "host", "region"):
                    if gb == "region" and not th and p is not None:
                        continue
                    for desc in (False, True):
                        if desc and gb == "region" and r is not None:
                            continue
                        out.append(stmt(a, p, r, gb, None, None, desc, None))
    # aggregates per epoch-aligned time bucket (always explicit time bounds)
    preds_t = [None, "T2", "F1"] if th else [None, "F1"]
    rng_t = ["Ra", "Rb", "Rc"] if th else ["Ra"]
    wf = [(10, None), (10, "none"), (10, "0"), (10, "previous"), (20, None), (20, "previous")] if th else \
         [(10, None), (10, "previous"), (20, "0"), (10, "none")]
    for a in AGGS:
        for p in preds_t:
            for r in rng_t:
                if th and r == "Rc" and p is not None:
                    continue
                for w, fill in wf:
                    if p is not None and (fill not in (None, "previous") or (th and (w, fill) == (20, None))):
                        continue
                    for gb in (None, "host"):
                        for desc in (False, True):
                            out.append(stmt(a, p, r, gb, w, fill, desc, None))
    # limit/offset on grouped queries: configuration invariance only
    for a in (AGGS if th else ["count", "last"]):
        for gb in (None, "host"):
            for desc in (False, True):
                out.append(stmt(a, None, "Ra", gb, 10, None, desc, (2, 1)))
                out.append(stmt(a, None, "Rf", gb, 10, "none", desc, (2, 1)))
    return out


TYPED_CALLS = {"s": ["count", "first", "last"], "b": ["count", "first", "last"],
               "i": ["count", "sum", "mean", "min", "max", "first", "last"]}
MULTI_CALLS = ["count(s),sum(i),mean(f)", "mean(i),count(b)"]


def typed_statements(tier):
    """Statements of the typed family (fields f float, s string, i integer, b boolean; tags host, region).
    Only what the language defines: count/first/last on strings and booleans, all seven calls on integers, several calls in
    one statement only without selectors and with the default fill, fill(0) only on integer results (count, integer
    sum/min/max/first/last), no fill(<number>) on strings/booleans, tags only next to a field (and once alone: empty answer).
    Not enumerated (known defect 3 of the f/g family, same code): first()/last() without GROUP BY time under ORDER BY time DESC."""
    th = tier == "thorough"
    out = []

    def add(sel, p=None, r=None, gb=None, w=None, fill=None, desc=False, lim=None):
        out.append(stmt(sel, p, r, gb, w, fill, desc, lim))

    # ---- plain selections
    core = ["s", "f,s", "s,i,b", "*", "f,host", "b"]
    extra = ["i", "s,host,region", "f,s,i,b", "i,b"] if th else []
    preds = [None, "S1", "S2", "I1", "B1", "T1", "S3"] + (["I2", "B2", "TS"] if th else [])
    for sel in core:
        for k, p in enumerate(preds):
            if not th and ((p == "T1" and sel not in ("s", "*")) or (p == "S3" and sel != "s")):
                continue
            if p is None:
                variants = [(None, False), (None, True), ((3, 2), False), ((4, 0), True)] + \
                           ([((2, 7), False), ((3, 2), True)] if th else [])
            elif k % 2 == 1:
                variants = [(None, False), ((3, 2), True)]
            else:
                variants = [(None, True), ((3, 2), False)]
            for lim, desc in variants:
                add(sel, p, None, None, None, None, desc, lim)
            if p in (None, "S2") or (th and p == "I1"):
                add(sel, p, "Ub", None, None, None, False, None)
                add(sel, p, "Ub", None, None, None, True, (3, 2))
            if p in (None, "I1") or (th and p == "S2"):
                for desc in (False, True):
                    add(sel, p, None, "host", None, None, desc, None)
            if th and p is None:
                add(sel, p, None, "region", None, None, False, None)
    for sel in extra:
        own = {"i": "I1", "s": "S2", "f": "S1"}[sel[0]]
        for p in (None, own):
            add(sel, p, None, None, None, None, False, None)
            add(sel, p, None, None, None, None, True, (3, 2))
            add(sel, p, None, "host", None, None, p is not None, None)
    add("host")                                   # tags only: empty answer
    # ---- calls overall / per tag group
    calls = ["%s(%s)" % (fn, fld) for fld in ("s", "b", "i") for fn in TYPED_CALLS[fld]] + MULTI_CALLS
    for c in calls:
        sel_fl = c.startswith("first(") or c.startswith("last(")
        own = {"s": "S2", "b": "B1", "i": "I1"}.get(c[-2], "S1")
        other = {"s": "I1", "b": "S2", "i": "B1"}.get(c[-2], "I1")
        combos = [(None, None), (own, None), (other, None), (None, "Ud")] + ([("T1", None), (None, "Ub")] if th else [])
        for p, r in combos:
            add(c, p, r)
            if th or (p, r) in ((None, None), (other, None)):
                add(c, p, r, "host")
            if (p, r) == (None, None):
                if th:
                    add(c, p, r, "region")
                if not sel_fl:
                    add(c, p, r, None, None, None, True)
                    add(c, p, r, "host", None, None, True)
            if th and (p, r) == ("T1", None) and not sel_fl:
                add(c, p, r, None, None, None, True)
    # ---- calls per epoch-aligned time bucket (always explicit time bounds)
    for c in calls:
        multi = "," in c
        int_result = c.startswith("count(") or (c[-2] == "i" and not c.startswith("mean("))
        wf = [(10, None), (20, "none"), (10, "previous"), (30, "0")] + \
             ([(30, None), (20, "previous"), (10, "none"), (10, "0")] if th else [])
        seen_wf = set()
        for k, (w, fill) in enumerate(wf):
            if fill == "0" and not int_result:
                fill = None                      # the same buckets with the default fill instead
            if multi and fill is not None:
                continue
            if (w, fill) in seen_wf:
                continue
            seen_wf.add((w, fill))
            for gb in (None, "host"):
                add(c, None, "Ua", gb, w, fill)
                if ((w, gb) in ((10, None), (20, "host")) or (th and (w, gb) == (30, None))) and not (fill == "previous" and gb):
                    add(c, None, "Ua", gb, w, fill, True)   # not fill(previous) + tag groups + DESC: three known defects meet there
            if th and k < 2:
                add(c, None, "Ub", None, w, fill)
                add(c, None, "Ub", "host", w, fill, True)
                add(c, None, "Uc", "host", w, fill)
            if th and k in (0, 2) and not multi:
                add(c, "T1", "Ua", None, w, fill)
                add(c, "I1" if c[-2] != "i" else "S2", "Ua", "host", w, fill)
        if not multi:
            add(c, "I1" if c[-2] != "i" else "S2", "Ua", None, 10)
    seen, uniq = set(), []
    for s in out:
        k = json.dumps(s, sort_keys=True)
        if k not in seen:
            seen.add(k)
            uniq.append(s)
    return uniq


def statements_for(tier, ds):
    return typed_statements(tier) if ds.family == "typed" else statements(tier)


def groups(tier):
    """Data sets in the groups in which they are loaded and run (one group = one pass through all layout phases).
    quick: one group = the three f/g data sets + the first two typed data sets.
    thorough: that group first, then the other ten typed data sets in two groups, then the other f/g data sets in threes
    (a deadline cuts groups from the end)."""
    fg = datasets(tier)
    ty = typed_datasets()
    if tier != "thorough":
        return [fg + ty[:2]]
    out = [fg[:3] + ty[:2], ty[2:7], ty[7:]]
    for gi in range(3, len(fg), 3):
        out.append(fg[gi:gi + 3])
    return out


# ---- reference evaluator -----------------------------------------------------------------------------------
def _agg_value(a, vals):
    """vals = [(t, f)] non-empty. -> list of alternative (time, value); time None = no own time (non-selector)."""
    fs = [v for _, v in vals]
    if a == "count":
        return [(None, len(fs))]
    if a == "sum":
        return [(None, sum(fs))]
    if a == "mean":
        return [(None, sum(fs) / len(fs))]
    if a in ("min", "max"):
        m = min(fs) if a == "min" else max(fs)
        return sorted(set((t, m) for t, v in vals if v == m))
    tt = min(t for t, _ in vals) if a == "first" else max(t for t, _ in vals)
    return sorted(set((tt, v) for t, v in vals if t == tt))


class _Either(tuple):
    """A cell for which the language allows several values (veq accepts any of them)."""


COUNT_NONE = _Either((0, None))   # count() over no value at all in a multi-call statement without time buckets


def evaluate(ds, st, fill_prev_iteration_order=False, keep_null_rows=False, split_row=False, swap_first_last=False,
             bucket_selector_any=False, count_cell_null=False, lossy=False):
    """Expected answer of the statement over the logical contents, ascending orientation.
    -> list of series dicts {tags: {..}, columns: [..], groups: [(time, [value tuples], need)]} or {.., alts: [(time, tuple)]}.
    groups: the actual rows at `time` must be exactly `need` rows forming a sub-multiset of the candidates
            (need < len(candidates) only where limit/offset cuts through rows of equal timestamp, or where the language
             does not say which of several points a selector returns).
    alts:   exactly one row, equal to one of the alternatives (selectors return the time of the selected point).
    The keyword options are NOT part of the semantics: they are models of known defects, used only to give a mismatch a
    specific kind (fill(previous) walking buckets in output order; rows whose selected fields are all null kept when the
    filter is on another field; the field filter applied separately to the two halves of a row completed after a flush;
    first/last picked in iteration order under ORDER BY time DESC; bucket_selector_any: first()/last() of a time bucket may be
    the value of any point of the bucket; count_cell_null: in a statement with several calls a count() cell without values is
    null or 0; lossy: the value of a non-empty bucket may be replaced by the value an empty bucket would show)."""
    _, tagfn, fieldfn = _pred(st["pred"], ds)
    _, _, lo, hi, labels = _range(st["rng"], ds.T)
    items = parse_sel(st)
    agg = is_agg(st)
    gb = st["gbtag"]
    pts = []
    sp = ds.split_point() if split_row else None
    for si, ti, t, v in ds.rows():
        if sp == (si, ti):
            for half in ds.split_halves():
                pts.append((si, ti, t, {k: x for k, x in v.items() if k in half}))
        else:
            pts.append((si, ti, t, v))
    kept = []
    for si, ti, t, v in pts:
        s = SERIES[si]
        if tagfn and not tagfn(s):
            continue
        if lo is not None and t < lo:
            continue
        if hi is not None and t > hi:
            continue
        if fieldfn and not fieldfn(v):
            continue
        if kept and sp == (si, ti) and kept[-1][0] == si and kept[-1][1] == ti:
            o = kept.pop()
            v = dict(o[3], **v)
        kept.append((si, ti, t, v))
    out = []
    if not agg:
        if any(it[0] == "star" for it in items):
            cols = sorted(list(ds.fields) + [tg for tg in TAGS if tg != gb])
        else:
            cols = [it[1] for it in items]
        selfields = [c for c in cols if c in ds.fields]
        if not selfields:
            return []            # only tags selected: the documented answer is empty
        grp = {}
        for si, ti, t, v in kept:
            if not (keep_null_rows and fieldfn) and all(v.get(c) is None for c in selfields):
                continue
            k = SERIES[si][gb] if gb else ""
            grp.setdefault(k, []).append((t, tuple(v.get(c) if c in ds.fields else SERIES[si][c] for c in cols)))
        for k in sorted(grp):
            tags = {gb: k} if gb else {}
            rr = list(grp[k])
            rr.sort(key=lambda r: r[0], reverse=st["desc"])
            need_by_t = None
            if st["limit"]:
                n, off = st["limit"]
                picked = rr[off:off + n]
                need_by_t = {}
                for t, _ in picked:
                    need_by_t[t] = need_by_t.get(t, 0) + 1
            cand = {}
            for t, v in rr:
                cand.setdefault(t, []).append(v)
            groups = []
            for t in sorted(cand):
                need = len(cand[t]) if need_by_t is None else need_by_t.get(t, 0)
                if need:
                    groups.append((t, cand[t], need))
            if groups:
                out.append({"tags": tags, "columns": ["time"] + cols, "groups": groups})
        return out
    # ---- calls
    calls = [(it[1], it[2]) for it in items]
    cols = ["time"] + [fn for fn, _ in calls]
    single = len(calls) == 1
    grp = {}
    for si, ti, t, v in kept:
        k = SERIES[si][gb] if gb else ""
        for j, (fn, fld) in enumerate(calls):
            if v.get(fld) is not None:
                grp.setdefault(k, [[] for _ in calls])[j].append((t, v[fld]))
    for k in sorted(grp):
        tags = {gb: k} if gb else {}
        per = grp[k]
        if not st["w"]:
            if single:
                fn = calls[0][0]
                alts = _agg_value(fn, per[0])
                if swap_first_last and fn in ("first", "last"):
                    # defect model: time and value each taken from the oldest or the newest point
                    both = _agg_value("first", per[0]) + _agg_value("last", per[0])
                    alts = sorted(set((t, v) for t, _ in both for _, v in both))
                if alts[0][0] is None:
                    out.append({"tags": tags, "columns": cols, "alts": [(lb, (alts[0][1],)) for lb in labels]})
                else:
                    out.append({"tags": tags, "columns": cols, "alts": [(t, (v,)) for t, v in alts]})
                continue
            # several calls: one row at the lower bound of the range; each cell may be any value its call allows
            cells = []
            for (fn, _), vals in zip(calls, per):
                if vals:
                    cells.append(sorted(set(v for _, v in _agg_value(fn, vals)), key=repr))
                else:
                    cells.append([COUNT_NONE if fn == "count" else None])
            rows = list(itertools.product(*cells))
            out.append({"tags": tags, "columns": cols, "alts": [(lb, r) for lb in labels for r in rows]})
            continue
        w = st["w"] * NS
        b0, b1 = lo // w * w, hi // w * w
        buckets = []
        b = b0
        while b <= b1:
            cells = []
            for (fn, _), vals in zip(calls, per):
                inb = [(t, v) for t, v in vals if b <= t < b + w]
                if inb and bucket_selector_any and fn in ("first", "last"):
                    cells.append(sorted(set(v for _, v in inb), key=repr))
                else:
                    cells.append([v for _, v in _agg_value(fn, inb)] if inb else None)
            buckets.append((b, cells))
            b += w
        fill = st["fill"]
        groups = []
        seq = list(reversed(buckets)) if fill_prev_iteration_order and st["desc"] else buckets
        prev = [None] * len(calls)
        for b, cells in seq:
            if all(c is None for c in cells) and fill == "none":
                continue
            row = []
            for j, c in enumerate(cells):
                empty = [0] if (fill == "0" or calls[j][0] == "count") else [None]
                if count_cell_null and not single and calls[j][0] == "count":
                    empty = [COUNT_NONE]
                if c is None:
                    if fill == "0":
                        c = [0]
                    elif fill == "previous":
                        c = prev[j] if prev[j] is not None else [None]
                    else:
                        c = empty
                else:
                    prev[j] = c
                    if lossy:
                        c = list(c) + empty
                row.append(c)
            groups.append((b, list(itertools.product(*row)), 1))
        groups.sort(key=lambda g_: g_[0])
        out.append({"tags": tags, "columns": cols, "groups": groups})
    return out


def ambiguous(exp):
    """True when the language leaves a choice in the expected answer (ties)."""
    for s in exp:
        if "alts" in s:
            if len(s["alts"]) > 1:
                return True
        else:
            for _, cand, need in s["groups"]:
                if len(cand) > 1:
                    return True
    return False


def nonempty(exp):
    return bool(exp)


# ---- comparing an actual answer ------------------------------------------------------------------------------
ANY = ("<any>",)


def relaxed_fill_expectation(ds, st, or_null=False, **opts):
    """Expected answer of a GROUP BY time statement in which the value of every EMPTY bucket is a wildcard (used only to
    recognise the known fill(previous) defects: everything except the filled-in cells must still be right).
    or_null: an empty bucket holds the right fill value or null (the previous value was forgotten), nothing else."""
    full = evaluate(ds, st, **opts)
    st1 = dict(st)
    st1["fill"] = "none"
    nonempty_ = {json.dumps(e["tags"], sort_keys=True): set(t for t, _, _ in e["groups"]) for e in evaluate(ds, st1)}
    out = []
    for e in full:
        ne = nonempty_.get(json.dumps(e["tags"], sort_keys=True), set())
        out.append({"tags": e["tags"], "columns": e["columns"],
                    "groups": [(t, c if t in ne else ([(ANY,)] if not or_null else list(c) + [(None,)]), n)
                               for t, c, n in e["groups"]]})
    return out


def field_null_between_values(ds, st):
    """Trigger of a known defect: some series inside the tag predicate has, for a field the statement aggregates, a row where
    the field is null between (in time) two rows where it has a value."""
    _, tagfn, _ = _pred(st["pred"], ds)
    for fld in set(it[2] for it in agg_items(st)):
        for si in range(3):
            if tagfn and not tagfn(SERIES[si]):
                continue
            has = [v.get(fld) is not None for _, _, _, v in ds.series_rows(si)]
            if True in has:
                a, b = has.index(True), len(has) - 1 - has[::-1].index(True)
                if False in has[a:b + 1]:
                    return True
    return False


def call_field_type(ds, st):
    """'string' | 'boolean' | 'integer' | 'float' of the field of a single-call statement."""
    fld = _call_field(st)
    for _, _, _, v in ds.rows():
        if v.get(fld) is not None:
            x = v[fld]
            return "boolean" if isinstance(x, bool) else "string" if isinstance(x, str) else \
                "integer" if isinstance(x, int) else "float"
    return None


def rows_not_in_unlimited_answer(ans, ds, st):
    """For limit/offset on a grouped query: the rows of the actual answer that are no rows of the reference answer of the
    same statement without LIMIT/OFFSET (a limit may select rows, it must not change them)."""
    st0 = dict(st)
    st0["limit"] = None
    unl = {json.dumps(e["tags"], sort_keys=True): e for e in evaluate(ds, st0)}
    bad = []
    for s in ans.get("series", []):
        e = unl.get(json.dumps(s["tags"], sort_keys=True))
        for r in s["values"]:
            ok = False
            if e is not None:
                if "alts" in e:
                    ok = any(r[0] == t and _teq(r[1:], v) for t, v in e["alts"])
                else:
                    ok = any(r[0] == t and any(_teq(r[1:], c) for c in cand) for t, cand, _ in e["groups"])
            if not ok:
                bad.append(r)
    return bad


def _call_field(st):
    """Field of the (single) call of the statement."""
    return agg_items(st)[0][2]


def relaxed_selector_expectation(ds, st, any_row_time=False):
    """Like relaxed_desc_selector_expectation; with any_row_time the time may be the time of ANY row of the group's series
    (also rows whose field is null or that lie outside the time range)."""
    exp = relaxed_desc_selector_expectation(ds, st)
    if not any_row_time:
        return exp
    _, tagfn, _ = _pred(st["pred"], ds)
    times = {}
    for si, ti, t, v in ds.rows():
        if tagfn and not tagfn(SERIES[si]):
            continue
        times.setdefault(SERIES[si][st["gbtag"]] if st["gbtag"] else "", set()).add(t)
    ref = {json.dumps(e["tags"], sort_keys=True): e for e in evaluate(ds, st)}
    out = []
    for e in exp:
        k = e["tags"][st["gbtag"]] if st["gbtag"] else ""
        vals = set(v for _, v in e["alts"])
        r = ref[json.dumps(e["tags"], sort_keys=True)]
        tmax = max(t for t, _ in r["alts"])
        # the right row, or a wrong row that carries the time of a NEWER row of the group
        out.append({"tags": e["tags"], "columns": e["columns"],
                    "alts": list(r["alts"]) + sorted(((t, v) for t in times.get(k, ()) if t > tmax for v in vals), key=repr)})
    return out


def relaxed_desc_selector_expectation(ds, st):
    """first()/last() under ORDER BY time DESC (known defect): same series as the reference, one row each, whose time is the
    time of SOME point of the group and whose value is the value of SOME point of the group (tag predicate only)."""
    _, tagfn, _ = _pred(st["pred"], ds)
    fld = _call_field(st)
    pts = {}
    for si, ti, t, v in ds.rows():
        if v.get(fld) is None or (tagfn and not tagfn(SERIES[si])):
            continue
        pts.setdefault(SERIES[si][st["gbtag"]] if st["gbtag"] else "", []).append((t, v[fld]))
    out = []
    for e in evaluate(ds, st):
        k = e["tags"][st["gbtag"]] if st["gbtag"] else ""
        ps = pts.get(k, [])
        out.append({"tags": e["tags"], "columns": e["columns"],
                    "alts": sorted(set((t, (v,)) for t, _ in ps for _, v in ps), key=repr)})
    return out


def null_f_row_passes_filter(ds, st, split_row=False):
    """Trigger of a known defect family: some row inside the tag/time predicates passes the field filter although a field the
    statement aggregates is null in it (only possible when the filter is on another field). With split_row the two halves of
    the row completed after the flush count as rows."""
    _, tagfn, fieldfn = _pred(st["pred"], ds)
    if fieldfn is None:
        return False
    _, _, lo, hi, _ = _range(st["rng"], ds.T)
    sp = ds.split_point() if split_row else None
    flds = [it[2] for it in agg_items(st)]
    for si, ti, t, v in ds.rows():
        if tagfn and not tagfn(SERIES[si]):
            continue
        if (lo is not None and t < lo) or (hi is not None and t > hi):
            continue
        halves = [{k: x for k, x in v.items() if k in h} for h in ds.split_halves()] if sp == (si, ti) else [v]
        for hv in halves:
            if any(hv.get(f) is None for f in flds) and fieldfn(hv):
                return True
    return False


def veq(a, b):
    """a = actual cell, b = expected cell.  Strings, booleans and integers are compared exactly (an expected integer is the
    exact result of integer arithmetic: 2^53 + 1 is not 2^53); as soon as a float is involved the comparison is numeric with
    1e-9 relative tolerance (JSON does not distinguish 2 from 2.0)."""
    if a is ANY or b is ANY:
        return True
    if isinstance(b, _Either):
        return any(veq(a, x) for x in b)
    if isinstance(a, _Either):
        return any(veq(x, b) for x in a)
    if a is None or b is None:
        return a is None and b is None
    if isinstance(a, bool) or isinstance(b, bool):
        return a is b
    if isinstance(a, str) or isinstance(b, str):
        return a == b
    if isinstance(a, int) and isinstance(b, int):
        return a == b
    return abs(a - b) <= 1e-9 * max(1.0, abs(a), abs(b))


def _teq(x, y):
    return len(x) == len(y) and all(veq(a, b) for a, b in zip(x, y))


def merge_docs(body):
    """A /query body (one JSON document, or several for chunked answers) -> {statement_id: {"series": [...]} | {"error": ..}}.
    Consecutive pieces of one series (same name and tags) are concatenated."""
    dec = json.JSONDecoder()
    txt = body.decode() if isinstance(body, bytes) else body
    i, n = 0, len(txt)
    res = {}
    while i < n:
        while i < n and txt[i] in " \r\n\t":
            i += 1
        if i >= n:
            break
        doc, i = dec.raw_decode(txt, i)
        if "error" in doc and "results" not in doc:
            res.setdefault(-1, {})["error"] = doc["error"]
            continue
        for r in doc.get("results", []):
            sid = r.get("statement_id", 0)
            cur = res.setdefault(sid, {"series": []})
            if "error" in r:
                cur["error"] = r["error"]
            for s in r.get("series") or []:
                tags = s.get("tags") or {}
                if cur["series"] and cur["series"][-1]["tags"] == tags and cur["series"][-1]["name"] == s.get("name") \
                        and cur["series"][-1]["columns"] == s.get("columns"):
                    cur["series"][-1]["values"].extend(s.get("values") or [])
                else:
                    cur["series"].append({"name": s.get("name"), "tags": tags, "columns": s.get("columns"),
                                          "values": list(s.get("values") or [])})
    return res


def canon(ans, desc):
    """Canonical text of an actual answer: series sorted by tags (the language fixes no series order across ASC/DESC),
    rows in ascending orientation."""
    if ans is None:
        return "null"
    if "error" in ans:
        return json.dumps({"error": ans["error"]})
    ss = []
    for s in ans["series"]:
        vals = list(reversed(s["values"])) if desc else s["values"]
        ss.append([sorted(s["tags"].items()), s["columns"], vals])
    ss.sort(key=lambda x: json.dumps(x[0]))
    return json.dumps(ss, sort_keys=True)


def match(ans, exp, desc, mst=None):
    """None when the actual answer `ans` ({"series": [...]}) is one of the answers the reference allows, else a reason."""
    if ans is None:
        return "no result for the statement"
    if "error" in ans:
        return "error: %s" % ans["error"]
    seen = {}
    for s in ans["series"]:
        if mst is not None and s["name"] != mst:
            return "series name %r" % s["name"]
        k = tuple(sorted(s["tags"].items()))
        if k in seen:
            return "series %s returned twice (non-adjacent pieces)" % dict(k)
        seen[k] = s
    want = {tuple(sorted(e["tags"].items())): e for e in exp}
    if set(seen) != set(want):
        return "series set %s, expected %s" % (sorted(seen), sorted(want))
    for k, e in want.items():
        s = seen[k]
        if s["columns"] != e["columns"]:
            return "columns %s, expected %s" % (s["columns"], e["columns"])
        rows = list(reversed(s["values"])) if desc else s["values"]
        if "alts" in e:
            if len(rows) != 1:
                return "series %s: %d rows, expected 1" % (dict(k), len(rows))
            r = rows[0]
            if not any(r[0] == t and _teq(r[1:], v) for t, v in e["alts"]):
                return "series %s: row %s, expected one of %s" % (dict(k), r, e["alts"])
            continue
        # group actual rows by time, in order
        ag = []
        for r in rows:
            if ag and ag[-1][0] == r[0]:
                ag[-1][1].append(tuple(r[1:]))
            else:
                ag.append((r[0], [tuple(r[1:])]))
        at = [g[0] for g in ag]
        et = [g[0] for g in e["groups"]]
        if at != et:
            if sorted(at) == et:
                return "series %s: rows out of time order %s" % (dict(k), at)
            return "series %s: row times %s, expected %s" % (dict(k), _rel(at), _rel(et))
        for (t, arows), (_, cand, need) in zip(ag, e["groups"]):
            if len(arows) != need:
                return "series %s: %d rows at %d, expected %d" % (dict(k), len(arows), t, need)
            pool = list(cand)
            for r in arows:
                for j, c in enumerate(pool):
                    if _teq(r, c):
                        del pool[j]
                        break
                else:
                    return "series %s: row %s at %d, expected %s%s" % (
                        dict(k), list(r), t, "" if need == len(cand) else "%d of " % need, [list(c) for c in cand])
    return None


def _rel(ts):
    return ts


def exp_to_json(exp):
    return json.loads(json.dumps(exp))
